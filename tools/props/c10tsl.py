"""C10 (map_ over a DYNAMIC list) - one isolated child per list index, the output list mirrors the input list.

`map_(f, tsl)` over a `TSL<TS<Int>>` without a fixed size is NOT the keyed map node: it is
src/hgraph/runtime/tsl_map_node.cpp (own child store indexed by the list index, own scheduling of the children - a scan of
ALL children per evaluation, no heap -, own output list, children for EVERY index below the longest multiplexed list, never
removed before the node stops).  Streams `tslmap*` feed textual growth / tick histories to harness/drv_tslmap.cpp
(hgv_tslmap: a REAL graph replay(dynamic TSL) [, replay(second dynamic TSL) | replay(broadcast TS)] -> map_(f, ...) ->
record) and to the model driver lean/Drivers/TslMap.lean (HgVerif.TslMap.cycle / stop, the definitions the theorems of
Props/C10Tsl.lean are about).

The monitor decides the property from the implementation's output alone with a per-index reference (`_Ref`: the mapped
function run alone on one index's element stream from the cycle the index appeared): recorded delta, full output value,
list length, child start / stop events, which children were evaluated, started-child counts.
Merged into tools/props/c10.py (dispatch on the stream name prefix `tslmap`).
"""
import os
import random
from vlib import Case, Stream, BUILD, model_cmd

ID = "C10T"
LEAN_MODULES = ["HgVerif.Props.C10Tsl"]
THEOREMS = [
    "HgVerif.TslMap.tslmap_no_lost_child_wakeup",
    "HgVerif.TslMap.tslmap_wakeup_honoured",
    "HgVerif.TslMap.tslmap_per_index",
    "HgVerif.TslMap.tslmap_per_index_ticks",
    "HgVerif.TslMap.tslmap_fresh_at_growth",
    "HgVerif.TslMap.tslmap_non_interference",
    "HgVerif.TslMap.tslmap_length_mirror",
    "HgVerif.TslMap.tslmap_elements_mirror_valid_children",
    "HgVerif.TslMap.tslmap_stop_exactly_once",
    "HgVerif.TslMap.tslmap_started_eq_stopped",
]
CXX_TARGETS = ["hgv_tslmap"]
RULE = ("streams tslmap*: growth / tick histories replayed into a REAL graph replay(dynamic TSL<TS<Int>>) [+ a second "
        "multiplexed dynamic list of another length | a broadcast TS<Int>] -> map_(f) -> record (tsl_map_node.cpp), f from: "
        "stateless +1, running sum, value+1000*index, self-scheduling echo (1,2,3 steps or a value-dependent delay), "
        "emits-only-even, throws-on-negative (map_ over a list has no error output: the run ends), broadcast add, "
        "broadcast add that emits only while the broadcast is MODIFIED for the child (sampled at the child's start), two "
        "lists of differing lengths; with and without the index argument `ndx`. Histories: growth by 1 and by jumps (the "
        "elements in between exist and stay unset), ticks of old indices in the growth cycle, many indices per cycle, "
        "first set of a long-unset index, idle cycles for pending wake-ups, broadcast ticks with and without element ticks "
        "and in the growth cycle, growth across the lengths 1,2,4,8,16(,32). Non-trivial: >= 3 indices, a growth after the "
        "first cycle and a tick of an index that existed before the cycle; distinct by sha1 of the case body")
TRUSTED = ["dynamic-list map: the TSL value storage (growth of the input / output lists), replay / record nodes and the "
           "stable slot store of the children are taken as given (C05/C20); the child graph of one index is abstracted as "
           "an arbitrary Mealy machine with a cached next-scheduled time (C01-C03, C09 are about what happens inside it)"]
ASSUMPTIONS = ["dynamic-list map: the list sources do not re-point (no switch_/REF upstream of map_; the outer_sources "
               "handle comparison of update_tsl_map_sources is not modelled); children never pause (resume_index stays "
               "npos); the mapped function's terminal writes the list element directly (ChildTerminalWritesElement: "
               "finalize_mapped_child_output is not run); the engine evaluates the map node at every time its slot in "
               "the parent schedule names (C02); per-index statements need the environment contract SrcOk (a list that "
               "grows ticks the node; re-binding notifications only happen in a cycle in which a list size changed)"]
LEVEL_TEXT = ("DYNAMIC-LIST map_ (Props/C10Tsl.lean, streams tslmap*; model of tsl_map_node.cpp as coded: children for every "
              "index below the longest list, full scan of all children per evaluation, re-arm of the parent per child, "
              "re-binding after a size change, stop at node stop): kernel-checked for ARBITRARY child behaviours and all "
              "growth / tick / notification histories - every started child with a pending wake-up has the map node armed "
              "not later than it (tslmap_no_lost_child_wakeup), a child is never evaluated late and IS evaluated in the "
              "cycle of its wake-up (tslmap_wakeup_honoured); every index's entry is the child run alone on its own view of "
              "the history, created from init in the cycle the list grows past it (tslmap_per_index, tslmap_per_index_ticks, "
              "tslmap_fresh_at_growth), hence two histories that agree on one index give it the same stream whatever the "
              "other indices do (tslmap_non_interference); the output length is the longest input length ever seen and "
              "element i is valid exactly when the child of i has emitted, with its latest value "
              "(tslmap_length_mirror, tslmap_elements_mirror_valid_children); node stop stops every started child exactly "
              "once and nothing else (tslmap_stop_exactly_once, tslmap_started_eq_stopped).")
LEVEL_NOTE = ("Dynamic-list map_: source re-pointing, pause / resume and the forwarding output modes are outside the model; "
              "map_ over a list has no error output (exception_time_series on it is rejected at wiring time), a failing "
              "child ends the run - 'failures are isolated' is therefore not a statement about this node.")

FNS = ["inc", "acc", "acc", "addidx", "echo1", "echo2", "echo3", "echov", "echov", "even", "neg", "addb", "addb", "bmod", "pair", "pair"]
BOUNDS = (1, 2, 4, 8, 16, 32)


# ------------------------------------------------------------------ generator

def _val(rng, fn):
    if fn == "neg":
        return rng.choice([rng.randint(0, 50), rng.randint(1, 9), rng.randint(0, 50), 0, rng.randint(0, 50), rng.randint(0, 9),
                           rng.randint(-9, -1) if rng.random() < 0.25 else rng.randint(0, 9)])
    if fn == "even":
        return rng.choice([rng.randint(-20, 20), 2 * rng.randint(0, 9), 2 * rng.randint(0, 9) + 1])
    return rng.choice([rng.randint(-99, 99), rng.randint(0, 9), 0, rng.randint(-999, 999)])


class _Lst:
    """One growing list; `word` is the op name (set / bset)."""

    def __init__(self, rng, fn, word):
        self.rng, self.fn, self.word = rng, fn, word
        self.n = 0
        self.unset = set()

    def grow(self, by, ops, fill=0.0):
        """grow by `by` elements: the LAST new index is set, the ones in between with probability `fill`"""
        last = self.n + by - 1
        for i in range(self.n, last):
            if self.rng.random() < fill:
                ops.append("%s %d %d" % (self.word, i, _val(self.rng, self.fn)))
            else:
                self.unset.add(i)
        ops.append("%s %d %d" % (self.word, last, _val(self.rng, self.fn)))
        self.n = last + 1

    def tick(self, k, ops, busy):
        """tick k old indices (indices that existed before this cycle's growth)"""
        cands = [i for i in range(self.n) if i not in busy]
        self.rng.shuffle(cands)
        for i in cands[:k]:
            busy.add(i)
            self.unset.discard(i)
            ops.append("%s %d %d" % (self.word, i, _val(self.rng, self.fn)))

    def tick_unset(self, ops, busy):
        cands = [i for i in self.unset if i not in busy]
        if cands:
            i = self.rng.choice(cands)
            busy.add(i)
            self.unset.discard(i)
            ops.append("%s %d %d" % (self.word, i, _val(self.rng, self.fn)))


def gen_case(rng, idx, tier, fn=None):
    fn = fn or rng.choice(FNS)
    ndx = 1 if fn == "addidx" else int(rng.random() < 0.65)
    two, bc = fn == "pair", fn in ("addb", "bmod")
    a = _Lst(rng, fn, "set")
    b = _Lst(rng, fn, "bset")
    top = rng.choice([3, 5, 9, 17, 18] if tier == "quick" else [5, 9, 17, 33, 34])
    scenario = rng.choice(["grow1", "jumps", "boundary", "burst", "walk", "walk"])
    cycles = []

    def zop(p=0.3):
        return ["z %d" % rng.randint(-50, 50)] if bc and rng.random() < p else []

    def emit(ops):
        rng.shuffle(ops)
        cycles.append(ops)

    if bc and rng.random() < 0.45:
        emit(["z %d" % rng.randint(-50, 50)])             # the broadcast is valid before any element exists
    ncyc = rng.randint(6, 14) if tier == "quick" else rng.randint(8, 30)
    if scenario == "boundary":
        # walk the length over 1, 2, 4, 8, 16 (, 32): a cycle that ends just below a boundary, then the step over it
        for bnd in [x for x in BOUNDS if x < top + 2]:
            lst = b if two and rng.random() < 0.35 else a
            while lst.n < bnd:
                ops, busy = [], set()
                step = min(bnd - lst.n, rng.choice([1, 1, 2, 8]))
                busy.update(range(lst.n, lst.n + step))
                lst.grow(step, ops, fill=rng.choice([0.0, 0.5, 1.0]))
                if rng.random() < 0.6:
                    (a if rng.random() < 0.7 else b if two else a).tick(rng.choice([1, 1, 2]), ops, busy)
                emit(ops + zop())
            ops, busy = [], set()
            busy.add(lst.n)
            lst.grow(1, ops)                            # the step over the boundary ...
            if rng.random() < 0.7:
                a.tick(rng.choice([1, 2, 3]), ops, busy)          # ... together with ticks of old indices
            emit(ops + zop(0.4))
            if rng.random() < 0.3:
                emit(zop(0.7))
    elif scenario == "grow1":
        for _ in range(ncyc):
            ops, busy = [], set()
            lst = b if two and rng.random() < 0.4 else a
            if lst.n < top and rng.random() < 0.75:
                busy.add(lst.n)
                lst.grow(1, ops)
            r = rng.random()
            if r < 0.55:
                a.tick(rng.choice([1, 1, 2]), ops, busy)
            if two and rng.random() < 0.4:
                b.tick(1, ops, set())
            emit(ops + zop())
    elif scenario == "jumps":
        for _ in range(ncyc):
            ops, busy = [], set()
            lst = b if two and rng.random() < 0.4 else a
            if lst.n < top and rng.random() < 0.6:
                by = min(top - lst.n, rng.choice([2, 3, 3, 5, 1]))
                busy.update(range(lst.n, lst.n + by))
                lst.grow(by, ops, fill=rng.choice([0.0, 0.0, 0.3]))
            r = rng.random()
            if r < 0.35:
                a.tick(rng.choice([1, 2]), ops, busy)
            elif r < 0.7:
                (b if two and rng.random() < 0.5 else a).tick_unset(ops, busy)     # the late first set of an unset index
            emit(ops + zop())
    elif scenario == "burst":
        for _ in range(rng.randint(2, 4)):
            ops, busy = [], set()
            by = max(1, min(top - a.n, rng.randint(2, 6)))
            if a.n < top:
                busy.update(range(a.n, a.n + by))
                a.grow(by, ops, fill=0.8)
            a.tick(rng.randint(1, 5), ops, busy)
            if two:
                bb = set()
                if b.n < top:
                    bb.update(range(b.n, b.n + 2))
                    b.grow(rng.choice([1, 2, 4]), ops, fill=0.5)
                b.tick(rng.randint(0, 3), ops, bb)
            emit(ops + zop())
            ops, busy = [], set()
            a.tick(rng.randint(2, max(2, a.n)), ops, busy)          # many indices in one cycle
            emit(ops + zop())
            if rng.random() < 0.5:
                emit(zop(0.8))
    else:
        for _ in range(ncyc):
            r = rng.random()
            ops, busy = [], set()
            if r < 0.08:
                pass                                      # idle cycle
            elif r < 0.16 and bc:
                ops = ["z %d" % rng.randint(-50, 50)]     # broadcast tick without element ticks
                emit(ops)
                continue
            else:
                lst = b if two and rng.random() < 0.4 else a
                if lst.n < top and rng.random() < 0.45:
                    by = min(top - lst.n, rng.choice([1, 1, 1, 2, 4]))
                    busy.update(range(lst.n, lst.n + by))
                    lst.grow(by, ops, fill=rng.choice([0.0, 0.5]))
                a.tick(rng.choice([0, 1, 1, 2, 3]), ops, busy)
                if two:
                    b.tick(rng.choice([0, 0, 1, 2]), ops, set(range(b.n)) if lst is b and busy else set())
                if rng.random() < 0.15:
                    a.tick_unset(ops, busy)
            emit(ops + zop())
    if not any(cycles):
        ops = []
        a.grow(rng.choice([1, 2, 3]), ops)
        emit(ops)
    if fn.startswith("echo"):
        for _ in range(rng.choice([1, 2, 4])):
            cycles.append([])
    elif rng.random() < 0.2:
        cycles.append([])
    lines = ["case %d" % idx, "cfg %s %d" % (fn, ndx)]
    for ops in cycles:
        lines.append(" ".join(["c"] + ops))
    lines.append("run")
    return Case(lines)


def exhaustive_small(tier):
    """every history of length <= L over the ops {set old index 0, set old index 1, grow by 1, grow by 2, idle} per cycle"""
    import itertools
    cases, idx = [], 970000
    top = 3 if tier == "quick" else 5
    for fn, ndx in (("acc", 1), ("echo2", 0), ("echo2", 1)):
        for L in range(1, top + 1):
            for seq in itertools.product(range(5), repeat=L):
                n, lines, ok = 0, [], True
                for t, s_ in enumerate(seq):
                    if s_ < 2:
                        if s_ >= n:
                            ok = False
                            break
                        lines.append("c set %d %d" % (s_, 3 * t + s_ + 1))
                    elif s_ < 4:
                        n += s_ - 1
                        lines.append("c set %d %d" % (n - 1, 3 * t + 7))
                    else:
                        lines.append("c")
                if ok and n > 0:
                    idx += 1
                    cases.append(Case(["case %d" % idx, "cfg %s %d" % (fn, ndx)] + lines + ["c", "c", "run"]))
    return cases


def streams(rng, tier, seed):
    """Own random stream (the histories of the streams of c10.py do not move)."""
    rr = random.Random(seed * 7919 + 71)
    n = 330 if tier == "quick" else 9000
    cdir = os.path.join(os.path.dirname(BUILD), "corpus", "C10", "tslmap")
    corpus = []
    if os.path.isdir(cdir):
        for f in sorted(os.listdir(cdir)):
            if os.path.isfile(os.path.join(cdir, f)):
                corpus.append(Case([l.rstrip("\n") for l in open(os.path.join(cdir, f)) if l.strip()]))
    cases = corpus + [gen_case(rr, 600000 + i, tier) for i in range(n)] + exhaustive_small(tier)
    return [Stream("tslmap", [os.path.join(BUILD, "hgv_tslmap")], model_cmd("TslMap"), cases, timeout=3000)]


# ------------------------------------------------------------------ the reference (plain Python, one instance per index)

class _Fail(Exception):
    pass


class _Ref:
    """The mapped function run alone on ONE index, from the cycle the index appeared."""

    def __init__(self, fn, index, cycle):
        self.fn, self.index, self.born = fn, index, cycle
        self.total = 0
        self.echo = 0
        self.wake = None          # cycle of the pending self-scheduled evaluation
        self.k = int(fn[4:]) if fn.startswith("echo") and fn != "echov" else 2

    def due(self, cyc):
        return self.wake == cyc

    def on_cycle(self, cyc, i):
        """i: dict(a, aTick, b, bTick, z, zTick) -> output value or None; raises _Fail when the function throws"""
        fn = self.fn
        a, at = i["a"], i["aTick"]
        if fn == "inc":
            return a + 1 if at else None
        if fn == "acc":
            if at:
                self.total += a
                return self.total
            return None
        if fn == "addidx":
            return a + 1000 * self.index if at else None
        if fn.startswith("echo"):
            if at:
                self.echo = a + 100
                self.wake = cyc + (1 + a % 3 if fn == "echov" else self.k)
                return a
            if self.wake == cyc:
                self.wake = None
                return self.echo
            return None
        if fn == "even":
            return a if at and a % 2 == 0 else None
        if fn == "neg":
            if at:
                if a < 0:
                    raise _Fail()
                self.total += a
                return self.total
            return None
        if fn == "addb":
            z = i["z"]
            if (at or i["zTick"]) and a is not None and z is not None:
                return a + z
            return None
        if fn == "bmod":
            # the broadcast is MODIFIED for this instance when it ticks - or in the instance's first cycle: a function
            # started at that moment reads the current value of its argument as its first tick
            z = i["z"]
            if (i["zTick"] or self.born == cyc) and a is not None and z is not None:
                return a + z
            return None
        if fn == "pair":
            b = i["b"]
            if (at or i["bTick"]) and a is not None and b is not None:
                return a + 1000 * b
            return None
        return None


def _fields(line):
    d = {}
    for w in line.split():
        if "=" in w:
            k, v = w.split("=", 1)
            d[k] = v
    return d


def _parse_items(text):
    """'{0=5,2=_}' -> {0: '5', 2: '_'};  '-' / '_' / None -> None"""
    if text in ("-", "_", None):
        return None
    d = {}
    body = text[1:-1]
    if body:
        for it in body.split(","):
            k, v = it.split("=", 1)
            d[int(k)] = v
    return d


def _parse_events(text):
    """-> (stops, starts, unknown stops, unknown starts)"""
    stops, starts, us, ust = [], [], 0, 0
    if text not in ("-", None):
        for it in text.split(","):
            if it == "+?":
                ust += 1
            elif it == "-?":
                us += 1
            elif it.startswith("+"):
                starts.append(int(it[1:]))
            elif it.startswith("-"):
                stops.append(int(it[1:]))
    return sorted(stops), sorted(starts), us, ust


def _spec(case, out):
    """Per-index reference run over the input history, judged against the implementation's lines."""
    bad, feats = [], set()
    fn, ndx = "inc", 0
    a, b, z = {}, {}, None
    la = lb = 0
    refs = {}          # index -> _Ref
    outd = {}          # expected valid output elements
    cyc = 0
    dead = False
    grew_later = saw_old_tick = saw_wake = False
    out = list(out) + ["<missing>"] * (len(case.lines) - len(out))
    for ln, o in zip(case.lines, out):
        w = ln.split()
        if not w or w[0] == "case":
            continue
        if w[0] == "cfg" and len(w) == 3:
            fn, ndx = w[1], int(w[2])
            feats.update(["fn:" + fn, "index-arg:%d" % ndx])
            continue
        if w[0] == "run":
            if dead:
                if o != "err:exception":
                    bad.append("[C10-tsl-failure] after a child exception the run must have ended; got %r" % o)
                continue
            if o.startswith("err:") or o.startswith("<") or o == "bad-op":
                bad.append("[C10-tsl-driver] the run failed or stopped: driver reported %s for %r" % (o, ln))
                continue
            f = _fields(o)
            stops, starts, us, ust = _parse_events(f.get("ev", "-"))
            live = sorted(refs)
            if starts or ust:
                bad.append("[C10-tsl-lifecycle] a child was started at shutdown: %s" % f.get("ev"))
            if ndx:
                if stops != live or us:
                    bad.append("[C10-tsl-lifecycle] at node stop the stopped children are %s (+%d unknown), the started "
                               "children are %s: every started child must be stopped exactly once" % (stops, us, live))
            elif us != len(live) or stops:
                bad.append("[C10-tsl-lifecycle] at node stop %d children stop, %d were started" % (us + len(stops), len(live)))
            if f.get("n") != str(len(live)):
                bad.append("[C10-tsl-lifecycle] at node stop %s stop events, %d children were started" % (f.get("n"), len(live)))
            if f.get("late") != "0":
                bad.append("[C10-tsl-lifecycle] %s children were not stopped by the node's stop but only when the node storage "
                           "was destroyed" % f.get("late"))
            continue
        if w[0] != "c":
            continue
        if dead:
            if o != "err:exception":
                bad.append("[C10-tsl-failure] after a child exception the run must have ended; got %r" % o)
            continue
        # ---- the ops of this cycle ---------------------------------------------------------------
        two, bc = fn == "pair", fn in ("addb", "bmod")
        sets_a, sets_b, ztick = {}, {}, False
        i = 1
        while i < len(w):
            t = w[i]
            if t == "set":
                sets_a[int(w[i + 1])] = int(w[i + 2]); i += 3
            elif t == "bset":
                if two:
                    sets_b[int(w[i + 1])] = int(w[i + 2])
                i += 3
            elif t == "z":
                if bc:
                    z = int(w[i + 1]); ztick = True
                i += 2
            else:
                i += 1
        la0, lb0, live0 = la, lb, len(refs)
        a.update(sets_a)
        b.update(sets_b)
        if sets_a:
            la = max(la, max(sets_a) + 1)
        if sets_b:
            lb = max(lb, max(sets_b) + 1)
        live1 = max(la, lb, live0)
        added = list(range(live0, live1))
        for k in added:
            refs[k] = _Ref(fn, k, cyc)
        # ---- the per-index reference -------------------------------------------------------------------------
        exp_mod, req_run = {}, set()
        failed = False
        for k in sorted(refs):
            r = refs[k]
            inp = {"a": a.get(k), "aTick": k in sets_a, "b": b.get(k) if two else None, "bTick": k in sets_b,
                   "z": z if bc else None, "zTick": ztick}
            due = r.due(cyc)
            if not (inp["aTick"] or inp["bTick"] or ztick or due):
                continue
            req_run.add(k)
            if due:
                saw_wake = True
                others = (set(sets_a) | set(sets_b)) - {k}
                feats.add("child-wake-up" + ("+tick-same-cycle" if inp["aTick"] else "") +
                          ("+growth-same-cycle" if added else "") + ("+other-index-ticks" if others else "-alone"))
            if inp["aTick"] and k < la0 and k < live0:
                saw_old_tick = True
            try:
                v = r.on_cycle(cyc, inp)
            except _Fail:
                failed = True
                break
            if v is not None:
                if k not in outd and r.born < cyc:
                    feats.add("late-first-output-of-old-index")
                exp_mod[k] = str(v)
                outd[k] = str(v)
        # ---- features -----------------------------------------------------------------------------------------
        if added:
            feats.add("grow-by-1" if len(added) == 1 else "grow-by-jump")
            if cyc > 0 and live0 > 0:
                grew_later = True
            old = [k for k in sets_a if k < live0] + [k for k in sets_b if k < live0]
            if old:
                feats.add("old-index-ticks-in-growth-cycle")
            if ztick:
                feats.add("bcast-tick-in-growth-cycle")
            for bnd in BOUNDS:
                if live0 <= bnd < live1:
                    feats.add("grow-over-%d" % bnd)
            if any(k not in a and k not in b for k in added):
                feats.add("child-for-unset-element")
        if len(sets_a) + len(sets_b) >= 3:
            feats.add("many-indices-in-one-cycle")
        if not sets_a and not sets_b and not ztick:
            feats.add("idle-cycle")
        if ztick:
            feats.add("bcast-tick" + ("+element-ticks" if sets_a else "-only"))
        if two and la != lb:
            feats.add("pair:differing-lengths")
        if two and ((sets_a and la0 < la and any(la0 <= k < live0 for k in sets_a)) or
                    (sets_b and lb0 < lb and any(lb0 <= k < live0 for k in sets_b))):
            feats.add("pair:shorter-list-grows-under-existing-child")
        n = len(refs)
        feats.add("n:%s" % (n if n <= 2 else "3-4" if n <= 4 else "5-8" if n <= 8 else "9-16" if n <= 16 else ">16"))
        cyc += 1
        # ---- judge the implementation's line ------------------------------------------------------------------
        if failed:
            dead = True
            feats.add("child-failure-ends-run")
            if o != "err:exception":
                bad.append("[C10-tsl-failure] cycle %d: a child failed (no error output on a list map), the run must end "
                           "with the exception; got %r" % (cyc - 1, o))
            continue
        if o.startswith("err:") or o.startswith("<") or o in ("bad-op", "idle"):
            bad.append("[C10-tsl-driver] the run failed or stopped: cycle %d driver reported %s" % (cyc - 1, o))
            continue
        f = _fields(o)
        got = _parse_items(f.get("rec")) or {}
        if got != exp_mod:
            bad.append("[C10-tsl-delta] the recorded delta differs from what the indices give when run alone: cycle %d "
                       "recorded %s, reference %s" % (cyc - 1, f.get("rec"), dict(sorted(exp_mod.items()))))
        gval = _parse_items(f.get("val"))
        if gval is not None:
            if sorted(gval) != list(range(len(refs))):
                bad.append("[C10-tsl-len] the output list does not mirror the input length: cycle %d holds elements %s, "
                           "the longest input list has %d" % (cyc - 1, sorted(gval), len(refs)))
            else:
                valid = {k: v for k, v in gval.items() if v != "_"}
                if valid != outd:
                    bad.append("[C10-tsl-value] the output value differs from the per-index reference (valid elements must "
                               "be exactly the valid child outputs): cycle %d value %s, reference %s" %
                               (cyc - 1, dict(sorted(valid.items())), dict(sorted(outd.items()))))
        elif outd:
            bad.append("[C10-tsl-value] the output is not valid although children have emitted: cycle %d reference %s" %
                       (cyc - 1, dict(sorted(outd.items()))))
        if f.get("len") != str(len(refs)):
            bad.append("[C10-tsl-len] output list length %s, the longest input list has %d elements: cycle %d" %
                       (f.get("len"), len(refs), cyc - 1))
        stops, starts, us, ust = _parse_events(f.get("ev", "-"))
        if stops or us:
            bad.append("[C10-tsl-lifecycle] a child was stopped before the node stops: cycle %d events %s" % (cyc - 1, f.get("ev")))
        if ndx:
            if starts != added or ust:
                bad.append("[C10-tsl-lifecycle] child start events do not follow the growth: cycle %d events %s, new indices %s" %
                           (cyc - 1, f.get("ev"), added))
        elif ust != len(added) or starts:
            bad.append("[C10-tsl-lifecycle] child start counts do not follow the growth: cycle %d started %d, new indices %d" %
                       (cyc - 1, ust + len(starts), len(added)))
        runs = f.get("run", "-")
        toks = [] if runs == "-" else runs.split(",")
        allowed = req_run | set(added)
        if ndx:
            unk = [x for x in toks if not x.isdigit()]
            if unk:
                bad.append("[C10-tsl-isolation] a child was evaluated whose own first evaluation never happened (no index "
                           "tag): cycle %d run=%s" % (cyc - 1, runs))
            grun = {int(x) for x in toks if x.isdigit()}
            if not (req_run <= grun <= allowed) or len(toks) != len(set(toks)):
                bad.append("[C10-tsl-isolation] the children evaluated are not the indices with own input ticks / due "
                           "wake-ups: cycle %d evaluated %s, required %s, allowed in addition (created this cycle) %s" %
                           (cyc - 1, runs, sorted(req_run), sorted(set(added) - req_run)))
        elif not (len(req_run) <= len(toks) <= len(allowed)):
            bad.append("[C10-tsl-isolation] the number of children evaluated does not fit the indices with own input ticks "
                       "/ due wake-ups: cycle %d evaluated %d, required %d, at most %d" %
                       (cyc - 1, len(toks), len(req_run), len(allowed)))
        if f.get("act") != str(len(refs)) or f.get("cg") != str(len(refs)):
            bad.append("[C10-tsl-lifecycle] started / constructed children differ from the list length: cycle %d act=%s cg=%s, "
                       "length %d" % (cyc - 1, f.get("act"), f.get("cg"), len(refs)))
    if len(refs) >= 3 and grew_later and saw_old_tick and (saw_wake or not fn.startswith("echo")):
        feats.add("nontrivial")
    return bad, feats


def monitor(stream, case, out):
    return _spec(case, out)[0][:3]


def features(stream, case, out):
    return sorted("tsl:" + x for x in _spec(case, out)[1] if x != "nontrivial")


def nontrivial(stream, case, out):
    return "nontrivial" in _spec(case, out)[1]


def alarm_filter(stream, case, impl_out, model_out):
    """Every field of a line is observable (recorded delta, value, length, lifecycle / evaluation events, counts)."""
    if len(impl_out) != len(model_out):
        return True, ["line counts differ"]
    notes = ["line %d: %r vs %r" % (i, x, y) for i, (x, y) in enumerate(zip(impl_out, model_out)) if x != y]
    return bool(notes), notes[:5]


def valid_case(stream, case, impl_out, model_out):
    for o in (impl_out, model_out):
        if o is not None and any(("bad-op" in l) or l.startswith("<") or l.startswith("err:invalid") or
                                 l.startswith("err:resolution") for l in o):
            return False
    return any(l.startswith("cfg ") for l in case.lines)
