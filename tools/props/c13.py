"""C13 - reading a time-series through a reference equals reading its current target.

The implementation driver (harness/drv_ref.cpp -> .build/hgv_ref) runs, per case, a REAL graph

    replay(selector), replay(a), replay(b)[, replay(c)] -> if_then_else | if_cmp -> REF<S>
        -> [direct | through a nested_ pass-through | consumers inside a nested_ graph fed with the
            dereferenced value | consumers inside a nested_ graph fed with the reference itself]
        -> 1..3 counting consumers + the stdlib recorder reading through the reference
    record(a), record(b)[, record(c)]

or, for the CHAINED configurations (`cfg ... tree:<T>`), a selection TREE in place of the single operator:

    T ::= a|b|c|d | i(T,T) | m(T,T,T) | p(T)       if_then_else / if_cmp whose branches are targets or the
                                                   un-dereferenced REF outputs of other selection operators,
                                                   optionally handed through a nested_ graph (p)

with one replayed selector per selection node (`s<k>=<branch>`, nodes numbered in pre-order, root = 0),

SIBLING CHILDREN (`cfg tsf|tle|tssf|tsx|tsm ...`): the targets a..d are children of node outputs - fields of ONE
TSB output (tsf; tssf: TSS-valued fields), elements of ONE fixed TSL output (tle), the same field of four
different TSB outputs (tsx), or two siblings plus two independent sources (tsm); the consumers read TS<Int> /
TSS<Int> and the rules below apply unchanged (the monitor only adds the sibling features).

STRUCTURED targets (`cfg tsb2|tsb3|tsl2|tsbw2 ...`): every target is the whole output of one node (TSB{x,y},
TSB{x,y,z}, TSL<TS<Int>,2>; tsbw2: a TSB assembled at wiring time with to_tsb - control), fed by one replay source
per field (`a.x=5`), so that fields start at different times or never; the consumers read the bundle and print
per field value / validity / modified (`walk_struct` is the per-field version of the rules below).

and prints, per engine cycle, whether the REF output ticked, what the recorders on the targets stored,
what the recorder through the reference stored, and what every evaluated consumer saw.

The monitor below decides the property on that trace alone.  Its only own machinery is a text parser
and the obvious reference bookkeeping: the contents of every target (folded from the recorders on the
targets themselves) and the selected target (from the `sel=` / `s<k>=` tokens of the input).  It does not
know about links, subscriptions, transitions, or which node was evaluated when.

Reading of a selection tree (state-based, no events): every selection node designates what its currently
selected branch designates; the consumer reads the target the ROOT designates.  It must be evaluated when that
target ticks or when the designated target changes to a valid one (sampled value), and must not be when
neither happens (a path change that resolves to the same target included).  A node whose selector is unset,
or whose selected branch designates nothing yet, KEEPS what it designated before (nothing, at the start):
that is what `if_then_else` does in the code and in hgraph's Python implementation (`if true_value.valid:`),
so the reference is "unset" only until the first complete resolution; afterwards a switch to a branch that
has no reference yet leaves the old reference in place (feature `stale-reference-kept`, Lean
`chain_out_spec` / `staleExample`).

Finding of the real code (raised by the last stream only, tag in the message):
  [C13-A]  `delta_value()` (`In<TSS/TSD>::delta()`) read through a reference in a retarget cycle is the
           target's own delta storage: no value when the target did not tick, only the target's own
           delta when it did - not the difference between old and new contents that the key accessors
           and `record` report.  The other streams do not judge `delta_value()` in retarget cycles, so
           that a failure there is never classified under this fingerprint.
Repaired (fix: /verif/fixes/c13_b.patch): former finding C13-B - a key that the previously selected
set/dict removed in an EARLIER cycle was reported as removed again at a retarget (pending-erase slot
counted as published).  The pattern is generated on purpose (scenario "removal-then-retarget", corpus
10_c13b_regression.txt); if it comes back it is an ordinary `[removed]` / `[record]` violation.
"""
import os, re
from vlib import Case, Stream, BUILD, model_cmd

ID = "C13"
LEAN_MODULES = ["HgVerif.Props.C13", "HgVerif.Props.C13Chain", "HgVerif.Props.C13Struct", "HgVerif.Props.C13Sib"]
THEOREMS = [
    "HgVerif.RefLink.ref_subscription_inv", "HgVerif.RefLink.ref_subscription_exact",
    "HgVerif.RefLink.ref_same_no_tick", "HgVerif.RefLink.ref_same_link_noop",
    "HgVerif.RefLink.ref_same_cycle_no_ref_tick",
    "HgVerif.RefLink.ref_unselected_silent", "HgVerif.RefLink.ref_evaluated_cause",
    "HgVerif.RefLink.ref_reads_target", "HgVerif.RefLink.ref_evaluated_when_target_ticks",
    "HgVerif.RefLink.ref_own_delta_when_no_retarget",
    "HgVerif.RefLink.ref_retarget_samples", "HgVerif.RefLink.ref_retarget_samples_keyed",
    "HgVerif.RefLink.pubRPreFix_reports_stale", "HgVerif.RefLink.ref_delta_value_keyed_refuted",
    "HgVerif.RefLink.cycle_sched_nil", "HgVerif.RefLink.reach_sched", "HgVerif.RefLink.applyDelta_keys_spec",
    # chained references (Props/C13Chain.lean)
    "HgVerif.RefLink.nodeStep_spec", "HgVerif.RefLink.chain_out_spec", "HgVerif.RefLink.chain_inv",
    "HgVerif.RefLink.chain_out_resolved", "HgVerif.RefLink.chain_equals_resolved",
    "HgVerif.RefLink.chain_retarget_samples", "HgVerif.RefLink.chain_unchanged_silent",
    "HgVerif.RefLink.chain_reads_designated",
    # structured targets (Props/C13Struct.lean)
    "HgVerif.RefLink.structured_subscription_inv", "HgVerif.RefLink.structured_subscription_exact",
    "HgVerif.RefLink.structured_fields_follow_target", "HgVerif.RefLink.unselected_field_ticks_silent",
    "HgVerif.RefLink.field_tick_evaluates", "HgVerif.RefLink.first_field_tick_reaches_consumer",
    "HgVerif.RefLink.structured_retarget_samples", "HgVerif.RefLink.chain_struct_inv",
    "HgVerif.RefLink.chain_struct_equals_resolved",
    # designations = (output, path): sibling children of one output (Props/C13Sib.lean)
    "HgVerif.RefLink.Desig.code_inj", "HgVerif.RefLink.selectEq_sameDesig", "HgVerif.RefLink.cycleEq_sameDesig",
    "HgVerif.RefLink.desig_subscription_exact", "HgVerif.RefLink.desig_retarget_samples",
    "HgVerif.RefLink.chain_desig_retarget_samples", "HgVerif.RefLink.sibling_ticks_silent",
    "HgVerif.RefLink.desig_reads_designated_child", "HgVerif.RefLink.retarget_samples_under_sameDesig",
    "HgVerif.RefLink.path_blind_select_noop", "HgVerif.RefLink.path_blind_sibling_retarget_silent",
    "HgVerif.RefLink.path_blind_equality_refuted",
]
CXX_TARGETS = ["hgv_ref"]
RULE = ("graphs replay(sel),replay(a),replay(b)[,replay(c)] -> if_then_else|if_cmp|a selection TREE of if_then_else/if_cmp/"
        "nested pass-through nodes whose branches are targets or inner REF outputs (<= 6 selectors, depth <= 4, fixed "
        "two-/three-level topologies and random trees, 1 selector per node) -> [direct|nested pass|nested inner|"
        "nested inner taking the REF] "
        "-> 1-3 consumers + record, shapes TS<Int>/TSS<Int>/TSD<Int,TS<Int>> and STRUCTURED targets (whole node outputs "
        "TSB{x,y} / TSB{x,y,z} / TSL<TS<Int>,2>, control: TSB{x,y} assembled with to_tsb; one replay source per field, "
        "fields start at independent times incl. never; flat and chained selection; every 3-cycle history over "
        "{no selector,a,b} x {nothing, a.x, b.y, a.y+b.x ticks}); SIBLING CHILDREN as targets: a..d = fields of ONE "
        "TSB{x,y,z,w} node output (tsf), elements of ONE TSL<TS<Int>,4> output (tle), TSS fields of one TSB (tssf, "
        "control), field x of four different TSB outputs (tsx, control), two siblings + two independent sources (tsm), "
        "same flat / if_cmp / tree generators and every 3-cycle history, histories of 3-14 cycles built from the "
        "named timing scenarios plus random cycles, and every history of length 3 (quick) / 4 (thorough) over "
        "{no selector, sel=a, sel=b} x {a ticks} x {b ticks}, and every history of length 3 over i(i(a,b),c) x "
        "{each selector silent|branch} x {no target, all targets tick}; a case is non-trivial when it contains a retarget to a "
        "valid target that did not tick in that cycle, a tick of an unselected target after the first selection, a "
        "re-selection of the selected target, a retarget caused by an inner selector while the root's selector is silent, "
        "a path change that ends at the same target, a kept (stale) reference, a retarget to a partly valid bundle, "
        "the first tick of a field after its target was selected, or a field tick of an unselected bundle; distinct "
        "by sha1 of the case text")
TRUSTED = ["contract-level model: REF output = optional target id, one link per consumer; the attachment "
           "bookkeeping of ts_output/alternative.cpp (shared endpoint link, active tries, forwarding sources) and "
           "target_link*.cpp is NOT modelled, only exercised through the real graph",
           "structured targets: one flat link per consumer field, the re-bind loop over all fields (alternative.cpp "
           "apply_output_to_from_ref_non_peered) is selectS; bundle validity = some field valid, evaluation = some "
           "field link scheduled; the harness nodes hgv_make_* (copy a ticking field source into the output field) "
           "and hgv_target_obs are trusted",
           "sibling children: a designation (output, path) is target number out*4+path (injective); reference "
           "equality is a parameter of the selection operator (selectEq), the code's equality gives select; the harness "
           "producer nodes hgv_make_f4 / _l4 / _ss4 (copy what ticked into the child) are trusted",
           "chained references: one nodeStep per selection operator and cycle, bottom-up (rank order is C01's); a REF "
           "handed through a nested_ graph is modelled as transparent",
           "the engine part of the model is three phases per cycle (targets, selector, consumers) - rank order and "
           "at-most-once evaluation are C01's, validity gating C03's",
           "the value layer, KeySlotStore and record/replay are exercised, not modelled (replay/record round trip: C20)"]
ASSUMPTIONS = ["simulation mode, dense 'testing' record/replay backend, start time MIN_ST, one cycle per MIN_TD",
               "references are peered references to whole outputs (no empty references; bundles / fixed lists of "
               "scalar fields as whole node outputs, and - control shape tsbw2 - one non-peered reference to a TSB "
               "assembled with to_tsb, there only with a field of every target ticking in the first cycle: before any "
               "of its fields is valid such a bundle carries no reference and if_then_else keeps what it had, which the "
               "monitor reads that way but the model does not cover; no nested structures, no per-field references); selection by if_then_else / if_cmp only (switch_ is C12's), flat or "
               "chained (branches may be the REF outputs of other selection operators, also through a nested_ graph)",
               "a selection whose selected branch has not published a reference yet keeps the reference it published "
               "before (if_then_else_impl: `if (!selected.valid()) return;`, same as hgraph's Python if_then_else): the "
               "monitor reads a tree this way (feature stale-reference-kept); 'unset selections make the reference "
               "unset' holds only until the first complete resolution (Lean: chain_out_spec, staleExample)",
               "a replayed delta never names the same key in its set and delete part",
               "the clamp of graph.cpp nested_schedule_node_impl is neither modelled nor exercised: in these graphs "
               "every cross-boundary notification already carries the parent's current time (a probe build that "
               "aborts on an earlier time never fired); evaluations of an all-Unchecked consumer inside a nested "
               "graph at child start / at a boundary REF tick are known finding F2 (C09) and are reproduced, not judged",
               "ref_retarget_samples_keyed (old-vs-new difference for sets/dicts) holds for every history of the code "
               "WITH fixes/c13_b.patch; the pre-fix published-key test is kept as pubRPreFix with the lemma "
               "pubRPreFix_reports_stale (why the fix was needed); its only hypothesis besides reachability is the "
               "delta discipline above",
               "delta_value() of keyed shapes is proved NOT to be the sampled difference "
               "(ref_delta_value_keyed_refuted, [C13-A]); the key accessors and record are"]
TECHNIQUE = ("Lean 4 proof (subscription invariant over every reachable state of the link transition system, "
             "per-cycle theorems for every history by induction over the consumer fold and the target fold) with "
             "differential correspondence against a real graph built from the working tree and an independent "
             "reference monitor on the implementation trace")
LEVEL_TEXT = ("Kernel-checked for ALL retarget/tick histories of the contract-level model: every consumer below a "
              "reference is subscribed to exactly the current target; ticks of other targets and re-published "
              "references evaluate nobody; every evaluation reads value/validity/own delta of the current target and "
              "happens whenever that target ticks; a retarget to a valid target evaluates every consumer in that cycle "
              "with modified=true and the sampled value; for sets/dicts the reported difference equals old-vs-new "
              "contents for every history (after the repair of finding C13-B); 'delta_value() is the difference' is "
              "refuted (known finding C13-A). Chained references: for every selection tree the event-driven "
              "publication of the operators equals the state-based reading (a node designates what its selected "
              "branch designates), and a cycle of the tree above a dereference IS a cycle of one reference to the "
              "designated / resolved target, so all of the above holds for chains. Structured targets (bundle / "
              "fixed list outputs): every field link of every consumer is bound to its field of the CURRENT target "
              "in every reachable state, so every field read is the current target's (valid or not), ticks of fields "
              "of other targets evaluate nobody, a tick - also the first ever - of a field of the current target "
              "evaluates every consumer with that field modified, a retarget samples every valid field; also below "
              "selection trees. Designations are (output, path): a consumer is subscribed to a child iff the "
              "reference designates that output AND that path, a retarget between sibling children of one output "
              "samples like any other, and comparing references by output only (seeded s87) is refuted by a "
              "kernel-checked counter-witness. The model is tied to the code by running the real "
              "operators and consumers on generated histories."
              ' Structured targets (Props/C13Struct.lean, streams structured*; whole TSB / TSL node outputs behind a reference, flat or below a selection tree): in every reachable state field link (c,f) is subscribed to field f of the current target and to nothing else, every field read equals the field of the designated target after any retarget whether or not that field ever ticked (structured_fields_follow_target), ticks of unselected targets are silent, the first tick of a field reaches the consumer, a retarget samples every valid field.')
LEVEL_NOTE = ("PARTIAL by design: the model is the linking contract (linking_strategies.rst 'Sampled rebinds' + the "
              "observable behaviour of the anchored files), not alternative.cpp's attachment bookkeeping; switch_, "
              "nested structures, per-field and empty references are outside the model and the generator. Trusted: Lean "
              "kernel, axioms propext/Classical.choice/Quot.sound, the hand-written model, the harness.")

SHAPES = ["ts", "tss", "tsd"]
KEYS = [1, 2, 3, 4, 5]
EXE = [os.path.join(BUILD, "hgv_ref")]


# ------------------------------------------------------------------ selection trees
MAX_TARGETS, MAX_SEL, MAX_DEPTH = 4, 6, 4


class TNode:
    def __init__(self, kind, target=None, sel=None):
        self.kind, self.target, self.sel, self.kids = kind, target, sel, []


class Tree:
    """parsed `T` (same grammar and limits as both drivers); nodes[0] is the root"""
    def __init__(self, text):
        self.text, self.nodes, self.nsel, self.ntargets, self.arity, self.ok = text, [], 0, 0, [], False
        try:
            pos = self._parse(0, 1)
            self.ok = pos == len(text) and self.nodes[0].kind in "im"
        except (IndexError, ValueError):
            self.ok = False
        self.sel_nodes = {n.sel: i for i, n in enumerate(self.nodes) if n.kind in "im"}

    def _parse(self, pos, depth):
        if depth > MAX_DEPTH:
            raise ValueError
        ch = self.text[pos]
        if "a" <= ch < chr(ord("a") + MAX_TARGETS):
            self.nodes.append(TNode("l", target=ord(ch) - 97))
            self.ntargets = max(self.ntargets, ord(ch) - 96)
            return pos + 1
        if ch not in "imp" or self.text[pos + 1] != "(":
            raise ValueError
        want = {"i": 2, "m": 3, "p": 1}[ch]
        node = TNode(ch)
        if ch != "p":
            if self.nsel >= MAX_SEL:
                raise ValueError
            node.sel = self.nsel
            self.nsel += 1
            self.arity.append(want)
        self.nodes.append(node)
        pos += 2
        for k in range(want):
            if k:
                if self.text[pos] != ",":
                    raise ValueError
                pos += 1
            node.kids.append(len(self.nodes))
            pos = self._parse(pos, depth + 1)
            if ch == "p" and self.nodes[node.kids[-1]].kind == "l":
                raise ValueError
        if self.text[pos] != ")":
            raise ValueError
        return pos + 1

    def depth(self, n=0):
        return 0 if self.nodes[n].kind == "l" else 1 + max(self.depth(k) for k in self.nodes[n].kids)

    def designate(self, conds, cur, leaf_ok=None):
        """one cycle of the state-based reading: new designation of every node, bottom-up (kids have higher indices);
        leaf_ok(target) = the branch wired to that target carries a reference (always, unless given)"""
        new = [None] * len(self.nodes)
        for i in range(len(self.nodes) - 1, -1, -1):
            n = self.nodes[i]
            if n.kind == "l":
                new[i] = n.target if leaf_ok is None or leaf_ok(n.target) else None
            elif n.kind == "p":
                new[i] = new[n.kids[0]]
            else:
                b = conds.get(n.sel)
                below = new[n.kids[b]] if b is not None else None
                new[i] = below if below is not None else cur[i]
        return new

    def resolve(self, conds, n=0):
        """follow the current selections from node n; None when a selector on the way is unset"""
        node = self.nodes[n]
        if node.kind == "l":
            return node.target
        if node.kind == "p":
            return self.resolve(conds, node.kids[0])
        b = conds.get(node.sel)
        return None if b is None else self.resolve(conds, node.kids[b])

    def path(self, conds, n=0):
        """selection nodes on the current path from node n (stops at an unset selector)"""
        node = self.nodes[n]
        if node.kind == "l":
            return []
        if node.kind == "p":
            return self.path(conds, node.kids[0])
        b = conds.get(node.sel)
        return [node.sel] + ([] if b is None else self.path(conds, node.kids[b]))


FLAT = {False: Tree("i(a,b)"), True: Tree("m(a,b,c)")}
TREES = {}


def tree_of(text):
    if text not in TREES:
        TREES[text] = Tree(text)
    return TREES[text]


# ------------------------------------------------------------------ generator
class GenTarget:
    def __init__(self):
        self.items = {}


# sibling-children shapes: the targets are children of node outputs; the consumers read the base shape.
#   group(letter index) = the output the child belongs to (same group = siblings: what seeded defect s87 confuses)
SIB = {"tsf": "ts", "tle": "ts", "tsx": "ts", "tsm": "ts", "tssf": "tss"}
SIB_GROUP = {"tsf": [0, 0, 0, 0], "tle": [0, 0, 0, 0], "tssf": [0, 0, 0, 0], "tsx": [0, 1, 2, 3], "tsm": [0, 0, 1, 2]}
SIB_PICK = ["tsf", "tsf", "tsf", "tle", "tle", "tle", "tsm", "tsm", "tsx", "tssf"]


def gen_delta(rng, shape, tg, hint=None):
    """A replayable delta token for target state `tg` (tracked naively; only used to keep deltas effective)."""
    noop_ok = shape != "tssf"      # the producer node copies added / removed: a set delta without effect would not tick
    shape = SIB.get(shape, shape)
    if shape == "ts":
        return str(rng.randint(-9, 99))
    present = sorted(tg.items)
    absent = [k for k in KEYS if k not in tg.items]
    adds, rems, mods = [], [], []
    if hint == "rem" and present:
        rems = [rng.choice(present)]
    elif hint == "add" and absent:
        adds = rng.sample(absent, min(len(absent), rng.randint(1, 2)))
    else:
        na = rng.choice([0, 1, 1, 2])
        nr = rng.choice([0, 0, 1, 1, 2])
        adds = rng.sample(absent, min(len(absent), na))
        rems = rng.sample(present, min(len(present), nr))
        if shape == "tsd" and present and rng.random() < 0.35:
            mods = [k for k in rng.sample(present, 1) if k not in rems]
    noop = []
    if noop_ok and rng.random() < 0.07:          # an element without effect: add a present key / remove an absent one
        if present and rng.random() < 0.5 and shape == "tss":
            cand = [k for k in present if k not in rems]
            if cand:
                noop.append("+%d" % rng.choice(cand))
        elif absent:
            cand = [k for k in absent if k not in adds]
            if cand:
                noop.append("-%d" % rng.choice(cand))
    if not adds and not rems and not mods and not noop:
        if absent:
            adds = [rng.choice(absent)]
        else:
            rems = [rng.choice(present)]
    parts = []
    if shape == "tss":
        parts = ["+%d" % k for k in adds] + ["-%d" % k for k in rems]
    else:
        parts = ["%d:%d" % (k, rng.randint(1, 99)) for k in adds + mods] + ["-%d" % k for k in rems]
    parts += noop
    rng.shuffle(parts)
    for k in rems:
        tg.items.pop(k, None)
    for k in adds + mods:
        tg.items[k] = 1
    return ",".join(parts)


# abstract cycles: (selected letter | None, [ticking letters or (letter, hint)])
SCENARIOS = {
    "earlier": [(None, ["b"]), ("a", ["a"]), (None, []), ("b", [])],
    "same-cycle": [("a", ["a"]), ("b", ["b"])],
    "never": [("a", ["a"]), ("b", []), (None, ["a"]), (None, ["b"])],
    "back": [("a", ["a", "b"]), ("b", []), ("a", [])],
    "reselect": [("a", ["a"]), ("a", []), ("a", ["b"]), ("a", ["a"])],
    "unselected": [("a", ["a", "b"]), (None, ["b"]), (None, ["b"]), (None, ["a"])],
    "old-ticks-at-retarget": [("a", ["a", "b"]), ("b", ["a"])],
    "old-ticks-to-invalid": [("a", ["a"]), ("b", ["a"]), (None, ["b"])],
    "removal-then-retarget": [("a", [("a", "add"), "b"]), (None, [("a", "rem")]), (None, []), ("b", [])],
    "before-selector": [(None, ["a"]), (None, ["b"]), (None, []), ("a", [])],
    "ping-pong": [("a", ["a", "b"]), ("b", []), ("a", []), ("b", ["b"]), ("a", ["a"])],
}


def render(rng, idx, shape, ncons, stage, cmp, abstract):
    letters = "abc" if cmp else "ab"
    tg = {l: GenTarget() for l in letters}
    lines = ["case %d" % idx, "cfg %s %d %s%s" % (shape, ncons, stage, " cmp" if cmp else "")]
    for sel, ticks in abstract:
        toks = []
        if sel is not None:
            toks.append("sel=%s" % sel)
        for t in ticks:
            l, hint = (t, None) if isinstance(t, str) else t
            toks.append("%s=%s" % (l, gen_delta(rng, shape, tg[l], hint)))
        rng.shuffle(toks)
        lines.append(" ".join(["c"] + toks))
    lines.append("run")
    return Case(lines)


def random_cycles(rng, letters, n, cur=None):
    out = []
    for _ in range(n):
        sel = None
        if rng.random() < 0.42:
            if cur is not None and rng.random() < 0.3:
                sel = cur
            else:
                sel = rng.choice([l for l in letters if l != cur] or list(letters))
            cur = sel
        ticks = [l for l in letters if rng.random() < 0.36]
        out.append((sel, ticks))
    return out


def gen_case(rng, idx, maxlen, sib=False):
    shape = rng.choice(SIB_PICK) if sib else rng.choice(["ts", "ts", "tss", "tss", "tss", "tsd", "tsd", "tsd"])
    ncons = rng.choice([1, 2, 2, 3, 3])
    stage = rng.choice(["direct", "direct", "direct", "pass", "inner", "innerref"])
    cmp = rng.random() < 0.25
    letters = "abc" if cmp else "ab"
    abstract = []
    if rng.random() < 0.6:
        name = rng.choice(sorted(SCENARIOS))
        perm = list(letters)
        rng.shuffle(perm)
        ren = dict(zip("abc", perm + ["c"]))
        for sel, ticks in SCENARIOS[name]:
            abstract.append((ren[sel] if sel else None,
                             [ren[t] if isinstance(t, str) else (ren[t[0]], t[1]) for t in ticks]))
        if rng.random() < 0.4:     # a random warm-up in front: the scenario starts from an arbitrary state
            abstract = random_cycles(rng, letters, rng.randint(1, 4)) + abstract
    cur = None
    for sel, _ in abstract:
        cur = sel or cur
    abstract += random_cycles(rng, letters, rng.randint(1, max(1, maxlen - len(abstract))), cur)
    return render(rng, idx, shape, ncons, stage, cmp, abstract[:maxlen + 4])


# ---- chained references: selection trees ------------------------------------------------------
# fixed topologies (weight, text): two-level trees, shared targets below different branches, if_cmp inside /
# outside, nested pass-through of an inner reference, depth 3
TOPOLOGIES = [
    (5, "i(i(a,b),c)"), (3, "i(a,i(b,c))"), (5, "i(i(a,b),i(c,d))"), (3, "i(i(a,b),i(b,a))"), (2, "i(i(a,b),i(b,c))"),
    (3, "i(m(a,b,c),d)"), (2, "m(i(a,b),c,i(c,d))"), (2, "i(m(a,b,c),i(a,d))"), (2, "m(a,m(b,c,d),i(a,b))"),
    (3, "i(p(i(a,b)),c)"), (2, "i(p(i(a,b)),p(i(c,a)))"), (1, "i(p(i(a,b)),m(c,a,d))"),
    (3, "i(i(i(a,b),c),d)"), (2, "i(i(a,i(b,c)),d)"), (2, "m(a,i(i(b,c),d),b)"), (2, "i(i(i(a,b),i(c,d)),i(a,i(d,b)))"),
]


assert all(Tree(t).ok for _, t in TOPOLOGIES)


def random_tree_text(rng):
    """a random selection tree within the limits of the drivers (root i|m, <= 6 selectors, depth <= 4)"""
    budget = [0]

    def rec(depth, root=False):
        if not root and (depth >= MAX_DEPTH or budget[0] <= 0 or rng.random() < 0.3 + 0.15 * depth):
            return rng.choice("abcd"[:rng.choice([2, 3, 4, 4])])
        if not root and depth < MAX_DEPTH - 1 and rng.random() < 0.12:
            inner = rec(depth + 1)
            return "p(%s)" % inner if len(inner) > 1 else inner
        budget[0] -= 1
        if rng.random() < 0.25:
            return "m(%s,%s,%s)" % (rec(depth + 1), rec(depth + 1), rec(depth + 1))
        return "i(%s,%s)" % (rec(depth + 1), rec(depth + 1))
    while True:
        budget[0] = rng.randint(2, MAX_SEL)
        txt = rec(1, True)
        t = tree_of(txt)
        if t.ok and t.nsel >= 2:       # at least one reference-shaped branch
            return txt


def leaf_paths(tree, n=0):
    """all root-to-leaf selections: ([(selector, branch), ...], target)"""
    node = tree.nodes[n]
    if node.kind == "l":
        return [([], node.target)]
    if node.kind == "p":
        return leaf_paths(tree, node.kids[0])
    out = []
    for b, k in enumerate(node.kids):
        out += [([(node.sel, b)] + rest, t) for rest, t in leaf_paths(tree, k)]
    return out


def random_chain_cycles(rng, tree, n, conds, p_sel=None):
    letters = "abcd"[:tree.ntargets]
    p_sel = p_sel if p_sel is not None else min(0.3, 0.7 / tree.nsel)
    out = []
    for _ in range(n):
        sels = {}
        for k in range(tree.nsel):
            if rng.random() < p_sel:
                cur = conds.get(k)
                if cur is not None and rng.random() < 0.25:
                    sels[k] = cur
                else:
                    sels[k] = rng.choice([b for b in range(tree.arity[k]) if b != cur])
                conds[k] = sels[k]
        out.append((sels, [l for l in letters if rng.random() < 0.36]))
    return out


def chain_scenario(rng, tree, name, conds):
    """named timing scenarios of chained references, built on a random path of `tree`; updates `conds`"""
    letters = "abcd"[:tree.ntargets]
    paths = leaf_paths(tree)
    deep = [p for p in paths if len(p[0]) >= 2] or paths
    path, leaf = rng.choice(deep)
    some = lambda: [l for l in letters if rng.random() < 0.5]
    out = []

    def put(sels, ticks):
        conds.update(sels)
        out.append((dict(sels), ticks))

    def detour(at):
        """flip selection node path[at] to another branch and give every selector below the new branch a value
        -> (flip, selectors below, new leaf)"""
        k, b = path[at]
        nb = rng.choice([x for x in range(tree.arity[k]) if x != b])
        sub, nleaf = rng.choice(leaf_paths(tree, tree.nodes[tree.sel_nodes[k]].kids[nb]))
        return {k: nb}, dict(sub), nleaf

    if name == "inner-retarget":           # the deepest / a middle selector flips, everything above is silent (s16)
        put(dict(path), list(letters) if rng.random() < 0.7 else some())
        put({}, [letters[leaf]] if rng.random() < 0.6 else [])
        at = rng.randrange(1, len(path)) if len(path) > 1 else 0
        flip, below, nleaf = detour(at)
        mode = rng.choice(["same-cycle", "prepared", "late"])
        if mode == "prepared":
            put(below, some())
            put(flip, [])
        elif mode == "same-cycle":
            put({**flip, **below}, [letters[nleaf]] if rng.random() < 0.3 else [])
        else:                               # the new branch has no reference yet: the old one stays, then it arrives
            put(flip, [])
            put({}, [letters[leaf], letters[nleaf]])
            put(below, [])
        put({}, [letters[leaf], letters[nleaf]])
        put({}, [letters[nleaf]])
        put({path[at][0]: path[at][1]}, [])     # and back
    elif name == "top-down":                # the selectors get their first value from the root downwards
        put({}, list(letters) if rng.random() < 0.5 else some())
        for k, b in path:
            put({k: b}, [letters[leaf]] if rng.random() < 0.3 else [])
        put({}, [letters[leaf]])
    elif name == "bottom-up":
        put({}, some())
        for k, b in reversed(path):
            put({k: b}, [])
        put({}, list(letters))
    elif name == "root-switch":             # the root leaves the path and comes back while the inner reference moved
        put(dict(path), list(letters))
        flip, below, nleaf = detour(0)
        put({**flip, **below} if rng.random() < 0.6 else flip, [])
        if len(path) > 1:
            f2, b2, _ = detour(len(path) - 1)
            put({**f2, **b2}, some())
        put({path[0][0]: path[0][1]}, [])
        put({}, list(letters))
    elif name == "same-target-other-path":  # another path that ends at the same target: nothing may happen
        same = [p for p in paths if p[1] == leaf and p[0] != path]
        put(dict(path), list(letters))
        if same:
            other = dict(rng.choice(same)[0])
            put({k: v for k, v in other.items() if conds.get(k) != v}, [])
        else:
            put({k: b for k, b in path if rng.random() < 0.6}, [])     # re-selection of the same branches
        put({}, [letters[leaf]])
    elif name == "unselected-inner":        # selectors off the current path move; then the root reaches them
        put(dict(path), list(letters))
        off = [k for k in range(tree.nsel) if k not in dict(path)]
        for k in rng.sample(off, min(len(off), 2)):
            put({k: rng.randrange(tree.arity[k])}, some())
        flip, below, nleaf = detour(0)
        put(flip, [])
        put(below, [])
        put({}, list(letters))
    return out


CHAIN_SCENARIOS = ["inner-retarget", "inner-retarget", "top-down", "bottom-up", "root-switch", "same-target-other-path",
                   "unselected-inner"]


def render_chain(rng, idx, shape, ncons, stage, text, abstract):
    tree = tree_of(text)
    letters = "abcd"[:tree.ntargets]
    tg = {l: GenTarget() for l in letters}
    lines = ["case %d" % idx, "cfg %s %d %s tree:%s" % (shape, ncons, stage, text)]
    for sels, ticks in abstract:
        toks = ["s%d=%d" % (k, b) for k, b in sorted(sels.items())]
        for t in ticks:
            l, hint = (t, None) if isinstance(t, str) else t
            if not any(x.startswith(l + "=") for x in toks):
                toks.append("%s=%s" % (l, gen_delta(rng, shape, tg[l], hint)))
        rng.shuffle(toks)
        lines.append(" ".join(["c"] + toks))
    lines.append("run")
    return Case(lines)


def gen_chain_case(rng, idx, maxlen, sib=False):
    shape = rng.choice(SIB_PICK) if sib else rng.choice(["ts", "ts", "ts", "tss", "tss", "tsd", "tsd"])
    ncons = rng.choice([1, 2, 2, 3])
    stage = rng.choice(["direct", "direct", "direct", "direct", "pass", "inner", "innerref"])
    if rng.random() < 0.7:
        total = sum(w for w, _ in TOPOLOGIES)
        x = rng.random() * total
        for w, text in TOPOLOGIES:
            x -= w
            if x < 0:
                break
    else:
        text = random_tree_text(rng)
    tree = tree_of(text)
    conds, abstract = {}, []
    if rng.random() < 0.3:
        abstract += random_chain_cycles(rng, tree, rng.randint(1, 4), conds, 0.5)
    if rng.random() < 0.75:
        abstract += chain_scenario(rng, tree, rng.choice(CHAIN_SCENARIOS), conds)
    abstract += random_chain_cycles(rng, tree, rng.randint(1, max(1, maxlen - len(abstract))), conds)
    return render_chain(rng, idx, shape, ncons, stage, text, abstract[:maxlen + 5])


def exhaustive_chain(rng, text, shapes, length, start_idx, tick_sets):
    """every history of `length` cycles over {each selector: silent | one of its branches} x tick_sets"""
    tree = tree_of(text)
    sel_alpha = [{}]
    for k in range(tree.nsel):
        sel_alpha = [{**a, **({k: b} if b is not None else {})} for a in sel_alpha for b in [None] + list(range(tree.arity[k]))]
    alpha = [(a, list(t)) for a in sel_alpha for t in tick_sets]
    cases, idx = [], start_idx

    def rec(prefix):
        nonlocal idx
        if len(prefix) == length:
            for shape in shapes:
                cases.append(render_chain(rng, idx, shape, 2, "direct", text, prefix))
                idx += 1
            return
        for sym in alpha:
            rec(prefix + [sym])
    rec([])
    return cases


# ---- structured targets: bundles / fixed lists whose fields start at different times --------------
STRUCT = {"tsb2": 2, "tsb3": 3, "tsl2": 2, "tsbw2": 2}
FIELDS = "xyz"


def render_struct(rng, idx, shape, ncons, stage, topo, abstract):
    """abstract cycle: (selector ticks {k: branch} (flat: {0: target index}), [(letter, field index), ...])"""
    lines = ["case %d" % idx, "cfg %s %d %s%s" % (shape, ncons, stage, "" if topo in ("ite", "") else " " + topo)]
    flat = not topo.startswith("tree:")
    for sels, ticks in abstract:
        toks = ["sel=%s" % "abc"[b] for _, b in sels.items()] if flat else ["s%d=%d" % (k, b) for k, b in sorted(sels.items())]
        seen = set()
        for l, f in ticks:
            if (l, f) not in seen:
                seen.add((l, f))
                toks.append("%s.%s=%d" % (l, FIELDS[f], rng.randint(1, 99)))
        rng.shuffle(toks)
        lines.append(" ".join(["c"] + toks))
    lines.append("run")
    return Case(lines)


def gen_struct_case(rng, idx, maxlen):
    shape = rng.choice(["tsb2", "tsb2", "tsb2", "tsb3", "tsb3", "tsl2", "tsl2", "tsbw2"])
    nf = STRUCT[shape]
    ncons = rng.choice([1, 2, 2, 3])
    stage = rng.choice(["direct", "direct", "direct", "direct", "pass", "inner", "innerref"])
    r = rng.random()
    if r < 0.5:
        topo, tree = "ite", FLAT[False]
    elif r < 0.62:
        topo, tree = "cmp", FLAT[True]
    else:
        text = rng.choice(["i(i(a,b),c)", "i(a,i(b,c))", "i(i(a,b),i(b,a))", "i(m(a,b,c),a)", "i(p(i(a,b)),c)",
                           "i(i(a,b),i(c,d))", "m(i(a,b),c,i(c,a))", "i(i(i(a,b),c),a)"]) if rng.random() < 0.8 else random_tree_text(rng)
        topo, tree = "tree:" + text, tree_of(text)
    letters = "abcd"[:tree.ntargets]
    # per target and field: the cycle of its first tick (None = never): the late-starting fields
    horizon = maxlen + 2
    first = {(l, f): rng.choice([0, 0, 0, 1, 2, 3, 5, 7, None]) for l in letters for f in range(nf)}
    if shape == "tsbw2":
        # a bundle assembled at wiring time is referenced item by item; its reference is not valid before one of its
        # fields is (if_then_else then keeps what it had - the kept-reference rule); the model does not cover that:
        # every target has a field that ticks in the first cycle
        for l in letters:
            first[(l, rng.randrange(nf))] = 0
    elif rng.random() < 0.3:               # one target starts completely late / never
        l = rng.choice(letters)
        for f in range(nf):
            first[(l, f)] = rng.choice([None, 4, 6, 8])
    paths = leaf_paths(tree)
    conds, abstract = {}, []

    def ticks_at(cyc, rate=0.3):
        out = []
        for (l, f), st in first.items():
            if st is not None and (cyc == st or (cyc > st and rng.random() < rate)):
                out.append((l, f))
        return out

    def select(path):
        sels = {k: b for k, b in path if conds.get(k) != b or rng.random() < 0.15}
        conds.update(sels)
        return sels

    cyc = 0
    if rng.random() < 0.7:                 # scenario: select P, let things tick, retarget to Q (partly valid), old / new field
        (p, pl), (q, ql) = rng.choice(paths), rng.choice(paths)      # ticks, back
        pre = rng.randint(0, 2)
        for _ in range(pre):
            abstract.append(({}, ticks_at(cyc)))
            cyc += 1
        abstract.append((select(p), ticks_at(cyc)))
        cyc += 1
        for _ in range(rng.randint(1, 3)):
            abstract.append(({}, ticks_at(cyc, 0.5)))
            cyc += 1
        abstract.append((select(q), ticks_at(cyc) if rng.random() < 0.5 else []))
        cyc += 1
        old_f, new_f = rng.randrange(nf), rng.randrange(nf)
        abstract.append(({}, [(letters[pl], old_f)]))                # a field of the deselected target
        abstract.append(({}, [(letters[ql], new_f)]))                # a (maybe never ticked) field of the selected one
        cyc += 2
        first[(letters[ql], new_f)] = min(first[(letters[ql], new_f)] if first[(letters[ql], new_f)] is not None else cyc, cyc)
        abstract.append((select(p), []))
        cyc += 1
    while len(abstract) < maxlen:
        sels = {}
        for k in range(tree.nsel):
            if rng.random() < min(0.3, 0.6 / tree.nsel):
                cur = conds.get(k)
                sels[k] = cur if cur is not None and rng.random() < 0.25 else rng.choice([b for b in range(tree.arity[k]) if b != cur])
                conds[k] = sels[k]
        abstract.append((sels, ticks_at(cyc)))
        cyc += 1
    if topo in ("ite", "cmp"):
        abstract = [({0: tree.nodes[tree.nodes[0].kids[b]].target for _, b in sels.items()}, t) for sels, t in abstract]
    return render_struct(rng, idx, shape, ncons, stage, "" if topo == "ite" else topo, abstract[:maxlen + 4])


def exhaustive_struct(rng, shape, length, start_idx, tick_sets):
    """every history of `length` cycles over {no selector, sel=a, sel=b} x tick_sets, two targets"""
    alpha = [(({} if s is None else {0: s}), list(t)) for s in (None, 0, 1) for t in tick_sets]
    cases, idx = [], start_idx

    def rec(prefix):
        nonlocal idx
        if len(prefix) == length:
            cases.append(render_struct(rng, idx, shape, 2, "direct", "", prefix))
            idx += 1
            return
        for sym in alpha:
            rec(prefix + [sym])
    rec([])
    return cases


def exhaustive(rng, shapes, length, start_idx):
    alpha = [(s, [l for l, on in zip("ab", (ta, tb)) if on]) for s in (None, "a", "b") for ta in (0, 1) for tb in (0, 1)]
    cases, idx = [], start_idx

    def rec(prefix):
        nonlocal idx
        if len(prefix) == length:
            for shape in shapes:
                cases.append(render(rng, idx, shape, 2, "direct", False, prefix))
                idx += 1
            return
        for sym in alpha:
            rec(prefix + [sym])
    rec([])
    return cases


DIRECTED_FINDINGS = [
    # [C13-A] pure retarget and retarget + tick of the new target
    ["cfg tss 2 direct", "c sel=a a=+1,+2 b=+2,+3", "c sel=b", "c sel=a a=+4", "run"],
    ["cfg tsd 2 direct", "c sel=a a=1:10,2:20 b=2:21,3:30", "c sel=b", "c sel=a a=4:40", "run"],
]


def corpus_cases():
    cdir = os.path.join(os.path.dirname(BUILD), "corpus", "C13")
    out = []
    if os.path.isdir(cdir):
        for f in sorted(os.listdir(cdir)):
            out.append(Case([l.rstrip("\n") for l in open(os.path.join(cdir, f)) if l.strip()]))
    return out


def streams(rng, tier, seed):
    quick = tier == "quick"
    n_rand = 400 if quick else 40000
    n_chain = 500 if quick else 40000
    maxlen = 9 if quick else 14
    rand = [gen_case(rng, i, maxlen) for i in range(n_rand)]
    chain = [gen_chain_case(rng, 200000 + i, maxlen + 2) for i in range(n_chain)]
    exh = exhaustive(rng, ["ts"] if quick else ["ts", "tss", "tsd"], 3 if quick else 4, 100000)
    # two-level tree, every history of 3 cycles over {each selector silent | one of its branches} x {no target, every
    # target ticks}; thorough adds sets with {none, a, b, c, all} ticking, an if_cmp below the root, and 4 cycles
    exh_chain = exhaustive_chain(rng, "i(i(a,b),c)", ["ts"], 3, 300000, [(), ("a", "b", "c")])
    if quick:
        # the exhaustive small-scope sets are sampled in the quick tier (thorough runs them whole)
        if len(exh) > 400:
            exh = rng.sample(exh, 400)
        if len(exh_chain) > 700:
            exh_chain = rng.sample(exh_chain, 700)
    out = [Stream("histories", EXE, model_cmd("C13"), corpus_cases() + rand),
           Stream("chained", EXE, model_cmd("C13"), chain),
           Stream("small-scope", EXE, model_cmd("C13"), exh),
           Stream("small-scope-chained", EXE, model_cmd("C13"), exh_chain)]
    # structured targets: random histories with late-starting fields, and every 3-cycle history of two tsb2 targets
    n_struct = 900 if quick else 20000
    struct = [gen_struct_case(rng, 500000 + i, maxlen) for i in range(n_struct)]
    ax, ay, bx, by = ("a", 0), ("a", 1), ("b", 0), ("b", 1)
    out += [Stream("structured", EXE, model_cmd("C13"), struct, timeout=600 if quick else 3600),
            Stream("small-scope-structured", EXE, model_cmd("C13"),
                   exhaustive_struct(rng, "tsb2", 3, 600000, [(), (ax,), (by,), (ay, bx)]))]
    # sibling children of one output as targets (and the controls): flat, if_cmp, trees; every 3-cycle history
    n_sib = 450 if quick else 12000
    sib = [gen_case(rng, 900000 + i, maxlen, sib=True) for i in range(n_sib)] + \
          [gen_chain_case(rng, 950000 + i, maxlen + 2, sib=True) for i in range(n_sib * 2 // 3)]
    if quick:
        exh_sib = rng.sample(exhaustive(rng, ["tsf", "tle"], 3, 1100000), 500)
    else:
        exh_sib = exhaustive(rng, ["tsf"], 4, 1100000) + exhaustive(rng, ["tle", "tsm", "tssf", "tsx"], 3, 1200000)
    out += [Stream("siblings", EXE, model_cmd("C13"), sib, timeout=600 if quick else 3600),
            Stream("small-scope-siblings", EXE, model_cmd("C13"), exh_sib, timeout=600 if quick else 3600)]
    if not quick:
        singles = [(), (ax,), (ay,), (bx,), (by,), (ax, ay, bx, by)]
        out += [Stream("small-scope-structured-3", EXE, model_cmd("C13"),
                       exhaustive_struct(rng, "tsb2", 3, 700000, singles) +
                       exhaustive_struct(rng, "tsl2", 3, 710000, singles), timeout=3600),
                Stream("small-scope-structured-4", EXE, model_cmd("C13"),
                       exhaustive_struct(rng, "tsb2", 4, 800000, [(), (ax,), (by,), (ay, bx)]), timeout=3600)]
    if not quick:
        subsets = [(), ("a",), ("b",), ("c",), ("a", "b", "c")]
        out += [Stream("small-scope-chained-sets", EXE, model_cmd("C13"),
                       exhaustive_chain(rng, "i(i(a,b),c)", ["tss"], 3, 400000, subsets), timeout=3600),
                Stream("small-scope-chained-cmp", EXE, model_cmd("C13"),
                       exhaustive_chain(rng, "i(a,m(b,c,a))", ["ts"], 3, 900000, [(), ("a", "b", "c")]), timeout=3600),
                Stream("small-scope-chained-4", EXE, model_cmd("C13"),
                       exhaustive_chain(rng, "i(i(a,b),c)", ["ts"], 4, 1000000, [(), ("a", "b", "c")]), timeout=3600)]
    if os.environ.get("C13_FINDINGS", "on") != "off":
        cases = [Case(["case %d" % i] + b) for i, b in enumerate(DIRECTED_FINDINGS)]
        keyed = [c for c in rand if " tss " in c.lines[1] or " tsd " in c.lines[1]][: (60 if quick else 600)]
        out.append(Stream("strict-delta", EXE, model_cmd("C13"), cases + [Case(c.lines) for c in keyed]))
    return out


# ------------------------------------------------------------------ trace parser
def parse_braced(txt):
    """'{+1,-2,~3,4:5}' -> (plus set, minus set, tilde set, kv dict, bare set)"""
    plus, minus, tilde, kv, bare = set(), set(), set(), {}, set()
    body = txt[1:-1]
    if body:
        for p in body.split(","):
            if p[0] == "+":
                plus.add(int(p[1:]))
            elif p[0] == "~":
                tilde.add(int(p[1:]))
            elif p[0] == "-" and ":" not in p:
                minus.add(int(p[1:]))
            elif ":" in p:
                k, v = p.split(":")
                kv[int(k)] = int(v)
            else:
                bare.add(int(p))
    return plus, minus, tilde, kv, bare


def parse_seen(txt):
    if txt == "-":
        return None
    if "!twice!" in txt:
        return {"twice": True}
    d = dict(tok.split("=", 1) for tok in txt.split())
    return d


class Ref:
    """reference bookkeeping of one target: contents folded from its own recorder"""
    def __init__(self):
        self.valid = False
        self.items = {}
        self.last_removed = set()
        self.last_tick = None

    def apply(self, shape, txt, cycle):
        if shape == "ts":
            self.items = {0: int(txt)}
            own = ("ts", int(txt))
        else:
            plus, minus, _, kv, _ = parse_braced(txt)
            for k in minus:
                self.items.pop(k, None)
            for k in plus:
                self.items[k] = 0
            for k, v in kv.items():
                self.items[k] = v
            own = (shape, plus, minus, kv)
            self.last_removed = set(minus)
        self.valid = True
        self.last_tick = cycle
        return own


def items_text(shape, items):
    if shape == "ts":
        return str(items[0])
    if shape == "tss":
        return "{" + ",".join(str(k) for k in sorted(items)) + "}"
    return "{" + ",".join("%d:%d" % (k, items[k]) for k in sorted(items)) + "}"


def delta_text(shape, added, removed, kv):
    if shape == "tss":
        parts = ["+%d" % k for k in sorted(added)] + ["-%d" % k for k in sorted(removed)]
    else:
        parts = ["-%d" % k for k in sorted(removed)] + ["%d:%d" % (k, kv[k]) for k in sorted(kv)]
    return "{" + ",".join(parts) + "}"


def parse_fields(txt):
    """'x:5,y:7' -> {0: 5, 1: 7};  '-' -> {}"""
    if txt in ("-", ""):
        return {}
    return {FIELDS.index(p.split(":")[0]): int(p.split(":")[1]) for p in txt.split(",")}


def walk_struct(stream, case, out):
    """structured targets, per field: the consumer reads field f of the designated target - its value and validity;
    it is evaluated when a field of the designated target ticks (that field modified) or when the designation
    changes to a target with a valid field (every valid field modified, sampled value); ticks of fields of other
    targets never reach it.  The modified flag of a field that is NOT valid is not judged (a tick of the old target
    in the retarget cycle shows there)."""
    bad, feats = [], set()
    shape, ncons, stage, nf, wired, chained = "tsb2", 1, "direct", 2, False, False
    tree = FLAT[False]
    out = list(out) + ["<none>"] * (len(case.lines) - len(out))
    vals, sel, cyc, conds, desig, ever_sel, started = {}, None, 0, {}, [], set(), {}

    def reset():
        nonlocal vals, sel, cyc, conds, desig, ever_sel, started
        vals, sel, cyc, conds, desig, ever_sel, started = {}, None, 0, {}, [None] * len(tree.nodes), set(), {}

    reset()
    for ln, o in zip(case.lines, out):
        w = ln.split()
        if not w:
            reset()
            continue
        if o.startswith("<") or o.startswith("err:"):
            bad.append("[driver] %r answered %r" % (ln, o))
            continue
        if w[0] == "case":
            reset()
            continue
        if w[0] == "cfg":
            if o == "ok":
                shape, ncons, stage = w[1], int(w[2]), w[3]
                nf, wired = STRUCT[shape], shape == "tsbw2"
                cmp = len(w) > 4 and w[4] == "cmp"
                chained = len(w) > 4 and w[4].startswith("tree:")
                tree = tree_of(w[4][5:]) if chained else FLAT[cmp]
                feats.update(["shape=" + shape, "consumers=%d" % ncons, "stage=" + stage,
                              "selector=" + ("tree" if chained else "if_cmp" if cmp else "if_then_else")])
                if chained:
                    feats.add("structured-below-a-tree")
            reset()
            continue
        if w[0] != "c" or o == "bad-op":
            reset()
            continue
        parts = o.split(" | ")
        head = dict(tok.split("=", 1) for tok in parts[0].split())
        seen = [parse_seen(p) for p in parts[1:]]
        toks = dict(t.split("=", 1) for t in w[1:])
        letters = "abcd"[:tree.ntargets]
        # ---- the targets themselves
        ticked = {}                                     # target -> {field: value}
        for t, l in enumerate(letters):
            got = parse_fields(head.get("r" + l, "-"))
            want = {FIELDS.index(k[2]): int(v) for k, v in toks.items() if len(k) == 3 and k[0] == l and k[1] == "."}
            if got != want:
                bad.append("[replay] cycle %d: target %s input %r but it ticked %r" % (cyc, l, want, got))
            if got:
                ticked[t] = got
                for f, v in got.items():
                    if (t, f) not in vals:
                        started[(t, f)] = cyc
                    vals[(t, f)] = v
        # ---- the designation
        sel_ticks = {0: letters.index(toks["sel"])} if "sel" in toks else {}
        sel_ticks.update({int(k[1:]): int(v) for k, v in toks.items() if re.fullmatch(r"s\d", k)})
        conds.update(sel_ticks)
        old_desig, old = desig, sel
        # tsbw2: the reference to a bundle assembled at wiring time exists once one of its fields is valid
        leaf_ok = (lambda t: any((t, f) in vals for f in range(nf))) if wired else None
        desig = tree.designate(conds, desig, leaf_ok)
        published = sum(1 for i, n in enumerate(tree.nodes) if n.kind != "l" and desig[i] != old_desig[i])
        retarget = desig[0] != sel
        if sel_ticks and not retarget and desig[0] is not None:
            feats.add("reselect-same")
        sel = desig[0]
        if not wired and head.get("r") != ("1" if retarget else "0"):
            bad.append("[ref-tick] cycle %d: REF output ticked=%s but the selection %s" %
                       (cyc, head.get("r"), "changed" if retarget else "did not change (same reference must not tick)"))
        cur_valid = [f for f in range(nf) if sel is not None and (sel, f) in vals]
        cur_ticked = ticked.get(sel, {}) if sel is not None else {}
        exp_mod = set(cur_valid) if retarget else set(cur_ticked)
        must = bool(exp_mod)
        # ---- features
        if retarget:
            if not cur_valid:
                feats.add("retarget-to-target-without-valid-field")
            elif len(cur_valid) < nf:
                feats.add("retarget-to-partly-valid-target")
                if old is not None:
                    feats.add("retarget-from-a-target-to-a-partly-valid-one")
            else:
                feats.add("retarget-to-fully-valid-target")
            if sel in ever_sel:
                feats.add("retarget-back")
            if old is None:
                feats.add("first-selection")
            if old is not None and old in ticked:
                feats.add("old-target-ticks-in-retarget-cycle")
            if any(f not in cur_ticked for f in cur_valid):
                feats.add("retarget-samples-earlier-ticked-field")
            if chained and 0 not in sel_ticks:
                feats.add("inner-retarget-root-silent")
            ever_sel.add(sel)
        else:
            for f in cur_ticked:
                if started.get((sel, f)) == cyc:
                    feats.add("first-tick-of-a-field-after-selection")
            if sel is not None and any(t != sel for t in ticked):
                feats.add("unselected-field-tick" + ("-only" if not cur_ticked else ""))
                for t, fs in ticked.items():
                    if t != sel and t in ever_sel and any((sel, f) not in vals for f in fs):
                        feats.add("deselected-target-ticks-a-field-the-selected-one-never-had")
        # ---- the consumers
        for i, sn in enumerate(seen[:ncons]):
            unchecked = i == 1
            name = "consumer %d" % i
            if sn is None:
                if must:
                    bad.append("[not-evaluated] cycle %d: %s was not evaluated although %s" %
                               (cyc, name, "the reference was retargeted to a target with a valid field" if retarget else
                                "field %s of the selected target ticked" % ",".join(FIELDS[f] for f in sorted(cur_ticked))))
                continue
            if sn.get("twice"):
                bad.append("[twice] cycle %d: %s evaluated twice" % (cyc, name))
                continue
            if not must:
                if retarget and not cur_valid and unchecked:
                    feats.add("unchecked-evaluated-on-retarget-to-invalid")
                elif stage in ("inner", "innerref") and cyc == 0 and unchecked:
                    feats.add("F2-sampled-start")
                else:
                    why = ("only fields of unselected targets ticked" if ticked else
                           "the unchanged reference was re-published" if sel_ticks else "nothing ticked")
                    if retarget:
                        why = "the reference was retargeted to a target without a valid field"
                    bad.append("[spurious] cycle %d: %s was evaluated although %s" % (cyc, name, why))
            exp_x = ",".join(str(vals[(sel, f)]) if f in cur_valid else "_" for f in range(nf))
            if sn["x"] != exp_x:
                bad.append("[value] cycle %d: %s reads fields %s, the selected target holds %s" % (cyc, name, sn["x"], exp_x))
                continue
            if sn["v"] != ("1" if cur_valid else "0"):
                bad.append("[valid] cycle %d: %s reads valid=%s, the selected target has %s valid field" %
                           (cyc, name, sn["v"], "a" if cur_valid else "no"))
            for f in cur_valid:
                if (sn["fm"][f] == "1") != (f in exp_mod):
                    bad.append("[modified] cycle %d: %s sees field %s modified=%s in a %s cycle" %
                               (cyc, name, FIELDS[f], sn["fm"][f], "retarget" if retarget else "tick"))
            if must and sn["m"] != "1":
                bad.append("[modified] cycle %d: %s sees the bundle modified=0" % (cyc, name))
        rs = parse_fields(head.get("rs", "-"))
        exp_rs = {f: vals[(sel, f)] for f in exp_mod}
        if rs != exp_rs:
            bad.append("[record] cycle %d: record through the reference stored %s, expected %s" %
                       (cyc, head.get("rs"), ",".join("%s:%d" % (FIELDS[f], v) for f, v in sorted(exp_rs.items())) or "-"))
        if chained and not wired and head.get("n") != str(published):
            bad.append("[publish-count] cycle %d: %s nodes of the tree published a reference, %d changed what they "
                       "designate" % (cyc, head.get("n"), published))
        cyc += 1
    return bad, feats


def walk(stream, case, out):
    """-> (violations, features)"""
    for ln in case.lines[:3]:
        w = ln.split()
        if len(w) > 1 and w[0] == "cfg" and w[1] in STRUCT:
            return walk_struct(stream, case, out)
    strict = stream == "strict-delta"
    bad, feats = [], set()
    shape, ncons, stage, cmp = "ts", 1, "direct", False
    group = None
    tree, chained = FLAT[False], False
    tg, sel, cyc, ever_sel = [Ref(), Ref()], None, 0, set()
    conds, desig = {}, [None] * len(tree.nodes)
    out = list(out) + ["<none>"] * (len(case.lines) - len(out))

    def reset():
        nonlocal tg, sel, cyc, ever_sel, conds, desig
        tg, sel, cyc, ever_sel = [Ref() for _ in range(tree.ntargets)], None, 0, set()
        conds, desig = {}, [None] * len(tree.nodes)

    for ln, o in zip(case.lines, out):
        w = ln.split()
        if not w:
            reset()
            continue
        if o.startswith("<") or o.startswith("err:"):
            bad.append("[driver] %r answered %r" % (ln, o))
            continue
        if w[0] == "case":
            shape, ncons, stage, cmp = "ts", 1, "direct", False
            group = None
            tree, chained = FLAT[False], False
            reset()
            continue
        if w[0] == "cfg":
            if o == "ok":
                shape, ncons, stage = SIB.get(w[1], w[1]), int(w[2]), w[3]
                group = SIB_GROUP.get(w[1])
                cmp = len(w) > 4 and w[4] == "cmp"
                chained = len(w) > 4 and w[4].startswith("tree:")
                tree = tree_of(w[4][5:]) if chained else FLAT[cmp]
                feats.update(["shape=" + w[1], "consumers=%d" % ncons, "stage=" + stage])
                if chained:
                    kinds = "".join(sorted({n.kind for n in tree.nodes} - {"l"}))
                    feats.update(["selector=tree", "tree-depth=%d" % tree.depth(), "tree-nodes=" + kinds,
                                  "tree-selectors=%d" % tree.nsel])
                    if len({n.target for n in tree.nodes if n.kind == "l"}) < sum(1 for n in tree.nodes if n.kind == "l"):
                        feats.add("tree-shares-a-target")
                else:
                    feats.add("selector=" + ("if_cmp" if cmp else "if_then_else"))
            reset()
            continue
        if w[0] != "c" or o == "bad-op":
            reset()
            continue
        # ---------------- one engine cycle
        parts = o.split(" | ")
        head = dict(tok.split("=", 1) for tok in parts[0].split())
        seen = [parse_seen(p) for p in parts[1:]]
        toks = dict(t.split("=", 1) for t in w[1:])
        letters = "abcd"[:tree.ntargets]
        before = [(t.valid, dict(t.items)) for t in tg]
        own = {}
        for i, l in enumerate(letters):
            r = head.get("r" + l, "-")
            if r != "-":
                own[i] = tg[i].apply(shape, r, cyc)
            if (l in toks) != (r != "-") and not (shape == "tsd" and l in toks):
                bad.append("[replay] cycle %d: target %s input %r but its recorder stored %r" % (cyc, l, toks.get(l), r))
        old = sel
        retarget = False
        # selector ticks of this cycle (flat: `sel=<letter>` is the root's selector)
        sel_ticks = {0: letters.index(toks["sel"])} if "sel" in toks else {}
        sel_ticks.update({int(k[1:]): int(v) for k, v in toks.items() if re.fullmatch(r"s\d", k)})
        old_path = tree.path(conds)
        conds.update(sel_ticks)
        old_desig = desig
        desig = tree.designate(conds, desig)
        published = sum(1 for i, n in enumerate(tree.nodes) if n.kind != "l" and desig[i] != old_desig[i])
        if sel_ticks:
            new = desig[0]
            retarget = new != sel
            if not retarget and new is not None:
                feats.add("reselect-same")
            sel = new
        if chained:
            resolved = tree.resolve(conds)
            if resolved is None and sel is not None:
                feats.add("stale-reference-kept")
            if retarget:
                if 0 not in sel_ticks:
                    feats.add("inner-retarget-root-silent")
                    if old is None:
                        feats.add("inner-first-publish-root-silent")
                elif len(sel_ticks) > 1:
                    feats.add("root-and-inner-selectors-tick-together")
            elif sel is not None and tree.path(conds) != old_path:
                feats.add("path-changes-target-unchanged")
            if sel_ticks and not retarget and any(k not in tree.path(conds) for k in sel_ticks) and published:
                feats.add("unselected-inner-retarget")
        cur = tg[sel] if sel is not None else None
        sel_ticked = sel in own
        new_valid = cur is not None and cur.valid
        late = []            # reported after what the consumers saw
        if head.get("r") != ("1" if retarget else "0"):
            late.append("[ref-tick] cycle %d: REF output ticked=%s but the selection %s" %
                        (cyc, head.get("r"), "changed" if retarget else "did not change (same reference must not tick)"))
        unselected = [i for i in own if i != sel]
        if unselected and sel is not None and not retarget:
            feats.add("unselected-tick" + ("-only" if not sel_ticked else ""))
            if group and any(group[i] == group[sel] for i in unselected):
                feats.add("sibling-of-the-selected-child-ticks")
        if group and retarget and old is not None and sel is not None:
            feats.add("retarget-between-siblings" if group[old] == group[sel] else "retarget-between-outputs")
            if group[old] == group[sel] and not sel_ticked and new_valid:
                feats.add("sibling-retarget-samples-earlier-value")
        if retarget:
            if not new_valid:
                feats.add("retarget-to-never-ticked")
            elif sel_ticked:
                feats.add("retarget-same-cycle-tick")
            else:
                feats.add("retarget-to-earlier-ticked")
            if sel in ever_sel:
                feats.add("retarget-back")
            if old is not None and old in own:
                feats.add("old-target-ticks-in-retarget-cycle")
            if old is None:
                feats.add("first-selection")
            ever_sel.add(sel)
        elif sel_ticked and cur is not None and cur.last_tick == cyc and not before[sel][0]:
            feats.add("first-tick-of-selected-target")
        must = (not retarget and sel_ticked) or (retarget and new_valid)
        # expected delta
        exp_added = exp_removed = exp_mod = None
        stale = set()
        if must and shape != "ts":
            new_keys = set(cur.items)
            if retarget:
                old_before = set(before[old][1]) if old is not None and before[old][0] else set()
                exp_added, exp_removed, exp_mod = new_keys - old_before, old_before - new_keys, new_keys
                if old is not None and old not in own and tg[old].last_tick is not None:
                    stale = tg[old].last_removed - new_keys - old_before
                if stale:
                    feats.add("pending-erase-slot-at-retarget")
                feats.add("keyed-retarget-sampled")
            else:
                _, plus, minus, kv = own[sel]
                exp_added, exp_removed, exp_mod = set(plus) | (set(kv) - set(before[sel][1])), set(minus), set(kv)
        for i, s in enumerate(seen[:ncons]):
            unchecked = i == 1
            name = "consumer %d" % i
            if s is None:
                if must:
                    bad.append("[not-evaluated] cycle %d: %s was not evaluated although %s" %
                               (cyc, name, "the reference was retargeted to a valid target" if retarget else "the selected target ticked"))
                continue
            if s.get("twice"):
                bad.append("[twice] cycle %d: %s evaluated twice" % (cyc, name))
                continue
            start_sample = stage in ("inner", "innerref") and cyc == 0 and unchecked
            if not must:
                if retarget and not new_valid and unchecked:
                    feats.add("unchecked-evaluated-on-retarget-to-invalid")
                elif start_sample:
                    feats.add("F2-sampled-start")
                else:
                    why = ("only unselected targets ticked" if unselected else
                           "the unchanged reference was re-published" if sel_ticks else "nothing ticked")
                    if retarget:
                        why = "the reference was retargeted to a target that is not valid"
                    bad.append("[spurious] cycle %d: %s was evaluated although %s" % (cyc, name, why))
            if s["v"] != ("1" if new_valid else "0"):
                bad.append("[valid] cycle %d: %s reads valid=%s, the selected target is %svalid" %
                           (cyc, name, s["v"], "" if new_valid else "not "))
                continue
            if new_valid and s["x"] != items_text(shape, cur.items):
                bad.append("[value] cycle %d: %s reads %s, the selected target holds %s" %
                           (cyc, name, s["x"], items_text(shape, cur.items)))
            if must and s["m"] != "1":
                bad.append("[modified] cycle %d: %s sees modified=0 in a %s cycle" %
                           (cyc, name, "retarget" if retarget else "tick"))
            if not must or not new_valid:
                continue
            if shape == "ts":
                if s["d"] != s["x"]:
                    bad.append("[delta] cycle %d: %s sees delta %s, value %s" % (cyc, name, s["d"], s["x"]))
                continue
            plus, minus, tilde, _, _ = parse_braced(s["k"])
            if plus != exp_added:
                bad.append("[added] cycle %d: %s sees added %s, expected %s" % (cyc, name, sorted(plus), sorted(exp_added)))
            if minus != exp_removed:
                extra = ""
                if exp_removed <= minus <= exp_removed | stale:
                    extra = " (the extra keys were removed by the old target in an earlier cycle: pending-erase slot)"
                bad.append("[removed] cycle %d: %s sees removed %s, old contents minus new contents is %s%s" %
                           (cyc, name, sorted(minus), sorted(exp_removed), extra))
            if shape == "tsd" and tilde != exp_mod:
                bad.append("[modified-keys] cycle %d: %s sees modified keys %s, expected %s" % (cyc, name, sorted(tilde), sorted(exp_mod)))
            exp_d = delta_text(shape, exp_added, exp_removed, {k: cur.items[k] for k in exp_mod})
            if s["d"] != exp_d:
                if retarget:
                    if strict:
                        bad.append("[C13-A] cycle %d: %s delta_value() is %s in a retarget cycle, the difference between old "
                                   "and new contents is %s" % (cyc, name, s["d"], exp_d))
                else:
                    bad.append("[delta] cycle %d: %s delta_value() is %s, the target's delta is %s" % (cyc, name, s["d"], exp_d))
        # the recorder reading through the reference
        rs = head.get("rs", "-")
        if must:
            if shape == "ts":
                exp_rs = str(cur.items[0])
            else:
                exp_rs = delta_text(shape, exp_added, exp_removed, {k: cur.items[k] for k in exp_mod})
            if rs != exp_rs:
                bad.append("[record] cycle %d: record through the reference stored %s, expected %s" % (cyc, rs, exp_rs))
        elif rs != "-":
            ok = False
            if retarget and not new_valid and shape != "ts":
                plus, minus, _, kv, _ = parse_braced(rs)
                ok = not plus and not kv     # a keyed unbind may reconcile the published keys: removals only
            if not ok:
                bad.append("[record] cycle %d: record through the reference stored %s in a cycle without a tick of the "
                           "selected target or a retarget to a valid target" % (cyc, rs))
        bad.extend(late)
        # inside the tree: a node's REF output ticks exactly when what it designates changes
        if chained and head.get("n") != str(published):
            bad.append("[publish-count] cycle %d: %s nodes of the tree published a reference, %d changed what they "
                       "designate" % (cyc, head.get("n"), published))
        cyc += 1
    return bad, feats


def monitor(stream, case, out):
    return walk(stream, case, out)[0][:4]


def features(stream, case, out):
    return sorted(walk(stream, case, out)[1])


def nontrivial(stream, case, out):
    f = walk(stream, case, out)[1]
    return bool(f & {"retarget-to-earlier-ticked", "unselected-tick", "unselected-tick-only", "reselect-same",
                     "retarget-back", "old-target-ticks-in-retarget-cycle", "inner-retarget-root-silent",
                     "path-changes-target-unchanged", "stale-reference-kept", "retarget-between-siblings",
                     "sibling-of-the-selected-child-ticks", "retarget-to-partly-valid-target", "first-tick-of-a-field-after-selection",
                     "unselected-field-tick", "unselected-field-tick-only", "retarget-samples-earlier-ticked-field"})
