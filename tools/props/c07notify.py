"""C07 (notification / failed-run reuse stream) - runs that register one-shot evaluation notifications
(EngineControlView::add_before/after_evaluation_notification), runs that FAIL (inside a notification, inside a node,
in the stop phase) and further runs on the same thread afterwards (fresh builder, the same builder again, a fresh thread):
every run must print the trace its recipe gives alone.

Meant to be merged into tools/props/c07.py the way c07.py merges c07gs.py:
    streams += nt.streams(...); monitor/features/nontrivial/valid_case dispatch on stream.startswith("notify-");
    LEAN_MODULES += nt.LEAN_MODULES; THEOREMS += nt.THEOREMS; CXX_TARGETS += nt.CXX_TARGETS;
    RULE/TRUSTED/ASSUMPTIONS appended."""
import os
from vlib import Case, Stream, BUILD, VERIF, model_cmd

ID = "C07NOTIFY"
LEAN_MODULES = ["HgVerif.Props.C07Notify"]
THEOREMS = [
    "HgVerif.Notify.run_trace_independent_of_earlier_runs",
    "HgVerif.Notify.run_trace_independent_of_earlier_runs_at",
    "HgVerif.Notify.runExec_thread_irrelevant",
    "HgVerif.Notify.failed_drain_leaves_nothing",
    "HgVerif.Notify.failed_batch_is_dropped",
    "HgVerif.Notify.batch_fires_in_order",
    "HgVerif.Notify.batch_throw_ends_batch",
    "HgVerif.Notify.drain_before_fifo",
    "HgVerif.Notify.drain_after_lifo",
    "HgVerif.Notify.reentrant_same_boundary",
    "HgVerif.Notify.drain_fuel_enough",
    "HgVerif.Notify.thread_buffer_leaks",
    "HgVerif.Notify.thread_buffer_fresh_thread_unaffected",
    "HgVerif.Notify.thread_buffer_harmless_without_throwing_notification",
]
CXX_TARGETS = ["hgv_notify"]
RULE = ("notify streams: sequences of 2-7 runs of the graph source -> noter -> sink in ONE driver process (each case on its own "
        "evaluation thread, so every reported input reproduces alone; process-wide state is shared by all cases), the noter registering "
        "one-shot before / after evaluation notifications (from its start hook, its evaluations, its stop hook, and re-entrantly "
        "from inside callbacks), mixing clean recipes, recipes whose notification throws (before / after kind; first / later "
        "cycle; in the stop phase; with re-entrant registrations made before the throw), node-evaluation failures, "
        "cleanup_on_error(false), a further executor from the SAME builder (`again`), runs on a fresh thread, later runs that do / "
        "do not register notifications; every case ends with a probing run that registers both kinds; every run's trace must "
        "equal the trace computed for its recipe alone; non-trivial = >=2 runs and a notification fires in a run after the "
        "first; distinct by case text")
TRUSTED = ["the harness callbacks (harness/drv_notify.cpp) are closures over an immutable recipe and a thread-local per-run log: "
           "they carry no state of their own from run to run"]
ASSUMPTIONS = ["notification ids < 32, re-entrant registrations only of larger ids (every drain terminates; the drivers reject "
               "anything else), tick times 1..40 before end_time, simulation mode, one root graph",
               "a builder is its recipe: that make_executor constructs fresh storage every time is what the `again` runs test, "
               "it is not proved"]

NOTIFY = [os.path.join(BUILD, "hgv_notify")]
MAX_ID = 31
MAX_TIME = 40


# ----------------------------------------------------------------------------- recipes

class Recipe:
    def __init__(self):
        self.base = 100
        self.nc = False
        self.start = []          # ["b3", "a1"]
        self.ticks = []          # [(time, ["b0", "x", ...])]
        self.stop = []
        self.defs = {}           # id -> ["b7", "!", ...]
        self.def_order = []

    def words(self):
        ws = []
        if self.base != 100:
            ws.append("v%d" % self.base)
        if self.nc:
            ws.append("nc")
        ws += self.start
        for t, acts in self.ticks:
            ws.append("t%d" % t)
            ws += acts
        if self.stop:
            ws.append("stop")
            ws += self.stop
        for i in self.def_order:
            ws.append("d%d=%s" % (i, ",".join(self.defs[i])))
        return ws

    def text(self):
        return " ".join(["run"] + self.words())


def _nat(s, maxlen):
    if not s or len(s) > maxlen or not s.isdigit() or not s.isascii():
        return None
    if len(s) > 1 and s[0] == "0":
        return None
    return int(s)


def _reg(w):
    if len(w) < 2 or w[0] not in "ba":
        return None
    v = _nat(w[1:], 3)
    if v is None or v > MAX_ID:
        return None
    return w[0] + str(v)


def parse_recipe(ws):
    """tokens after `run` -> Recipe or None (the same grammar as both drivers)"""
    r = Recipe()
    sect = 0                     # 0 start, 1 ticks, 2 stop, 3 defs
    seen_v = False
    for w in ws:
        if w == "nc":
            if sect != 0 or r.nc or r.start:
                return None
            r.nc = True
        elif w[0] == "v":
            v = _nat(w[1:], 6)
            if v is None or sect != 0 or seen_v or r.nc or r.start:
                return None
            seen_v, r.base = True, v
        elif w[0] == "t":
            t = _nat(w[1:], 6)
            if t is None or sect > 1 or t < 1 or t > MAX_TIME or (r.ticks and r.ticks[-1][0] >= t):
                return None
            sect = 1
            r.ticks.append((t, []))
        elif w == "stop":
            if sect >= 2:
                return None
            sect = 2
        elif w[0] == "d":
            parts = w.split("=")
            if len(parts) != 2:
                return None
            i = _nat(parts[0][1:], 6)
            if i is None or i > MAX_ID or i in r.defs:
                return None
            acts = []
            for item in parts[1].split(","):
                if item == "!":
                    acts.append("!")
                    continue
                c = _reg(item)
                if c is None or int(c[1:]) <= i:
                    return None
                acts.append(c)
            sect = 3
            r.defs[i] = acts
            r.def_order.append(i)
        else:
            if sect == 3:
                return None
            if w == "x":
                if sect != 1:
                    return None
                r.ticks[-1][1].append("x")
                continue
            c = _reg(w)
            if c is None:
                return None
            (r.start if sect == 0 else r.ticks[-1][1] if sect == 1 else r.stop).append(c)
    return r


# ----------------------------------------------------------------------------- reference semantics of ONE run (history-free)

class _Fail(Exception):
    def __init__(self, who):
        Exception.__init__(self, who)
        self.who = who


def reference(r):
    """-> (trace string, info dict): what run_storage / stop_storage / drain_evaluation_notifications do for the recipe
    in an executor and on a thread that nothing else has ever touched"""
    log = []
    qb, qa = [], []
    info = {"fired": 0, "swallowed": 0, "stop_fail": False, "registered": 0}

    def reg(c):
        info["registered"] += 1
        (qb if c[0] == "b" else qa).append(c)

    def acts(lst, who, mark):
        for a in lst:
            if a in ("!", "x"):
                log.append(mark)
                raise _Fail(who)
            reg(a)

    def fire(c):
        log.append(c)
        info["fired"] += 1
        acts(r.defs.get(int(c[1:]), []), "note:" + c, "!")

    def drain(q, before):
        while q:
            pending = list(q)        # pending.swap(queue): the batch is local, the queue is empty again
            del q[:]
            for c in (pending if before else reversed(pending)):
                fire(c)

    def stop_storage():
        first = None
        log.append("P")
        for c in r.stop:
            reg(c)
        for q, before in ((qa, False), (qb, True)):
            try:
                drain(q, before)
            except _Fail as e:
                if first is None:
                    first = e
                else:
                    info["swallowed"] += 1
        if first is not None:
            raise first

    cycles = [(t, a) for t, a in r.ticks]
    if not cycles or cycles[0][0] != 1:
        cycles.insert(0, (1, None))      # the source is scheduled on start
    try:
        log.append("S")
        for c in r.start:
            reg(c)
        try:
            for t, a in cycles:
                drain(qb, True)
                if a is not None:
                    try:
                        log.append("E%d" % t)
                        acts(a, "node:%d" % t, "X")
                        log.append("K%d=%d" % (t, r.base + t))
                    except _Fail:
                        try:
                            drain(qa, False)     # the drain_after unwind guard
                        except _Fail:
                            info["swallowed"] += 1
                        raise
                drain(qa, False)
        except _Fail:
            try:
                stop_storage()                   # unwind guard / destructor: failures swallowed
            except _Fail:
                info["swallowed"] += 1
            raise
        try:
            stop_storage()
        except _Fail:
            info["stop_fail"] = True
            raise
        result = "ok"
    except _Fail as e:
        result = "err:" + e.who
    info["pending"] = len(qb) + len(qa)
    info["result"] = result
    return " ".join(log + [result]), info


# ----------------------------------------------------------------------------- monitor

def walk(case, out):
    """-> (violations, features, nontrivial)"""
    bad, feats = [], set()
    builder = None
    runs = []                    # (line, recipe text, expected, got, on_thread, info)
    for ln, o in zip(case.lines[1:], out[1:]):
        ws = ln.split()
        if not ws:
            continue
        thread = ws[0] == "thread"
        if thread:
            ws = ws[1:]
        if ws and ws[0] == "run":
            r = parse_recipe(ws[1:])
            if r is None:
                if o != "bad-op":
                    bad.append("[proto] malformed recipe accepted: %r -> %s" % (ln, o[:80]))
                feats.add("bad-op")
                continue
            builder = r
            again = False
        elif ws == ["again"] and builder is not None:
            r, again = builder, True
        else:
            if o != "bad-op":
                bad.append("[proto] %r -> %s" % (ln, o[:80]))
            feats.add("bad-op")
            continue
        exp, info = reference(r)
        k = len(runs) + 1
        earlier = list(runs)
        runs.append((ln, " ".join(r.words()), exp, o, thread, info))
        # ---- features
        res = info["result"]
        feats.add("result:" + ("ok" if res == "ok" else res.split(":")[1] + ("-" + res.split(":")[2][0] if res.startswith("err:note") else "")))
        if again:
            feats.add("again")
        if thread:
            feats.add("fresh-thread")
        if r.nc:
            feats.add("cleanup_on_error=false")
        if info["stop_fail"]:
            feats.add("fails-in-stop-phase")
        if info["swallowed"]:
            feats.add("second-failure-swallowed")
        if info["pending"]:
            feats.add("registrations-pending-at-end")
        if r.start:
            feats.add("start-hook-registers")
        if r.stop:
            feats.add("stop-hook-registers")
        if any(a != "!" for d in r.defs.values() for a in d):
            feats.add("re-entrant-registration")
        if res.startswith("err:note"):
            first_t = r.ticks[0][0] if r.ticks else 1
            tail = exp.split(" ")
            last_e = [w for w in tail if w[0] == "E"]
            feats.add("note-fails-in-first-cycle" if (not last_e or last_e[-1] == "E%d" % first_t) and not info["stop_fail"]
                      else "note-fails-later")
        prev_same_thread = [e for e in earlier if not e[4]] if not thread else []
        if prev_same_thread:
            failed_note = any(e[5]["result"].startswith("err:note") for e in prev_same_thread)
            failed_node = any(e[5]["result"].startswith("err:node") for e in prev_same_thread)
            kind = "registers" if info["registered"] else "plain"
            if failed_note:
                feats.add("after-failed-notification-run:" + kind)
            if failed_node:
                feats.add("after-failed-node-run:" + kind)
            if not failed_note and not failed_node:
                feats.add("after-clean-runs:" + kind)
        if thread and any(e[5]["result"].startswith("err:note") for e in earlier if not e[4]):
            feats.add("fresh-thread-after-failed-run-on-main")
        # ---- the property: the trace of this run is the trace of its recipe alone
        if o != exp:
            hist = "; ".join("#%d %s -> %s" % (i + 1, e[0][:60], e[3].split(" ")[-1]) for i, e in enumerate(earlier)) or "none"
            own = set(r.start + r.stop + [a for _, acts in r.ticks for a in acts] + [a for d in r.defs.values() for a in d])
            toks = o.split(" ")
            foreign = [w for w in toks[:-1] if w[0] in "ba" and w not in own]
            if toks[-1].startswith("err:note:") and toks[-1][9:] not in own:
                foreign.append(toks[-1])
            if foreign:
                bad.append("[isolation] run #%d %r executed %s, which its recipe never registers: printed %s but the recipe alone "
                           "gives %s (earlier runs of the case: %s)" % (k, ln[:120], ",".join(foreign[:4]), o[:160], exp[:160], hist[:200]))
            else:
                bad.append("[reference] run #%d %r printed %s; the reference for this recipe alone gives %s (either the "
                           "notification semantics changed or something an earlier run left behind leaks in; earlier runs of the "
                           "case: %s)" % (k, ln[:120], o[:160], exp[:160], hist[:200]))
    # the same recipe twice in one process: byte-identical traces (needs no reference)
    seen = {}
    for i, e in enumerate(runs):
        j = seen.setdefault(e[1], i)
        if runs[j][3] != e[3]:
            bad.append("[isolation] the same recipe gave two different traces in one process: run #%d %r printed %s, run #%d printed %s "
                       "(alone: %s)" % (j + 1, runs[j][0][:120], runs[j][3][:160], i + 1, e[3][:160], e[2][:160]))
            break
    feats.add("runs=%d" % min(len(runs), 7))
    nontriv = len(runs) >= 2 and any(e[5]["fired"] for e in runs[1:])
    return bad, feats, nontriv


def monitor(stream, case, out):
    if any(o.startswith("<") for o in out):
        return ["[crash] the implementation driver died: %s" % [o for o in out if o.startswith("<")][0][:120]]
    if len(out) != len(case.lines):
        return ["[crash] %d output lines for %d input lines" % (len(out), len(case.lines))]
    bad = walk(case, out)[0]
    # cross-run evidence first: it decides the class the shrinker has to preserve
    return sorted(bad, key=lambda b: 0 if b.startswith("[isolation]") else 1)[:3]


def features(stream, case, out):
    return sorted(walk(case, out)[1])


def nontrivial(stream, case, out):
    return walk(case, out)[2]


def valid_case(stream, case, impl_out, model_out):
    """shrunk candidates must still be well-formed run sequences"""
    body = [l for l in case.lines[1:] if l.strip()]
    if not body:
        return False
    have = False
    for l in body:
        ws = l.split()
        if ws[0] == "thread":
            ws = ws[1:]
        if ws and ws[0] == "run":
            if parse_recipe(ws[1:]) is None:
                return False
            have = True
        elif ws == ["again"]:
            if not have:
                return False
        else:
            return False
    return True


# ----------------------------------------------------------------------------- generators

def _ids(rng, n, lo=0, hi=9):
    return [rng.randint(lo, hi) for _ in range(n)]


def _regs(rng, n, lo=0, hi=9, kinds="ba"):
    return ["%s%d" % (rng.choice(kinds), i) for i in _ids(rng, n, lo, hi)]


def gen_recipe(rng, flavour):
    """flavour: plain | clean | note-before | note-after | node | stopfail"""
    r = Recipe()
    if rng.random() < 0.5:
        r.base = rng.choice([0, 7, 200, 1000])
    r.nc = rng.random() < 0.15
    nt = rng.choice([1, 2, 2, 3, 3, 4])
    times = sorted(rng.sample(range(1, 10), nt))
    if rng.random() < 0.6:
        times[0] = 1
        times = sorted(set(times))
    r.ticks = [(t, []) for t in times]
    if flavour == "plain":
        return r
    # registrations from the evaluations
    for _, acts in r.ticks:
        acts += _regs(rng, rng.choice([0, 1, 1, 2, 3]), 0, 6)
    if not any(a for _, a in r.ticks):
        r.ticks[rng.randrange(len(r.ticks))][1].extend(_regs(rng, 2, 0, 6))
    if rng.random() < 0.25:
        r.start = _regs(rng, rng.choice([1, 2]), 0, 6)
    if rng.random() < 0.3:
        r.stop = _regs(rng, rng.choice([1, 2]), 0, 6)
    # re-entrant registrations (children have larger ids)
    used = sorted({int(a[1:]) for _, acts in r.ticks for a in acts} | {int(a[1:]) for a in r.start + r.stop})
    if rng.random() < 0.55:
        for i in rng.sample(used, min(len(used), rng.choice([1, 1, 2]))):
            kids = ["%s%d" % (rng.choice("ba"), rng.randint(i + 1, i + 4)) for _ in range(rng.choice([1, 1, 2]))]
            r.defs[i] = kids
            r.def_order.append(i)
            if rng.random() < 0.4:          # a second level
                j = int(kids[0][1:])
                if j not in r.defs:
                    r.defs[j] = ["%s%d" % (rng.choice("ba"), rng.randint(j + 1, j + 3))]
                    r.def_order.append(j)

    def make_throw(i):
        d = r.defs.get(i)
        if d is None:
            r.defs[i] = ["!"]
            r.def_order.append(i)
        else:
            d.insert(rng.randint(0, len(d)), "!")
    if flavour in ("note-before", "note-after"):
        kind = "b" if flavour == "note-before" else "a"
        i = rng.randint(0, 8)
        where = rng.random()
        later = [k for k in range(len(r.ticks)) if k > 0]
        if where < 0.45 or not later:
            k = 0
        else:
            k = rng.choice(later)
        if kind == "b" and k == len(r.ticks) - 1 and rng.random() < 0.6 and len(r.ticks) > 1:
            k -= 1                           # a before-notification of the last tick only fires in the stop phase
        acts = r.ticks[k][1]
        acts.insert(rng.randint(0, len(acts)), kind + str(i))
        if rng.random() < 0.2 and used:      # the thrower is registered from inside another callback
            p = min(used)
            if p < i and "!" not in r.defs.get(p, []):
                r.defs.setdefault(p, [])
                if p not in r.def_order:
                    r.def_order.append(p)
                r.defs[p].append(kind + str(i))
        make_throw(i)
    elif flavour == "stopfail":
        kind = rng.choice("ba")
        i = rng.randint(0, 8)
        r.stop.append(kind + str(i))
        make_throw(i)
    elif flavour == "node":
        k = rng.randrange(len(r.ticks))
        acts = r.ticks[k][1]
        acts.insert(rng.randint(0, len(acts)), "x")
    # keep the definitions well-formed (a thrower inserted into an existing def keeps its children's ids larger)
    r.def_order = [i for k, i in enumerate(r.def_order) if i in r.defs and i not in r.def_order[:k]]
    assert parse_recipe(r.words()) is not None, r.words()
    return r


def gen_probe(rng):
    """a clean run that registers both kinds at several boundaries: it picks up anything an earlier run left behind"""
    r = Recipe()
    r.base = rng.choice([100, 300])
    n = rng.choice([2, 3])
    r.ticks = [(t, [rng.choice(["b", "a"]) + str(rng.randint(0, 5)), "b%d" % rng.randint(0, 5), "a%d" % rng.randint(0, 5)])
               for t in range(1, n + 1)]
    if rng.random() < 0.3:
        r.defs[6] = ["a7"]
        r.def_order = [6]
        r.ticks[0][1].append(rng.choice("ba") + "6")
    return r


FLAVOURS = ["plain", "clean", "note-before", "note-after", "node", "stopfail"]


def gen_history(rng, i):
    L = ["case %d" % i]
    n = rng.randint(1, 4)                    # + the probe = 2..5 runs (+ `again`s)
    memo = []
    have_builder = False
    want_note_failure = rng.random() < 0.7
    flav = []
    for _ in range(n):
        flav.append(rng.choices(FLAVOURS, weights=[10, 30, 20, 20, 12, 8])[0])
    if want_note_failure and not any(f.startswith("note") or f == "stopfail" for f in flav):
        flav[rng.randrange(n)] = rng.choice(["note-before", "note-after"])
    for f in flav:
        pre = "thread " if rng.random() < 0.18 else ""
        x = rng.random()
        if have_builder and x < 0.12:
            L.append(pre + "again")
            continue
        if memo and x < 0.22:
            L.append(pre + rng.choice(memo))             # the same recipe from a fresh builder
        else:
            t = gen_recipe(rng, f).text()
            memo.append(t)
            L.append(pre + t)
        have_builder = True
        if rng.random() < 0.3:
            L.append(("thread " if rng.random() < 0.15 else "") + "again")
    if rng.random() < 0.25 and memo:
        L.append(rng.choice(memo))                       # an earlier recipe once more after the others
    L.append(gen_probe(rng).text())
    if rng.random() < 0.3:
        L.append("again")
    return Case(L, {})


DIRECTED = [
    # the scenarios of the s55 demonstration (seeded/s55/drv_demo.cpp)
    ("s55-S1 clean recipe, builder reused", ["run t1 b0 a1 t2 b0 a1 t3 a0", "again", "again"]),
    ("s55-S2 clean after a node failure", ["run t1 b0 a1 t2 x t3", "run t1 b0 a1 t2 b0 a1 t3 a0"]),
    ("s55-S3 plain after a before failure", ["run t1 b0 a1 t2 b0 b1 b2 a3 t3 t4 d1=!", "run t1 t2 t3"]),
    ("s55-S4 other thread", ["thread run t1 b0 a1 t2 b0 b1 b2 a3 t3 t4 d1=!", "thread run t1 b0 a1 t2 b0 a1 t3 a0"]),
    ("s55-S6 clean after a before failure", ["run t1 b0 a1 t2 b0 b1 b2 a3 t3 t4 d1=!", "run t1 b0 a1 t2 b0 a1 t3 a0", "again"]),
    ("s55-S7 clean after an after failure", ["run t1 a0 t2 a0 a1 a2 t3 t4 d1=!", "run t1 b0 a1 t2 b0 a1 t3 a0"]),
    ("s55-S8 the failing builder reused", ["run t1 b0 a1 t2 b0 b1 b2 a3 t3 t4 d1=!", "again"]),
    # tests/cpp/test_engine_control.cpp
    ("tec: boundaries", ["run v0 t1 a1 b1 t2 a2 b2", "again"]),
    ("tec: after LIFO re-entrant", ["run t1 a1 a2 d1=a3 d2=a4", "again"]),
    ("tec: before FIFO re-entrant", ["run t1 b1 b2 t2 d1=b3 d2=b4", "again"]),
    ("tec: stop-generated", ["run t1 stop a1 b2", "again"]),
    ("tec: failed evaluation drains after", ["run t1 a1 x", "run t1 a1 b2 t2 a3"]),
    # failures in the stop phase, swallowed second failures, registrations left pending
    ("stop-phase failure", ["run t1 b1 d1=!", "run t1 b0 a1 t2 b2 a3", "again"]),
    ("stop-phase both fail", ["run t1 stop a1 b2 d1=! d2=!", "run t1 b0 a1 t2 b2 a3"]),
    ("node failure then throwing after", ["run t1 a1 x d1=!", "run t1 b0 a1 t2 b2 a3"]),
    ("throw after re-registering", ["run t1 a1 t2 d1=a2,b3,!,a4 d2=a5", "run t1 b0 a1 t2 b2 a3", "again"]),
    ("pending at end", ["run t1 stop b1 d1=a2,b3 d3=a4", "run t1 b0 a1 t2 b2 a3"]),
    ("pending at end after failure", ["run t1 b1 t2 d1=a2,b3,!", "run t1 b0 a1 t2 b2 a3"]),
    ("nc failure", ["run nc t1 a1 t2 a2 d2=a3,! d3=b4", "run t1 b0 a1 t2 b2 a3", "again"]),
    ("start hook", ["run b0 a1 t3 b2 stop a3 b4 d4=a5 d0=!", "run b0 a1 t3 b2 stop a3 b4 d4=a5"]),
    ("no ticks", ["run", "run b1 a2", "run b1 a2 d2=!", "run b1 a2"]),
    ("thread mix", ["run t1 a1 d1=!", "thread run t1 a1 b2 t2 a3", "run t1 a1 b2 t2 a3", "thread again", "again"]),
    # malformed recipes: both drivers answer bad-op
    ("bad-ops", ["again", "run t1 b1 d1=b1", "run t1 b1 d2=b1", "run t2 t1", "run t41", "run x", "run t1 stop x", "run b32",
                 "run t1 b01", "run nc nc", "run b1 v3", "run t1 d1=", "run t1 d1=b2,", "run t1 d1=b2 b3", "run t1 d1=! d1=!",
                 "run stop stop", "run stop t1", "frob", "thread", "thread frob", "run v t1", "run t0", "run t1 b", "run t1 c3",
                 "run t1 a1", "thread again"]),
]


def directed(start):
    return [Case(["case %d" % (start + i)] + body, {"name": name}) for i, (name, body) in enumerate(DIRECTED)]


def exhaustive(start):
    """thorough tier: every ordered pair (and `again`) over a small vocabulary of recipes"""
    voc = ["t1 t2", "t1 b0 a1 t2 b2 a3", "t1 a1 t2 a2 d1=!", "t1 b1 t2 d1=!", "t1 a0 t2 a1 a2 d1=!", "t1 b0 b1 b2 t2 t3 d1=!",
           "t1 x", "t1 a1 x d1=!", "t1 b1 d1=!", "t1 stop a1 d1=!", "t1 a1 d1=a2,!", "nc t1 a1 d1=b2,!", "t1 b1 t2 d1=b2,a3 d2=!",
           "b1 t2 d1=!", "t2 a1 stop b2 d2=a3"]
    cases, n = [], start
    for r1 in voc:
        for r2 in voc:
            for mid in ([], ["again"], ["thread again"]):
                cases.append(Case(["case %d" % n, "run " + r1] + mid + ["run " + r2, "again", "run t1 b0 a1 b2 t2 a3 b4"], {}))
                n += 1
    return cases


def corpus():
    """corpus/C07/notify_*.txt: shrunk failing inputs of the seeded defect s55 and of the mutation tests"""
    cdir = os.path.join(VERIF, "corpus", "C07")
    out = []
    if os.path.isdir(cdir):
        for f in sorted(os.listdir(cdir)):
            if f.startswith("notify_") and f.endswith(".txt"):
                out.append(Case([l.rstrip("\n") for l in open(os.path.join(cdir, f)) if l.strip()], {}))
    return out


def streams(rng, tier, seed):
    n = 400 if tier == "quick" else 12000
    hist = [gen_history(rng, i) for i in range(n)]
    dire = corpus() + directed(100000)
    if tier != "quick":
        dire += exhaustive(200000)
    mc = model_cmd("C07Notify")
    return [Stream("notify-history", NOTIFY, mc, hist, timeout=600),
            Stream("notify-directed", NOTIFY, mc, dire, timeout=600)]
