"""Glue for the engine-level property plug-ins: monitor classification, features, alarm filter."""
import engine_common as ec

# deviation class -> owning properties
OWNERS = {
    # C03 co-owns "times": "... or a wake-up it asked for itself falls due" - a missing / extra cycle is a missing / extra run
    "times": {"C02", "C03"},
    "userrun": {"C03", "C04", "C08", "C09"}, "order": {"C01"}, "lifecycle": {"C14"},
    "error": {"C15"}, "nested": {"C09"}, "result": {"C01", "C02", "C03", "C14", "C15", "C09", "C08", "C04"},
    "pair": {"C09"},
}


def deviations(case, out):
    p = case.meta.get("prog") or ec.parse_prog(case.lines)
    tr = ec.trace_of(out)
    if tr.startswith("<") or "bad-op" in out:
        return [("result", "driver failed: %s" % tr[:120])], None
    dev, d = ec.den_check(p, tr)
    if dev:
        dev2, d2 = ec.den_check(p, tr, True)
        if not dev2 and d2.quirk_hits:
            dev = [("nested", "F2 sampled-start: a nested child's node with an explicit empty validity gate ran at child "
                    "start although its boundary source is unset; the inlined wiring does not run it (%s)" % dev[0][1][:160])]
            d = d2
    dev += ec.lifecycle_check(p, tr)
    # C09: declared sink pairs (nested vs inlined variant of one definition) must record equal streams
    for a, b in getattr(p, "pairs", []):
        sa = [e.split()[2:] for e in ec.parse_trace(tr) if e.startswith("T %s " % a)]
        sb = [e.split()[2:] for e in ec.parse_trace(tr) if e.startswith("T %s " % b)]
        if sa != sb and not any(c == "nested" for c, _ in dev):
            dev.append(("pair", "nested and inlined variants differ: sink %s %s vs sink %s %s" % (a, sa[:6], b, sb[:6])))
    return dev, d


def pairs_from_lines(lines):
    for l in lines:
        if l.startswith("#pair "):
            w = l.split()
            yield (w[1], w[2])


def monitor_for(pid):
    def monitor(stream, case, out):
        dev, _ = deviations(case, out)
        return ["[%s] %s" % (c, m) for c, m in dev if pid in OWNERS.get(c, set())][:3]
    return monitor


def features(stream, case, out):
    p = case.meta.get("prog") or ec.parse_prog(case.lines)
    f = set()
    kinds = [s.kind for s in p.root] + [s.kind for sub in p.subs.values() for s in sub[1]]
    for k in set(kinds):
        f.add("kind:" + k)
    tr = ec.Trace(ec.parse_trace(ec.trace_of(out)))
    f.add("cycles:%s" % ("0" if not tr.cycles else "1-5" if len(tr.cycles) <= 5 else "6-15" if len(tr.cycles) <= 15 else "16+"))
    f.add("result:" + tr.result().split("(")[0])
    if p.faults:
        for fl in p.faults.values():
            for x in fl:
                f.add("fault-phase:" + x[0])
    if any("~" in str(a) for s in p.root for a in s.args):
        f.add("passive-input")
    if not p.cleanup:
        f.add("cleanup-off")
    return sorted(f)


def nontrivial(stream, case, out):
    tr = ec.Trace(ec.parse_trace(ec.trace_of(out)))
    return len(tr.cycles) >= 2 and any(e[:2] in ec.USER_TAGS for c in tr.cycles for e in c["ev"])


def canon(trace_line):
    tr = ec.Trace(ec.parse_trace(trace_line))
    user = lambda evs: sorted(e for e in evs if e[:2] in ec.USER_TAGS + ("B ", "s ", "x "))
    return (user(tr.start_events), [(c["t"], user(c["ev"]), c["next"]) for c in tr.cycles], user(tr.tail), tr.result())


def alarm_filter(stream, case, impl_out, model_out):
    """Exact traces differ.  If they agree on every observable (cycle times, per-cycle user-code runs,
    sink ticks, errors, cache value, result) the difference is an evaluation-order difference among
    independent nodes: model-internal drift, not an alarm."""
    a, b = ec.trace_of(impl_out), ec.trace_of(model_out)
    if canon(a) == canon(b) and impl_out[:-1] == model_out[:-1]:
        return False, ["evaluation order among independent nodes differs (rank tie-break)"]
    return True, []


def valid_case(stream, case, impl_out, model_out):
    """shrink candidates must stay well-formed programs (the wiring accepts them on both sides)"""
    for o in (impl_out, model_out):
        if o is None:
            continue
        if any(("build-err" in l) or ("bad-op" in l) or l.startswith("<") for l in o):
            return False
    return any(l == "run" for l in case.lines)
