"""C19 - operator resolution picks the unique most specific match, independently of registration order.

The monitor decides the property on implementation traces alone, with two independent readings of "most
specific":
 * the implementation's own ranks (the wiring observer's WiringResolutionEvent of every candidate resolved on
   its own): the outcome must be the unique strict minimum of those / an ambiguity error on a shared minimum,
   the same in every registration order, with sound bindings and output = substitution;
 * the DOCUMENTED rank ([C19-docrank]): doc_rank() below re-computes, from the signature text alone, the rank
   that docs/source/developer_guide/operators.rst ("Ranking (specificity)") prescribes - structural cost plus,
   per variable, the minimum over its occurrences, with the documented budgets 10000 / 100 / 1 halved at each
   step down.  Among the matching candidates the selected one must have the strictly smallest documented rank;
   a shared smallest documented rank must give the ambiguity error.  It shares no code or data structure with
   the Lean model or with operator_dispatch.h, so a fault in the rank computation itself (weights, decay,
   de-duplication) yields a failing input instead of a mere model/implementation disagreement.
The rank-free instantiation order ([C19-spec], known finding C19-a) is a third reading, reported separately."""
import os, re
from vlib import Case, Stream, BUILD, model_cmd

ID = "C19"
LEAN_MODULES = ["HgVerif.Props.C19", "HgVerif.Props.C19Var", "HgVerif.Model.DispatchVar", "HgVerif.Model.TieC19", "HgVerif.Model.Extracted"]
USES_EXTRACT = True
THEOREMS = ["HgVerif.Tie.tie_rankLarge", "HgVerif.Tie.tie_rankScalarVar", "HgVerif.Tie.tie_rankCollectTsDefault", "HgVerif.Tie.tie_rankCollectScalarDefault", "HgVerif.Tie.tie_rankDecayDiv", "HgVerif.Tie.tie_rankDecayFloor", "HgVerif.Tie.tie_rankTslSizeVarBonus", "HgVerif.Tie.tie_rankTslAnySizeBonus", "HgVerif.Tie.tie_rankTswAnyWindowBonus",
    
    "HgVerif.Dispatch.resolve_perm_invariant",
    "HgVerif.Dispatch.P_C19_holds",
    "HgVerif.Dispatch.winner_unique_min",
    "HgVerif.Dispatch.resolve_noMatch_iff",
    "HgVerif.Dispatch.resolve_winner_iff",
    "HgVerif.Dispatch.resolve_ambiguous_iff",
    "HgVerif.Dispatch.resolve_total",
    "HgVerif.Dispatch.match_sound",
    "HgVerif.Dispatch.match_complete",
    "HgVerif.Dispatch.candidate_complete",
    "HgVerif.Dispatch.noMatch_no_candidate",
    "HgVerif.Dispatch.matchArgs_sound",
    "HgVerif.Dispatch.survivor_sound",
    "HgVerif.Dispatch.tsb_pattern_requires_same_fields",
    "HgVerif.Dispatch.inst_subst_deref",
    "HgVerif.Dispatch.inst_subst_exact",
    "HgVerif.Dispatch.inst_subst_exact_nameless",
    "HgVerif.Dispatch.var_bound_to_position_type",
    "HgVerif.Dispatch.repeated_var_same_type",
    "HgVerif.Dispatch.winner_var_one_type",
    "HgVerif.Dispatch.structural_rebinding_unsound",
    "HgVerif.Dispatch.schema_var_rebinding_is_structural",
    "HgVerif.Dispatch.match_complete_fails_for_inst",
    "HgVerif.Dispatch.inst_eq_instX_of_noSchemaVar",
    "HgVerif.Dispatch.instX_implies_inst",
    "HgVerif.Dispatch.output_is_substitution",
    "HgVerif.Dispatch.addVar_min",
    "HgVerif.Dispatch.rank_repeated_var_most_specific",
    "HgVerif.Dispatch.rank_ground_instance_le",
    "HgVerif.Dispatch.rank_ground_instance_strict",
    "HgVerif.Dispatch.rank_structure_instance_bound",
    "HgVerif.Dispatch.rank_structure_instance_le",
    "HgVerif.Dispatch.rank_structure_instance_strict",
    "HgVerif.Dispatch.rank_respects_instantiation_refuted",
    # variadic candidates (Model/DispatchVar.lean, Props/C19Var.lean)
    "HgVerif.Dispatch.resolveCallV_lift",
    "HgVerif.Dispatch.resolve_perm_invariant_var",
    "HgVerif.Dispatch.P_C19V_holds",
    "HgVerif.Dispatch.winner_unique_min_var",
    "HgVerif.Dispatch.resolveV_noMatch_iff",
    "HgVerif.Dispatch.resolveV_winner_iff",
    "HgVerif.Dispatch.resolveV_ambiguous_iff",
    "HgVerif.Dispatch.resolveV_total",
    "HgVerif.Dispatch.variadic_match_sound",
    "HgVerif.Dispatch.tail_bindings_do_not_leak",
    "HgVerif.Dispatch.variadic_survives_without_tail",
    "HgVerif.Dispatch.tail_only_variable_unbound",
    "HgVerif.Dispatch.variadic_rank_formula",
    "HgVerif.Dispatch.tailRank_eq_param_rank",
    "HgVerif.Dispatch.operatorRank_append_le",
    "HgVerif.Dispatch.fixed_arity_beats_variadic_at_equal_specificity",
    "HgVerif.Dispatch.variadic_never_beats_its_fixed_expansion",
    "HgVerif.Dispatch.tsPatternRank_tail_prefers_less_specific",
    "HgVerif.Dispatch.variadic_shared_variable_charged_per_tail_argument",
]
CXX_TARGETS = ["hgv_dispatch"]
RULE = ("synthetic overload families (1-6 overloads, arity 1-3) obtained by generalising a concrete argument tuple "
        "(concrete leaf, structural copy, scalar / whole-TS / size / schema variables from a small shared pool so that "
        "variables repeat across positions, constraints, REF and SIGNAL parameters, scalar parameters with coercion, "
        "kwargs collectors), often together with the concrete specialisation of one of them, plus decoys and 14 hand-written "
        "rank-critical templates (decay, de-dup, ties, coercion, REF, one variable at several nesting depths); 150 (thorough: "
        "3000) directed families in which ONE variable is repeated at >= 2 different documented budgets (bare ~T / REF[~T] "
        "10000, inside TSL / TSD / TSB 5000, two levels down 2500, TS / TSS / TSD-key payload 100, constrained payload 50, "
        "scalar parameter 1) competing with 2-4 candidates over independent variables / structure, at least one of them with "
        "a documented rank between the repeated candidate's per-variable-minimum rank and its per-variable-maximum rank, "
        "registered all together in both directions and pairwise in both orders; 150 (thorough: 3000) bundle families: a "
        "field-listing TSB pattern of 1-3 fields (fully concrete fields, one shared variable, independent variables, scalar "
        "variables, mixed) at top level or under TSL / TSD / TSB / REF / TSL-of-TSB / TSD-of-TSL, alone, with the exact "
        "(k+1)-field pattern, with a ~X fallback (bare or nested), or with both, called with the bundle of exactly those "
        "fields and with bundles carrying one or two MORE fields behind them, fewer fields, the same fields in another order, "
        "a re-named field, a leading extra field, a re-typed field (6 tuples, REF-wrapped at random); on a third stream "
        "(model + monitor: bundles are nominal in the model, a bundle type = optional name + field list) 80 (thorough: 1500) "
        "such families over NAMED bundles / named patterns (same name, another name for the same "
        "fields, no name, and the pattern's own name registered for the wider field list), and 200 (thorough: 4600) families "
        "with a whole-time-series variable REPEATED at 2-3 positions - f(~T,~T), f(TSD[~K,~V],~V), f(TSL[~T,~N],TSL[~T,~N]), "
        "TSL+bare, REF+bare, REF+REF, bundle-field+bare, TSD-of-TSL+TSL, TSD+TSD, f(~T,~T,~T), both positions inside one "
        "parameter TSB[l:~T,r:~T]; either parameter order; plain, with constraints on all / one occurrence, and (30 / 600 "
        "directed cases, finding C19-schemavar) as a TSB[~S] schema variable or ~S used both ways - together with the "
        "fallback f(~X,~Y) (bare or of the same shape) or WITHOUT fallback, sometimes a decoy (concrete leaf, named or "
        "un-named field-listing pattern), called with (A,A), (A,B), (B,A) [B: same fields, other name], (A,U), (U,A) [U: same "
        "fields, no name], (A,A'), (A',A) [A': another field type / name / count / order] and two more pairs, 20% with the "
        "difference one level down inside an un-named outer bundle, REF-wrapped at random, under ALL registration orders; "
        "<= 5 argument tuples per family elsewhere (the seed tuple and REF-wrapped / mutated "
        "variants); each family registered under 3-6 registration orders. A case is non-trivial when some call has "
        ">= 2 matching candidates (a critical pair: the rank decides) ; distinct by sha1 of the case text. "
        "Stream 'variadic' (model + monitor): 300 (thorough: 6000 + 600 under ALL registration orders) families that mix "
        "fixed-arity and VARIADIC candidates - V = f(fixed.., *tail) with 0-2 fixed parameters (22% sharing a variable with "
        "the tail) and a tail drawn 68% from 24 NESTED generic patterns (*TSL[~E,~N], *TSL[~E,2|0], *TSD[~K,~V], "
        "*TSD[~K,TS[~K]], *TSB[a:~U,b:~W], *TSB[a:~U,b:~U], *TSB[~R], two levels, REF, constrained variables, TSW any-window) "
        "and 32% from flat ones (*~S, *TS[~T], *TS[int], *=TS[int], *REF[~S], *TSS[~T], *SIGNAL), against 2-5 competitors "
        "whose rank lies close: a bare variable per position, V's fixed part + a bare variable per tail position, the exact "
        "fixed-arity expansion of V for one of the called tail lengths (shared / renamed-apart variables), per-position "
        "generalisations and concrete leaves of the seed arguments, and other variadic candidates (more generic tail *~Z, "
        "concrete tail, a generalisation, the SAME tail = a tie, bare fixed part, one more fixed parameter); 3-5 calls with "
        "0..4 tail arguments (homogeneous, heterogeneous, REF-wrapped, one argument of another kind, a plain value, a fixed "
        "argument of another kind, too few arguments) under 3-6 registration orders; plus 40 (thorough: 800) promotion "
        "families: plain VALUES in a flat tail against candidates taking them as true scalar parameters (scalar variables, "
        "concrete scalars, numeric coercion)")
TRUSTED = [
    "variadic candidates: drv_dispatch.cpp builds the OperatorImpl by hand (variadic = true, positional_params = number of "
    "fixed parameters, rank = operator_rank(params, /*skip tail*/ true)) - the three assignments make_operator_graph_impl "
    "makes (operator_dispatch.h l.1602-1623); that function itself (a template over a graph type) is not executed",
    "tools/props/c19.py promote(): a plain value in a variadic tail is read as the code reads it "
    "(scalar_value_matches_ts_pattern: SIGNAL only takes a bool, a variable bound to SIGNAL takes a bool, a concrete REF "
    "leaf takes nothing); the documented variadic rank (operators.rst l.753-754, l.782-791: rank of the fixed parameters + "
    "one rank of the tail pattern per supplied tail argument + one point) and the promotion point "
    "(python_integration.rst l.427-429) are transcribed by hand; a variable shared by the fixed part and the tail is "
    "bracketed between 'charged once' and 'charged per part'",
    "std::unordered_map / std::stable_sort / TypeRegistry interning modelled as association lists, a stable insertion "
    "sort and equality of schema terms (a bundle term carries its optional name: pointer identity of interned schemas = "
    "equality of terms incl. the name; time_series_schema_equivalent = the name-blind comparison `equiv`)",
    "tools/props/c19.py re-implements pattern matching in Python for the monitor (a third, independent reading of "
    "type_pattern.cpp)",
    "tools/props/c19.py doc_rank: the documented rank formula (docs/source/developer_guide/operators.rst l.327-395 and "
    "l.753) transcribed by hand; TSB[~S] is read as '1 + var_rank/2' by analogy with the documented scalar bundle with "
    "a schema variable; undocumented call-dependent adjustments (numeric coercion into a concrete scalar parameter, the "
    "pack pattern of an annotated **kwargs collector) are bracketed, and [C19-docrank] only demands what holds for "
    "every value inside the bracket",
]
ASSUMPTIONS = [
    "outside the model (not generated, not covered by the theorems): requires_ predicates and default resolvers, "
    "parameter defaults, PACKED variadic tails (from_variadic_tail, variadic_pack_fixed_input_penalty), keyword-only "
    "parameters behind a tail, a variadic candidate without any parameter or with a scalar tail parameter (both drivers "
    "answer 'bad-op'), keyword arguments and **kwargs packing (a declared collector only contributes "
    "its rank penalty; no call supplies a keyword), scalar->const promotion of a plain value into a FIXED time-series "
    "parameter (both drivers answer 'unsupported'; a plain value in a variadic TAIL is modelled), the registry's bundle NAME SPACE (one name, one field list: "
    "TypeRegistry::tsb throws on a conflicting re-declaration - the generator derives every bundle name from its field "
    "list, named bundles never occur in OUTPUT patterns, and no named bundle has a REF field, so neither the conflict nor "
    "the '<name>_deref' renaming of TypeRegistry::dereference is reachable) and bundle inheritance (input_adaptation_rank is 0), "
    "scalar container patterns (tuple/set/map/series/frame/array/bundle), duration windows, the OUTPUT-direction "
    "matcher (expected_output), size hints, initial resolutions, Python-sourced candidates",
    "scalars are the atoms bool/int/float/str; the three numeric atoms coerce into one another "
    "(coerce_scalar_value_to_meta), str does not",
    "rank constants are written in lean/HgVerif/Model/Dispatch.lean (LARGE_RANK, SCALAR_VAR_RANK, ...) with the source "
    "line they mirror; a change of a constant shows up as a numeric difference and only alarms when it changes the "
    "relative order of two candidates in some generated call",
]
TECHNIQUE = ("Lean 4 proof (resolveCall characterised as 'unique strict minimum of the survivors' and shown invariant "
             "under permutation; soundness of the matcher by mutual structural induction; rank accumulator reduced to a "
             "per-key minimum) with differential correspondence against the real OperatorRegistry")
LEVEL_TEXT = ("Kernel-checked theorems over ALL overload lists, argument tuples and registration orders of the modelled "
              "pattern language: permutation invariance of resolve, winner = unique strict rank minimum / no survivor = "
              "no-match / shared minimum = ambiguous, soundness of matching (one binding map satisfies every parameter "
              "position; a whole-time-series variable is bound to EXACTLY the type at each of its positions, so a repeated "
              "variable forces the same type - for bundles the same name and the same fields - at all its positions, and an "
              "output ~T is that type: repeated_var_same_type / winner_var_one_type; substitution agrees with the supplied "
              "type up to REF transparency and bundle names of un-named / concrete-leaf patterns), output = substitution of "
              "the winner's bindings, and the ground-instance half of 'more specific ranks lower'. A variant matcher with "
              "a structural comparison on re-binding is shown NOT to have the one-type property (kernel-checked witness "
              "f(~T,~T) on (TSB<A>[x,y], TSB<B>[x,y])); for the code's TSB[~S] schema variable only 'same field list' holds "
              "(schema_var_rebinding_is_structural, reported as [C19-schemavar] once listed). The unrestricted "
              "rank-respects-instantiation statement is REFUTED for the code's rank (kept visible)."
              " VARIADIC candidates (Model/DispatchVar.lean wraps the model, Props/C19Var.lean): permutation invariance and "
              "unique strict minimum for families mixing fixed-arity and variadic candidates, soundness of the fixed part "
              "(one map) and of EACH tail argument separately (an instance of the tail pattern under some extension of the "
              "fixed bindings), tail bindings do not leak (the survivor's map and output are those of the fixed arguments "
              "alone), the rank formula (base rank without the tail + tailRank * #tail + 1 + adjustments), exact fixed arity "
              "strictly beats the variadic candidate of the same specificity on every call both accept, and a kernel-checked "
              "counter-witness that ranking the tail with ts_pattern_rank makes *TSL[~E,~N] lose against a bare ~S."
              ' Every implementation answer is additionally checked against the documented specificity order (docrank oracle) and bundle families (named / un-named TSB patterns with extra, missing and reordered fields) and output patterns whose size variable no parameter binds (the candidate must be rejected) are part of the generator.')
LEVEL_NOTE = ("Trusted: Lean kernel; axioms propext/Classical.choice/Quot.sound; the hand-written model of "
              "type_pattern.cpp / operator_dispatch.{h,cpp}; the correspondence harness (hgv_dispatch registers the "
              "families in the real OperatorRegistry and calls the real resolve). requires_ predicates, kwargs packs, "
              "defaults, promotion and Python candidates are outside the model.")

SCALARS = ["bool", "int", "float", "str"]
NUMERIC = {"bool", "int", "float"}

# ------------------------------------------------------------------------------------------------
# terms.  concrete: ('TS',s) ('TSS',s) ('TSL',e,n) ('TSD',k,v) ('TSW',s,p,m) ('TSB',((f,t),..)) ('REF',t) ('SIGNAL',)
# scalar patterns: ('sconc',s) ('svar',name,(cs..))
# patterns: ('var',name,(cts..)) ('conc',ct) ('TS',sp) ('TSS',sp) ('TSL',tp,size) ('TSD',sp,tp) ('TSW',sp,(p,m)|None)
#           ('TSB',((f,tp),..)) ('TSBvar',name) ('REF',tp) ('SIGNAL',) ; size: ('fixed',n) ('szvar',name,(ns..))
# a NAMED bundle (written TSB<name>[..]; only on the monitor-only stream "named-bundles") carries its name as a third
# component, both as a concrete schema and as a pattern: ('TSB',fields,name)
# ------------------------------------------------------------------------------------------------

class Bad(Exception):
    pass


def mk_ref(t):
    """TypeRegistry::ref: REF[REF[X]] is REF[X]"""
    return t if t[0] == "REF" else ("REF", t)


class Cur:
    def __init__(self, s):
        self.s, self.i = s, 0

    def eat(self, w):
        if self.s.startswith(w, self.i):
            self.i += len(w)
            return True
        return False

    def expect(self, w):
        if not self.eat(w):
            raise Bad("expected %r at %d in %s" % (w, self.i, self.s))

    def ident(self):
        m = re.compile(r"[A-Za-z0-9_]+").match(self.s, self.i)
        if not m:
            raise Bad("ident in " + self.s)
        self.i = m.end()
        return m.group(0)

    def number(self):
        m = re.compile(r"[0-9]+").match(self.s, self.i)
        if not m:
            raise Bad("number in " + self.s)
        self.i = m.end()
        return int(m.group(0))

    def done(self):
        return self.i >= len(self.s)


def _scalar(c):
    s = c.ident()
    if s not in SCALARS:
        raise Bad("scalar " + s)
    return s


def _ct(c):
    if c.eat("SIGNAL"):
        return ("SIGNAL",)
    if c.eat("TSS["):
        s = _scalar(c); c.expect("]"); return ("TSS", s)
    if c.eat("TSL["):
        e = _ct(c); c.expect(","); n = c.number(); c.expect("]"); return ("TSL", e, n)
    if c.eat("TSD["):
        k = _scalar(c); c.expect(","); v = _ct(c); c.expect("]"); return ("TSD", k, v)
    if c.eat("TSW["):
        s = _scalar(c); c.expect(","); p = c.number(); c.expect(","); m = c.number(); c.expect("]")
        return ("TSW", s, p, m)
    if c.eat("TSB<") or c.eat("TSB["):
        name = None
        if c.s[c.i - 1] == "<":
            name = c.ident(); c.expect(">"); c.expect("[")
        fs = []
        while True:
            f = c.ident(); c.expect(":"); fs.append((f, _ct(c)))
            if not c.eat(","):
                break
        c.expect("]")
        return ("TSB", tuple(fs)) if name is None else ("TSB", tuple(fs), name)
    if c.eat("REF["):
        t = _ct(c); c.expect("]"); return mk_ref(t)
    if c.eat("TS["):
        s = _scalar(c); c.expect("]"); return ("TS", s)
    raise Bad("concrete type " + c.s)


def _sp(c):
    if c.eat("~"):
        n = c.ident()
        cs = []
        if c.eat("<"):
            while True:
                cs.append(_scalar(c))
                if not c.eat("|"):
                    break
            c.expect(">")
        return ("svar", n, tuple(cs))
    return ("sconc", _scalar(c))


def _tp(c):
    if c.eat("~"):
        n = c.ident()
        cs = []
        if c.eat("<"):
            while True:
                cs.append(_ct(c))
                if not c.eat("|"):
                    break
            c.expect(">")
        return ("var", n, tuple(cs))
    if c.eat("="):
        return ("conc", _ct(c))
    if c.eat("SIGNAL"):
        return ("SIGNAL",)
    if c.eat("TSS["):
        s = _sp(c); c.expect("]"); return ("TSS", s)
    if c.eat("TSL["):
        e = _tp(c); c.expect(",")
        if c.eat("~"):
            n = c.ident()
            cs = []
            if c.eat("<"):
                while True:
                    cs.append(c.number())
                    if not c.eat("|"):
                        break
                c.expect(">")
            c.expect("]")
            return ("TSL", e, ("szvar", n, tuple(cs)))
        n = c.number(); c.expect("]")
        return ("TSL", e, ("fixed", n))
    if c.eat("TSD["):
        k = _sp(c); c.expect(","); v = _tp(c); c.expect("]"); return ("TSD", k, v)
    if c.eat("TSW["):
        s = _sp(c); c.expect(",")
        if c.eat("*"):
            c.expect("]"); return ("TSW", s, None)
        p = c.number(); c.expect(","); m = c.number(); c.expect("]")
        return ("TSW", s, (p, m))
    if c.eat("TSB[~"):
        n = c.ident(); c.expect("]"); return ("TSBvar", n)
    if c.eat("TSB<") or c.eat("TSB["):
        name = None
        if c.s[c.i - 1] == "<":
            name = c.ident(); c.expect(">"); c.expect("[")
        fs = []
        while True:
            f = c.ident(); c.expect(":"); fs.append((f, _tp(c)))
            if not c.eat(","):
                break
        c.expect("]")
        return ("TSB", tuple(fs)) if name is None else ("TSB", tuple(fs), name)
    if c.eat("REF["):
        t = _tp(c); c.expect("]"); return ("REF", t)
    if c.eat("TS["):
        s = _sp(c); c.expect("]"); return ("TS", s)
    raise Bad("pattern " + c.s)


def _whole(fn, s):
    c = Cur(s)
    out = fn(c)
    if not c.done():
        raise Bad("trailing " + s)
    return out


def parse_ct(s): return _whole(_ct, s)
def parse_tp(s): return _whole(_tp, s)
def parse_sp(s): return _whole(_sp, s)


def show_ct(t):
    k = t[0]
    if k == "SIGNAL": return "SIGNAL"
    if k in ("TS", "TSS"): return "%s[%s]" % (k, t[1])
    if k == "TSL": return "TSL[%s,%d]" % (show_ct(t[1]), t[2])
    if k == "TSD": return "TSD[%s,%s]" % (t[1], show_ct(t[2]))
    if k == "TSW": return "TSW[%s,%d,%d]" % (t[1], t[2], t[3])
    if k == "TSB":
        return "TSB%s[%s]" % ("<%s>" % t[2] if len(t) == 3 else "", ",".join("%s:%s" % (f, show_ct(x)) for f, x in t[1]))
    if k == "REF": return "REF[%s]" % show_ct(t[1])
    raise Bad(str(t))


def show_sp(p):
    if p[0] == "sconc": return p[1]
    return "~" + p[1] + ("<%s>" % "|".join(p[2]) if p[2] else "")


def show_tp(p):
    k = p[0]
    if k == "var": return "~" + p[1] + ("<%s>" % "|".join(show_ct(c) for c in p[2]) if p[2] else "")
    if k == "conc": return "=" + show_ct(p[1])
    if k == "SIGNAL": return "SIGNAL"
    if k in ("TS", "TSS"): return "%s[%s]" % (k, show_sp(p[1]))
    if k == "TSL":
        z = p[2]
        zs = str(z[1]) if z[0] == "fixed" else "~" + z[1] + ("<%s>" % "|".join(map(str, z[2])) if z[2] else "")
        return "TSL[%s,%s]" % (show_tp(p[1]), zs)
    if k == "TSD": return "TSD[%s,%s]" % (show_sp(p[1]), show_tp(p[2]))
    if k == "TSW": return "TSW[%s,%s]" % (show_sp(p[1]), "*" if p[2] is None else "%d,%d" % p[2])
    if k == "TSB":
        return "TSB%s[%s]" % ("<%s>" % p[2] if len(p) == 3 else "", ",".join("%s:%s" % (f, show_tp(x)) for f, x in p[1]))
    if k == "TSBvar": return "TSB[~%s]" % p[1]
    if k == "REF": return "REF[%s]" % show_tp(p[1])
    raise Bad(str(p))


# ------------------------------------------------------------------------------------------------
# the specification of matching, as the monitor reads it (independent of the Lean model)
# ------------------------------------------------------------------------------------------------

def strip_refs(c):
    while c[0] == "REF":
        c = c[1]
    return c


def deref(c):
    k = c[0]
    if k == "REF": return deref(c[1])
    if k == "TSL": return ("TSL", deref(c[1]), c[2])
    if k == "TSD": return ("TSD", c[1], deref(c[2]))
    if k == "TSB": return ("TSB", tuple((f, deref(t)) for f, t in c[1])) + c[2:]
    return c


def sequiv(a, b):
    """time_series_schema_equivalent: the STRUCTURAL comparison (kind, scalars, sizes, field names, field types,
    recursively) - a bundle's NAME is not compared, so TSB<A>[x,y], TSB<B>[x,y] and TSB[x,y] are 'equivalent'"""
    if a[0] != b[0]:
        return False
    k = a[0]
    if k == "TSB":
        return len(a[1]) == len(b[1]) and all(f == g and sequiv(t, u) for (f, t), (g, u) in zip(a[1], b[1]))
    if k == "TSL": return a[2] == b[2] and sequiv(a[1], b[1])
    if k == "TSD": return a[1] == b[1] and sequiv(a[2], b[2])
    if k == "REF": return sequiv(a[1], b[1])
    return a == b


def _bind(b, key, val, allowed):
    if allowed and val not in allowed:
        return False
    if key in b:
        return b[key] == val
    b[key] = val
    return True


def _bind_ts(b, key, val, allowed):
    """a whole-time-series variable: the constraints admit what is EQUIVALENT to one of them (ts_allowed_by_constraints),
    but a variable that is already bound is bound to ONE type - identity of the schema, for a bundle name AND fields"""
    if allowed and not any(sequiv(k, val) for k in allowed):
        return False
    if key in b:
        return b[key] == val
    b[key] = val
    return True


def smatch(p, s, b):
    if p[0] == "sconc":
        return p[1] == s
    return _bind(b, ("sc", p[1]), s, p[2])


def pmatch(p, c, b, strict=False):
    """does the input pattern p accept a port of schema c, extending bindings b (dict, mutated).  strict: a re-used TSB[~S]
    schema variable must hold ONE type (identity) - the reading of the property; default: the unchanged code's reading"""
    k = p[0]
    if k == "SIGNAL":
        return True
    if k == "REF":
        return pmatch(p[1], c[1] if c[0] == "REF" else c, b, strict)
    c = strip_refs(c)
    if k == "var":
        return _bind_ts(b, ("ts", p[1]), c, p[2])
    if k == "conc":
        # a concrete leaf accepts what wiring accepts (input_accepts_output_schema): equivalent after dereferencing
        return p[1] == ("SIGNAL",) or sequiv(deref(p[1]), deref(c))
    if k in ("TS", "TSS"):
        return c[0] == k and smatch(p[1], c[1], b)
    if k == "TSL":
        if c[0] != "TSL":
            return False
        z = p[2]
        if z[0] == "fixed":
            if not (z[1] == 0 or z[1] == c[2]):
                return False
        elif not _bind(b, ("sz", z[1]), c[2], z[2]):
            return False
        return pmatch(p[1], c[1], b, strict)
    if k == "TSD":
        return c[0] == "TSD" and smatch(p[1], c[1], b) and pmatch(p[2], c[2], b, strict)
    if k == "TSW":
        return c[0] == "TSW" and smatch(p[1], c[1], b) and (p[2] is None or p[2] == (c[2], c[3]))
    if k == "TSBvar":
        # a re-used SCHEMA variable is compared structurally by the unchanged code (type_pattern.cpp l.283-287); the
        # strict reading (one type) is evaluated separately and reported as [C19-schemavar]
        if c[0] != "TSB":
            return False
        if ("ts", p[1]) in b:
            return b[("ts", p[1])] == c if strict else sequiv(b[("ts", p[1])], c)
        b[("ts", p[1])] = c
        return True
    if k == "TSB":
        # a field-listing bundle pattern: exactly the pattern's fields - same count, same names, same order - each
        # matching its child pattern; a NAMED pattern moreover only accepts the named bundle of that name (an un-named
        # pattern does not look at the name)
        if c[0] != "TSB" or len(c[1]) != len(p[1]):
            return False
        if len(p) == 3 and c[2:] != p[2:]:
            return False
        for (f, q), (g, d) in zip(p[1], c[1]):
            if f != g or not pmatch(q, d, b, strict):
                return False
        return True
    raise Bad(str(p))


def ssubst(p, b):
    return p[1] if p[0] == "sconc" else b.get(("sc", p[1]))


def psubst(p, b):
    k = p[0]
    if k in ("var", "TSBvar"): return b.get(("ts", p[1]))
    if k == "conc": return p[1]
    if k == "SIGNAL": return ("SIGNAL",)
    if k in ("TS", "TSS"):
        s = ssubst(p[1], b)
        return None if s is None else (k, s)
    if k == "TSL":
        e = psubst(p[1], b)
        n = p[2][1] if p[2][0] == "fixed" else b.get(("sz", p[2][1]))
        return None if e is None or n is None else ("TSL", e, n)
    if k == "TSD":
        s, v = ssubst(p[1], b), psubst(p[2], b)
        return None if s is None or v is None else ("TSD", s, v)
    if k == "TSW":
        s = ssubst(p[1], b)
        return None if s is None or p[2] is None else ("TSW", s, p[2][0], p[2][1])
    if k == "TSB":
        fs = [(f, psubst(q, b)) for f, q in p[1]]
        return None if any(t is None for _, t in fs) else ("TSB", tuple(fs)) + p[2:]
    if k == "REF":
        t = psubst(p[1], b)
        return None if t is None else mk_ref(t)
    raise Bad(str(p))


def pvars(p, acc):
    k = p[0]
    if k in ("var", "TSBvar"): acc.add(("ts", p[1]))
    elif k == "svar": acc.add(("sc", p[1]))
    elif k in ("TS", "TSS"): pvars(p[1], acc)
    elif k == "TSL":
        pvars(p[1], acc)
        if p[2][0] == "szvar": acc.add(("sz", p[2][1]))
    elif k == "TSD": pvars(p[1], acc); pvars(p[2], acc)
    elif k == "TSW": pvars(p[1], acc)
    elif k == "TSB":
        for _, q in p[1]: pvars(q, acc)
    elif k == "REF": pvars(p[1], acc)
    return acc


def is_variadic(ov):
    """the LAST parameter is the tail pattern (written *ts:<tp>, kind 'vts')"""
    return bool(ov[0]) and ov[0][-1][0] == "vts"


def fixed_params(ov):
    return ov[0][:-1] if is_variadic(ov) else ov[0]


def tail_pattern(ov):
    return ov[0][-1][1] if is_variadic(ov) else None


def split_call(ov, args):
    """(fixed parameters, their arguments, tail pattern | None, tail arguments), or None when the arity does not fit:
    a fixed-arity candidate takes exactly its parameters, a variadic one at least its fixed ones (the overflow is the tail)"""
    fx = fixed_params(ov)
    if is_variadic(ov):
        if len(args) < len(fx):
            return None
        return fx, args[:len(fx)], tail_pattern(ov), args[len(fx):]
    if len(fx) != len(args):
        return None
    return fx, args, None, []


def value_fits(c, v):
    """can a plain value of scalar type v stand for a port of schema c (current_value_schema_compatible on an atom):
    TS[v] - and a SIGNAL takes a bool"""
    return c == ("TS", v) or (c == ("SIGNAL",) and v == "bool")


def promote(p, v, b):
    """a plain VALUE of scalar type v in a variadic tail, promoted to a const source (scalar_value_matches_ts_pattern):
    REF[p] promotes into its target; a variable that is already bound must be bound to what the value can stand for, an
    unbound one binds TS[v]; a concrete leaf must be what the value can stand for; TS[sp] matches the scalar; SIGNAL
    takes a bool; a collection pattern never takes an atom"""
    k = p[0]
    if k == "REF":
        return promote(p[1], v, b)
    if k == "var":
        if ("ts", p[1]) in b:
            return value_fits(b[("ts", p[1])], v)
        return _bind_ts(b, ("ts", p[1]), ("TS", v), p[2])
    if k == "conc":
        return value_fits(p[1], v)
    if k == "TS":
        return smatch(p[1], v, b)
    if k == "SIGNAL":
        return v == "bool"
    return False


def tail_arg_matches(tail, arg, b, strict=False):
    """one tail argument against the tail pattern, in a COPY of the bindings of the fixed part (the copy is returned:
    what the argument binds on top never flows back)"""
    scope = dict(b)
    ak, a = arg
    ok = pmatch(tail, a, scope, strict) if ak == "ts" else promote(tail, a, scope)
    return ok, scope


def candidate_matches(ov, args, strict=False):
    """(matches?, bindings) of one overload against a positional argument tuple.  A variadic candidate: the fixed
    parameters bind as usual; EVERY tail argument must match the tail pattern on its own, under the bindings of the
    fixed part extended per argument (heterogeneous tails are fine); the output is produced from the bindings of the
    fixed part alone."""
    _params, out, _kw = ov
    sp = split_call(ov, args)
    if sp is None:
        return False, {}
    params, fargs, tail, targs = sp
    b = {}
    for (pk, pat), (ak, a) in zip(params, fargs):
        if pk == "ts":
            if ak != "ts" or not pmatch(pat, a, b, strict):
                return False, b
        else:
            if ak != "sc":
                return False, b
            if pat[0] == "sconc":
                if not (pat[1] == a or (pat[1] in NUMERIC and a in NUMERIC)):
                    return False, b
            elif not smatch(pat, a, b):
                return False, b
    for arg in targs:
        if not tail_arg_matches(tail, arg, b, strict)[0]:
            return False, b
    if out is not None and psubst(out, b) is None:
        return False, b
    return True, b


def rename_vars(p, ren):
    """rename the variables of a pattern: ren maps (sort, name) -> new name (others stay)"""
    k = p[0]
    if k in ("var", "TSBvar"): return (k, ren.get(("ts", p[1]), p[1])) + p[2:]
    if k == "svar": return ("svar", ren.get(("sc", p[1]), p[1]), p[2])
    if k in ("TS", "TSS"): return (k, rename_vars(p[1], ren))
    if k == "TSL":
        z = p[2]
        if z[0] == "szvar":
            z = ("szvar", ren.get(("sz", z[1]), z[1]), z[2])
        return ("TSL", rename_vars(p[1], ren), z)
    if k == "TSD": return ("TSD", rename_vars(p[1], ren), rename_vars(p[2], ren))
    if k == "TSW": return ("TSW", rename_vars(p[1], ren), p[2])
    if k == "TSB": return ("TSB", tuple((f, rename_vars(q, ren)) for f, q in p[1])) + p[2:]
    if k == "REF": return ("REF", rename_vars(p[1], ren))
    return p


def expand(ov, nargs):
    """the fixed-arity signature a candidate stands for in a call with nargs arguments (None: the arity does not fit).
    A variadic candidate with k tail arguments is its fixed parameters followed by k copies of the tail pattern in
    which every variable the fixed part does not mention is renamed apart per copy (each tail argument binds it on its
    own); variables the fixed part mentions stay shared."""
    if not is_variadic(ov):
        return ov if len(ov[0]) == nargs else None
    fx, tail = fixed_params(ov), tail_pattern(ov)
    if nargs < len(fx):
        return None
    shared = set()
    for _, q in fx:
        pvars(q, shared)
    own = pvars(tail, set()) - shared
    ps = list(fx)
    for i in range(nargs - len(fx)):
        ps.append(("ts", rename_vars(tail, {key: "%s.%d" % (key[1], i) for key in own})))
    return (ps, ov[1], ov[2])


def ground(p, b):
    """replace the bound variables of a pattern by concrete leaves / scalars / sizes"""
    k = p[0]
    if k in ("var", "TSBvar"):
        return ("conc", b[("ts", p[1])]) if ("ts", p[1]) in b else p
    if k == "svar":
        return ("sconc", b[("sc", p[1])]) if ("sc", p[1]) in b else p
    if k in ("TS", "TSS"): return (k, ground(p[1], b))
    if k == "TSL":
        z = p[2]
        if z[0] == "szvar" and ("sz", z[1]) in b:
            z = ("fixed", b[("sz", z[1])])
        return ("TSL", ground(p[1], b), z)
    if k == "TSD": return ("TSD", ground(p[1], b), ground(p[2], b))
    if k == "TSW": return ("TSW", ground(p[1], b), p[2])
    if k == "TSB": return ("TSB", tuple((f, ground(q, b)) for f, q in p[1])) + p[2:]
    if k == "REF": return ("REF", ground(p[1], b))
    return p


def _inst_of(bp, ap, sig, kept):
    """is pattern ap obtained from bp by replacing variables with concrete leaves?  sig: var -> replacement"""
    def put(key, val):
        if key in sig and sig[key] != val:
            return False
        sig[key] = val
        return True
    k = bp[0]
    if k in ("var", "TSBvar"):
        if ap == bp:
            kept.add(("ts", bp[1])); return True
        return ap[0] == "conc" and put(("ts", bp[1]), ap[1])
    if k == "svar":
        if ap == bp:
            kept.add(("sc", bp[1])); return True
        return ap[0] == "sconc" and put(("sc", bp[1]), ap[1])
    if ap[0] != k:
        return False
    if k in ("conc", "sconc", "SIGNAL"): return ap == bp
    if k in ("TS", "TSS", "REF"): return _inst_of(bp[1], ap[1], sig, kept)
    if k == "TSL":
        zb, za = bp[2], ap[2]
        if zb[0] == "szvar":
            if za == zb: kept.add(("sz", zb[1]))
            elif za[0] == "fixed":
                if not put(("sz", zb[1]), za[1]): return False
            else: return False
        elif za != zb:
            return False
        return _inst_of(bp[1], ap[1], sig, kept)
    if k == "TSD": return _inst_of(bp[1], ap[1], sig, kept) and _inst_of(bp[2], ap[2], sig, kept)
    if k == "TSW": return ap[2] == bp[2] and _inst_of(bp[1], ap[1], sig, kept)
    if k == "TSB":
        return ap[2:] == bp[2:] and len(ap[1]) == len(bp[1]) and \
            all(f == g and _inst_of(q, r, sig, kept) for (f, q), (g, r) in zip(bp[1], ap[1]))
    return False


def ground_instance(a_params, b_params):
    """None, or the set of variables replaced when a_params is b_params with variables made concrete"""
    if len(a_params) != len(b_params):
        return None
    sig, kept = {}, set()
    for (ka, pa), (kb, pb) in zip(a_params, b_params):
        if ka != kb or not _inst_of(pb, pa, sig, kept):
            return None
    if set(sig) & kept:
        return None
    return set(sig)


def _gen_of(bp, ap, sig):
    """does pattern bp generalise pattern ap: is ap obtained from bp by replacing bp's variables (consistently)
    with structure, concrete types or other variables?  ap's variables are opaque atoms.  sig: bp-variable -> ap-term"""
    def put(key, val):
        if key in sig:
            return sig[key] == val
        sig[key] = val
        return True
    k = bp[0]
    if k == "var":
        if bp[2]:           # a constrained variable only generalises one of its own constraints (or itself)
            if ap[0] == "conc":
                return strip_refs(ap[1]) in bp[2] and put(("ts", bp[1]), ap)
            return ap[0] == "var" and ap[2] and set(ap[2]) <= set(bp[2]) and put(("ts", bp[1]), ap)
        if ap[0] == "SIGNAL":
            return False    # SIGNAL accepts more than any variable binding can express
        return put(("ts", bp[1]), ap)
    if k == "TSBvar":
        ok = ap[0] in ("TSB", "TSBvar") or (ap[0] == "conc" and strip_refs(ap[1])[0] == "TSB")
        return ok and put(("ts", bp[1]), ap)
    if k == "svar":
        if ap[0] == "sconc":
            return (not bp[2] or ap[1] in bp[2]) and put(("sc", bp[1]), ap)
        return ap[0] == "svar" and (not bp[2] or (ap[2] and set(ap[2]) <= set(bp[2]))) and put(("sc", bp[1]), ap)
    if ap[0] != k:
        return False
    if k in ("conc", "sconc", "SIGNAL"): return ap == bp
    if k in ("TS", "TSS", "REF"): return _gen_of(bp[1], ap[1], sig)
    if k == "TSL":
        zb, za = bp[2], ap[2]
        if zb[0] == "szvar":
            if za[0] == "fixed":
                if za[1] == 0 or (zb[2] and za[1] not in zb[2]) or not put(("sz", zb[1]), za):
                    return False
            elif (zb[2] and not (za[2] and set(za[2]) <= set(zb[2]))) or not put(("sz", zb[1]), za):
                return False
        elif za != zb:
            return False
        return _gen_of(bp[1], ap[1], sig)
    if k == "TSD": return _gen_of(bp[1], ap[1], sig) and _gen_of(bp[2], ap[2], sig)
    if k == "TSW": return ap[2] == bp[2] and _gen_of(bp[1], ap[1], sig)
    if k == "TSB":
        return ap[2:] == bp[2:] and len(ap[1]) == len(bp[1]) and \
            all(f == g and _gen_of(q, r, sig) for (f, q), (g, r) in zip(bp[1], ap[1]))
    return False


def generalises(b_params, a_params):
    if len(a_params) != len(b_params):
        return False
    sig = {}
    return all(kb == ka and _gen_of(pb, pa, sig) for (kb, pb), (ka, pa) in zip(b_params, a_params))


def strictly_more_specific(a_ov, b_ov):
    """a's parameter patterns are a substitution instance of b's and not the other way round (rank-free)"""
    if a_ov[2] is not None or b_ov[2] is not None:      # **kwargs collectors are ranked by their pack, not compared here
        return False
    return generalises(b_ov[0], a_ov[0]) and not generalises(a_ov[0], b_ov[0])


def show_param(pk, p):
    return {"ts": "ts:", "vts": "*ts:", "sc": "sc:"}[pk] + (show_sp(p) if pk == "sc" else show_tp(p))


def show_params(params):
    return " ".join(show_param(pk, p) for pk, p in params) or "()"


# ------------------------------------------------------------------------------------------------
# the DOCUMENTED rank: an oracle for "most specific" that uses neither the Lean model's data structures nor
# anything the implementation reports.  Source: /repo/docs/source/developer_guide/operators.rst, section
# "Ranking (specificity)" (l.327-395):
#
#   l.330  Lower rank = more specific = preferred.
#   l.337  rank(Concrete scalar leaf) = 0            l.338  rank(Concrete TS | Signal) = 0
#   l.339  rank(TS(p)) = 1 + rank(p)                 l.340  rank(TSS(p)) = 1 + rank(p)
#   l.341  rank(TSL(p, N)) = 1 + rank(p)             l.342  rank(TSD(k, v)) = 1 + rank(k) + rank(v)
#   l.343  rank(TSW(p, period, min)) = 1 + rank(p)   l.344  rank(TSB(fields...)) = 1 + sum rank(field)
#   l.345  rank(REF(s)) = rank(s)                    l.346  rank(Var) = var_rank  (its CURRENT var_rank)
#   l.348  candidate rank = structural rank + per-variable min(rank)
#   l.355-357  var_rank starts at 10000 (a top-level Input parameter), 100 (the scalar payload of a TS / TSS / TSW /
#          TSD key), 1 (a standalone Scalar parameter)
#   l.359  at each step down, var_rank -> max(1, var_rank / 2)
#   l.359-361  a variable carrying constraints pays the halved rate
#   l.372  rank(bundle with a schema variable) = 1 + var_rank/2     (read here for TSB[~S] as well)
#   l.391-395  repeated generic variables are de-duplicated by name using their MINIMUM contribution
#   l.753  a kwargs collector costs one rank point, "like a variadic tail"
#   l.782-791  (Variadic operator parameters) a variadic candidate matches when args >= fixed-params; each tail argument is
#          matched against the declared pattern independently (a throwaway binding scope per argument: bindings made by the
#          fixed prefix constrain the match, tail arguments never bind type variables); "the variadic tail contributes rank
#          once per supplied tail argument, plus a small fixed penalty, so fixed-arity candidates are preferred over
#          variadic ones at equal specificity"
#          => documented call rank = rank(fixed parameters) + (#tail arguments) * rank(tail pattern) + 1
# and "Select" (l.316-318): the unique lowest-rank survivor wins, a tie at the lowest rank is an ambiguity error.
#
# Not documented (so this oracle only brackets them): what an ANNOTATED **kwargs pack adds on top of the one
# point of a collector, what a numeric coercion into a concrete scalar parameter costs, and whether a variable that
# the fixed part and the tail pattern share is charged once or per part (both readings bracket the rank).  A plain
# value promoted into a variadic tail "is less specific than a true scalar parameter"
# (docs/source/developer_guide/python_integration.rst l.427-429): read as one rank point per promoted value.  A size variable has no term in the documented formula.
# ------------------------------------------------------------------------------------------------
DOC_BUDGET_INPUT = 10000          # l.355
DOC_BUDGET_PAYLOAD = 100          # l.356
DOC_BUDGET_SCALAR_PARAM = 1       # l.357
DOC_KWARGS_POINT = 1              # l.753
DOC_VARIADIC_POINT = 1            # l.753-754 ("one rank point, like a variadic tail"), l.788-789
DOC_PROMOTION_POINT = 1           # python_integration.rst l.427-429
INF = float("inf")


def doc_step_down(v):
    return max(1, v // 2)         # l.359


def _doc_scalar(p, budget, occ):
    """structural points of a scalar pattern; every variable occurrence is appended to occ as (name, cost)"""
    if p[0] == "svar":
        occ.append((("scalar", p[1]), doc_step_down(budget) if p[2] else budget))
    return 0


def _doc_ts(p, budget, occ):
    """structural points of a time-series pattern read at the given variable budget"""
    k = p[0]
    if k == "var":
        occ.append((("ts", p[1]), doc_step_down(budget) if p[2] else budget))
        return 0
    if k in ("conc", "SIGNAL"):
        return 0
    if k in ("TS", "TSS", "TSW"):
        return 1 + _doc_scalar(p[1], DOC_BUDGET_PAYLOAD, occ)
    if k == "TSL":
        return 1 + _doc_ts(p[1], doc_step_down(budget), occ)
    if k == "TSD":
        return 1 + _doc_scalar(p[1], DOC_BUDGET_PAYLOAD, occ) + _doc_ts(p[2], doc_step_down(budget), occ)
    if k == "TSB":
        inner = doc_step_down(budget)
        return 1 + sum(_doc_ts(q, inner, occ) for _, q in p[1])
    if k == "TSBvar":
        occ.append((("ts", p[1]), doc_step_down(budget)))
        return 1
    if k == "REF":
        return _doc_ts(p[1], budget, occ)
    raise Bad(str(p))


def doc_occurrences(params):
    """(structural points, {variable: [cost of each occurrence, in signature order]})"""
    occ, structural = [], 0
    for pk, p in params:
        if pk in ("ts", "vts"):
            structural += _doc_ts(p, DOC_BUDGET_INPUT, occ)
        else:
            structural += _doc_scalar(p, DOC_BUDGET_SCALAR_PARAM, occ)
    by_var = {}
    for v, c in occ:
        by_var.setdefault(v, []).append(c)
    return structural, by_var


def doc_rank(params, combine=min):
    """the documented rank of a signature.  combine=max is NOT the contract: the generator uses it to find out
    which competitors sit in the gap a wrong de-duplication would open"""
    structural, by_var = doc_occurrences(params)
    return structural + sum(combine(cs) for cs in by_var.values())


def doc_rank_text(params):
    if params and params[-1][0] == "vts":
        return "%s for the fixed parameters + [%s] per tail argument + %d" % (
            doc_rank_text(params[:-1]), doc_rank_text([("ts", params[-1][1])]), DOC_VARIADIC_POINT)
    structural, by_var = doc_occurrences(params)
    parts = ["structural %d" % structural]
    for (kind, n), cs in sorted(by_var.items()):
        parts.append("~%s %s" % (n, cs[0] if len(cs) == 1 else "min(%s)" % ",".join(map(str, cs))))
    return "%d = %s" % (doc_rank(params), " + ".join(parts))


def doc_name_clash(params):
    """one name used both for a time-series and for a scalar variable: 'de-duplicated by name' can be read two ways"""
    _, by_var = doc_occurrences(params)
    names = [n for _, n in by_var]
    return len(names) != len(set(names))


def doc_call_rank(ov, args):
    """[lo, hi] bracket of the documented rank of a matching candidate in one call"""
    params, _out, kw = ov
    if is_variadic(ov):
        # rank(fixed parameters) + one rank(tail pattern) per supplied tail argument + one point
        fx, tail = fixed_params(ov), tail_pattern(ov)
        k = len(args) - len(fx)
        separate = doc_rank(fx) + k * doc_rank([("ts", tail)]) + DOC_VARIADIC_POINT
        # "de-duplicated by name": a variable shared by the fixed part and the tail, charged once overall
        # (tail arguments bind on their own: a variable of the tail alone is never shared between two tail arguments)
        joint = doc_rank(expand(ov, len(args))[0]) + DOC_VARIADIC_POINT
        lo, hi = min(separate, joint), max(separate, joint)
        # python_integration.rst l.427-429: "a plain value promoting to const is less specific than a true scalar
        # parameter" - read as the one rank point every other documented refinement costs
        promoted = sum(1 for ak, _ in args[len(fx):] if ak == "sc")
        lo, hi = lo + promoted * DOC_PROMOTION_POINT, hi + promoted * DOC_PROMOTION_POINT
        params = fx
    else:
        lo = hi = doc_rank(params)
    if kw is not None:
        lo += DOC_KWARGS_POINT
        hi = hi + DOC_KWARGS_POINT if kw == "*" else INF
    coerced = sum(1 for (pk, p), (ak, a) in zip(params, args)
                  if pk == "sc" and ak == "sc" and p[0] == "sconc" and p[1] != a)
    return lo, hi + coerced


def repeated_at_different_depths(params):
    _, by_var = doc_occurrences(params)
    return any(len(set(cs)) > 1 for cs in by_var.values())


# ------------------------------------------------------------------------------------------------
# generator
# ------------------------------------------------------------------------------------------------
FIELDS = ["a", "b", "c"]
TSV = ["T", "U"]
SCV = ["s", "k"]
SZV = ["N", "M"]


def gen_ct(rng, depth):
    r = rng.random()
    if depth <= 0 or r < 0.30:
        return ("TS", rng.choice(SCALARS))
    if r < 0.38: return ("TSS", rng.choice(SCALARS))
    if r < 0.55: return ("TSL", gen_ct(rng, depth - 1), rng.choice([0, 1, 2, 2, 3]))
    if r < 0.68: return ("TSD", rng.choice(["int", "str"]), gen_ct(rng, depth - 1))
    if r < 0.76:
        p = rng.choice([2, 3])
        return ("TSW", rng.choice(SCALARS), p, rng.choice([1, p]))
    if r < 0.88:
        n = rng.choice([1, 2, 2, 3])
        return ("TSB", tuple((FIELDS[i], gen_ct(rng, depth - 1)) for i in range(n)))
    if r < 0.97: return mk_ref(gen_ct(rng, depth - 1))
    return ("SIGNAL",)


def gen_sp(rng, s, exact=0.45):
    """generalise scalar s"""
    r = rng.random()
    if r < exact: return ("sconc", s)
    if r < exact + 0.35: return ("svar", rng.choice(SCV), ())
    others = [x for x in SCALARS if x != s]
    cs = [s] + rng.sample(others, rng.choice([0, 1, 2]))
    rng.shuffle(cs)
    return ("svar", rng.choice(SCV), tuple(cs))


def gen_tp(rng, c, depth=0):
    """a pattern that generalises concrete c (usually still matches it)"""
    r = rng.random()
    if r < 0.12: return ("var", rng.choice(TSV), ())
    if r < 0.16:
        cs = [strip_refs(c)] + [gen_ct(rng, 1) for _ in range(rng.choice([0, 1]))]
        rng.shuffle(cs)
        return ("var", rng.choice(TSV), tuple(cs))
    if r < 0.26: return ("conc", rng.choice([c, deref(c), strip_refs(c), mk_ref(c)]))
    if r < 0.30: return ("REF", gen_tp(rng, c[1] if c[0] == "REF" else c, depth + 1))
    if r < 0.33: return ("SIGNAL",)
    k = c[0]
    if k == "REF":
        return rng.choice([("REF", gen_tp(rng, c[1], depth + 1)), gen_tp(rng, c[1], depth + 1)])
    if k in ("TS", "TSS"): return (k, gen_sp(rng, c[1]))
    if k == "TSL":
        z = rng.random()
        if z < 0.35: size = ("fixed", c[2])
        elif z < 0.50: size = ("fixed", 0)
        elif z < 0.85: size = ("szvar", rng.choice(SZV), ())
        else: size = ("szvar", rng.choice(SZV), tuple(sorted({c[2], rng.choice([1, 2, 3])})))
        return ("TSL", gen_tp(rng, c[1], depth + 1), size)
    if k == "TSD": return ("TSD", gen_sp(rng, c[1]), gen_tp(rng, c[2], depth + 1))
    if k == "TSW": return ("TSW", gen_sp(rng, c[1]), None if rng.random() < 0.4 else (c[2], c[3]))
    if k == "TSB":
        if rng.random() < 0.25: return ("TSBvar", rng.choice(["S", "R"]))
        return ("TSB", tuple((f, gen_tp(rng, t, depth + 1)) for f, t in c[1]))
    return ("SIGNAL",)


def gen_out(rng, params):
    vs = set()
    for pk, p in params:
        pvars(p, vs)
    r = rng.random()
    if r < 0.12: return None
    tsv = sorted(n for k, n in vs if k == "ts")
    scv = sorted(n for k, n in vs if k == "sc")
    szv = sorted(n for k, n in vs if k == "sz")
    if r < 0.20: return ("conc", gen_ct(rng, 1))
    if r < 0.24: return ("TS", ("svar", "zz", ()))     # never bound: the candidate cannot produce its output

    def leaf():
        if tsv and rng.random() < 0.5: return ("var", rng.choice(tsv), ())
        if scv: return ("TS", ("svar", rng.choice(scv), ()))
        if tsv: return ("var", rng.choice(tsv), ())
        return ("TS", ("sconc", rng.choice(SCALARS)))
    q = rng.random()
    if q < 0.5: return leaf()
    if q < 0.58:
        # a size variable NO parameter binds (a different pool name, or one the parameters do not mention): the output
        # cannot be resolved, the candidate must be rejected - never resolved with a defaulted size
        free = [n for n in SZV + ["K"] if n not in szv]
        return ("TSL", leaf(), ("szvar", rng.choice(free), ()))
    if q < 0.65: return ("TSL", leaf(), ("szvar", rng.choice(szv), ()) if szv else ("fixed", rng.choice([0, 2])))
    if q < 0.75: return ("TSD", ("svar", rng.choice(scv), ()) if scv else ("sconc", "int"), leaf())
    if q < 0.85: return ("REF", leaf())
    if q < 0.95: return ("TSB", (("x", leaf()), ("y", leaf())))
    return ("TSS", ("svar", rng.choice(scv), ()) if scv else ("sconc", "str"))


def gen_kw(rng):
    r = rng.random()
    if r < 0.88: return None
    if r < 0.92: return "*"
    return rng.choice([("TSBvar", "K"), ("conc", ("TSB", (("a", ("TS", "int")),))),
                       ("TSB", (("a", ("TS", ("svar", "q", ()))),)), ("TSD", ("sconc", "str"), ("var", "V", ())),
                       ("TSL", ("var", "V", ()), ("szvar", "L", ())), ("TSL", ("var", "V", ()), ("fixed", 0)),
                       ("TSW", ("svar", "q", ("int",)), None), ("var", "V", ())])


def show_ov(label, ov):
    params, out, kw = ov
    ws = ["ov", label]
    for pk, p in params:
        ws.append(show_param(pk, p))
    ws += ["->", "-" if out is None else show_tp(out)]
    if kw is not None:
        ws.append("kw:" + ("*" if kw == "*" else show_tp(kw)))
    return " ".join(ws)


def show_call(args):
    return " ".join(["call"] + [k + ":" + (show_ct(a) if k == "ts" else a) for k, a in args])


def mutate_arg(rng, a):
    k, v = a
    if k == "sc":
        return ("sc", rng.choice(SCALARS))
    r = rng.random()
    if r < 0.35: return ("ts", mk_ref(v))
    if r < 0.50: return ("ts", deref(v))
    if r < 0.60 and v[0] == "TSL": return ("ts", ("TSL", v[1], rng.choice([0, 1, 2, 3])))
    if r < 0.70 and v[0] in ("TS", "TSS"): return ("ts", (v[0], rng.choice(SCALARS)))
    if r < 0.80 and v[0] == "TSL": return ("ts", ("TSL", mk_ref(v[1]), v[2]))
    return ("ts", gen_ct(rng, 2))


# hand-written rank-critical families (decay, de-dup, constants, ties); variables renamed at random
TEMPLATES = [
    (["ts:~T ts:TSL[~T,~N] -> ~T", "ts:~T ts:=TSL[TS[int],2] -> ~T", "ts:~T ts:~U -> ~U", "ts:TS[~s] ts:TSL[TS[~s],~N] -> TS[~s]"],
     ["ts:TS[int] ts:TSL[TS[int],2]", "ts:TS[str] ts:TSL[TS[str],3]", "ts:REF[TS[int]] ts:TSL[REF[TS[int]],2]"]),
    (["ts:~T -> ~T", "ts:TSL[~T,~N] -> ~T", "ts:TSL[TSL[~T,~N],~M] -> ~T", "ts:TSL[TSL[TS[~s],~N],~M] -> TS[~s]",
      "ts:~T<TSL[TSL[TS[int],2],2]> -> ~T", "ts:TSB[~S] -> TSB[~S]"],
     ["ts:TSL[TSL[TS[int],2],2]", "ts:TSL[TS[int],2]", "ts:TS[int]", "ts:TSB[a:TS[int]]"]),
    (["ts:TS[~s] -> TS[~s]", "ts:~T<TS[int]|TS[str]> -> ~T", "ts:TS[~s<int|float>] -> TS[~s]", "ts:TS[int] -> TS[int]",
      "ts:=TS[int] -> =TS[int]", "ts:~T -> ~T"],
     ["ts:TS[int]", "ts:TS[str]", "ts:TS[float]", "ts:REF[TS[int]]", "ts:TS[bool]"]),
    (["ts:~T ts:TS[int] -> ~T", "ts:TS[int] ts:~T -> ~T", "ts:~T ts:~T -> ~T", "ts:TS[int] ts:TS[int] -> TS[int]"],
     ["ts:TS[int] ts:TS[int]", "ts:TS[str] ts:TS[int]", "ts:TS[int] ts:TS[str]", "ts:TS[str] ts:TS[str]"]),
    (["ts:TSL[~T,~N] -> ~T", "ts:TSL[~T,2] -> ~T", "ts:TSL[~T,0] -> ~T", "ts:REF[TSL[~T,~N]] -> ~T"],
     ["ts:TSL[TS[int],2]", "ts:TSL[TS[int],3]", "ts:REF[TSL[TS[int],2]]"]),
    (["ts:TSB[a:~T,b:~U] -> ~T", "ts:~T -> ~T", "ts:TSB[~S] -> TSB[~S]", "ts:TSB[a:~T,b:~T] -> ~T", "ts:TSB[a:TS[~s],b:TS[~s]] -> TS[~s]"],
     ["ts:TSB[a:TS[int],b:TS[int]]", "ts:TSB[a:TS[int],b:TS[str]]", "ts:TSB[a:TS[int],b:REF[TS[int]]]"]),
    (["ts:TS[~s] sc:~s -> TS[~s]", "ts:TS[~s] sc:int -> TS[~s]", "ts:TS[int] sc:float -> TS[float]", "ts:~T sc:~s<int|str> -> ~T",
      "ts:TS[~s] sc:~k -> TS[~k]"],
     ["ts:TS[int] sc:int", "ts:TS[int] sc:float", "ts:TS[str] sc:str", "ts:TS[float] sc:bool", "ts:TS[int] sc:str"]),
    (["ts:TSD[~k,TS[~s]] -> TS[~s]", "ts:TSD[~k,~T] -> ~T", "ts:TSD[str,~T] -> ~T", "ts:TSD[~k,TSS[~k]] -> TSS[~k]", "ts:~T -> ~T"],
     ["ts:TSD[str,TS[int]]", "ts:TSD[str,TSS[str]]", "ts:TSD[int,TSS[str]]", "ts:REF[TSD[str,REF[TS[int]]]]"]),
    (["ts:TSW[~s,*] -> TS[~s]", "ts:TSW[~s,3,1] -> TS[~s]", "ts:TSW[int,*] -> TS[int]", "ts:SIGNAL -> -", "ts:~T -> ~T"],
     ["ts:TSW[int,3,1]", "ts:TSW[int,2,2]", "ts:TSW[str,3,1]", "ts:TS[int]"]),
    (["ts:TS[~s] -> TS[~s] kw:*", "ts:TS[~s] -> TS[~s] kw:TSB[~K]", "ts:TS[~s] -> TS[~s] kw:=TSB[a:TS[int]]",
      "ts:TS[~s] -> TS[~s] kw:TSB[a:TS[~q]]", "ts:TS[~s] -> TS[~s]", "ts:~T -> ~T kw:TSL[~V,~L]"],
     ["ts:TS[int]", "ts:REF[TS[str]]"]),
    (["ts:REF[~T] -> ~T", "ts:~T -> ~T", "ts:REF[TS[~s]] -> TS[~s]", "ts:=REF[TS[int]] -> =TS[int]", "ts:=TS[int] -> =TS[int]"],
     ["ts:TS[int]", "ts:REF[TS[int]]", "ts:REF[REF[TS[int]]]", "ts:REF[TS[str]]"]),
    # one variable at several nesting depths against candidates whose rank lies between its smallest and largest cost
    (["ts:~T ts:TSL[~T,~N] -> TS[bool]", "ts:TS[~s] ts:TSL[~U,~N] -> TSL[~U,~N]", "ts:~T ts:TSL[~U,~N] -> ~U",
      "ts:TS[~s] ts:TSL[TS[~s],~N] -> TS[~s]", "ts:~T ts:TSL[TS[~s],2] -> ~T"],
     ["ts:TS[int] ts:TSL[TS[int],2]", "ts:TS[int] ts:TSL[TS[str],2]", "ts:REF[TS[int]] ts:TSL[TS[int],3]"]),
    (["ts:TSD[~k,~T] ts:~T -> ~T", "ts:TSD[~k,~T] ts:TS[~s] -> TS[~s]", "ts:TSD[~k,~U] ts:~T -> ~U",
      "ts:TSD[str,TS[~s]] ts:~T -> ~T", "ts:TSB[a:~T,b:TSL[~T,~N]] ts:~T -> ~T"],
     ["ts:TSD[str,TS[int]] ts:TS[int]", "ts:TSD[str,TS[int]] ts:TS[str]", "ts:TSB[a:TS[int],b:TSL[TS[int],2]] ts:TS[int]"]),
    (["ts:TS[~s] sc:~s -> TS[~s]", "ts:TS[~s<int|float>] sc:int -> TS[~s]", "ts:TS[~s<int|float>] sc:~k -> TS[~k]",
      "ts:TS[~s<int|float>] sc:~s<int|float> -> TS[~s]", "ts:TSD[~s,TS[~s]] sc:~s -> TS[~s]"],
     ["ts:TS[int] sc:int", "ts:TS[float] sc:float", "ts:TS[str] sc:str", "ts:TSD[int,TS[int]] sc:int"]),
]


def parse_ov_words(ws):
    """words after the label -> (params, out, kw)"""
    params, i = [], 0
    while i < len(ws) and ws[i] != "->":
        w = ws[i]
        if params and params[-1][0] == "vts": raise Bad("the variadic parameter must be the last one")
        if w.startswith("*ts:"): params.append(("vts", parse_tp(w[4:])))
        elif w.startswith("ts:"): params.append(("ts", parse_tp(w[3:])))
        elif w.startswith("sc:"): params.append(("sc", parse_sp(w[3:])))
        else: raise Bad("param " + w)
        i += 1
    rest = ws[i + 1:]
    if i >= len(ws) or len(rest) not in (1, 2):
        raise Bad("ov")
    out = None if rest[0] == "-" else parse_tp(rest[0])
    kw = None
    if len(rest) == 2:
        if not rest[1].startswith("kw:"): raise Bad("kw")
        kw = "*" if rest[1] == "kw:*" else parse_tp(rest[1][3:])
    return (params, out, kw)


def parse_call_words(ws):
    args = []
    for w in ws:
        if w.startswith("ts:"): args.append(("ts", parse_ct(w[3:])))
        elif w.startswith("sc:") and w[3:] in SCALARS: args.append(("sc", w[3:]))
        else: raise Bad("arg " + w)
    return args


def gen_perms(rng, labels, tier):
    n = rng.randint(3, 6)
    perms = [list(labels), list(reversed(labels))]
    while len(perms) < n:
        p = list(labels)
        rng.shuffle(p)
        perms.append(p)
    rng.shuffle(perms)
    return perms


def gen_case(rng, idx, tier):
    lines = ["case %d" % idx]
    labels = ["A", "B", "C", "D", "E", "F"]
    if rng.random() < 0.22:
        ovs_s, calls_s = rng.choice(TEMPLATES)
        ovs_s = list(ovs_s)
        rng.shuffle(ovs_s)
        ovs_s = ovs_s[:rng.randint(2, len(ovs_s))]
        ovs = [parse_ov_words(s.split()) for s in ovs_s]
        calls = [parse_call_words(s.split()) for s in calls_s]
        if rng.random() < 0.5:      # plus one random generalisation of the first call
            seed = calls[0]
            ps = [(k, gen_tp(rng, a) if k == "ts" else gen_sp(rng, a)) for k, a in seed]
            ovs.append((ps, gen_out(rng, ps), gen_kw(rng)))
        ovs = ovs[:6]
    else:
        arity = rng.choice([1, 1, 2, 2, 2, 3])
        kinds = ["ts" if rng.random() < 0.8 else "sc" for _ in range(arity)]
        if "ts" not in kinds:
            kinds[0] = "ts"
        base = gen_ct(rng, rng.choice([1, 2, 2, 3]))
        seed = []
        for k in kinds:
            if k == "sc":
                seed.append(("sc", rng.choice(SCALARS)))
            else:           # repeated argument types make repeated variables bind consistently
                seed.append(("ts", base if rng.random() < 0.5 else gen_ct(rng, rng.choice([1, 2, 2]))))
        n = rng.choice([1, 2, 3, 3, 4, 4, 5, 6])
        ovs = []
        for _ in range(n):
            r = rng.random()
            if r < 0.80:
                ps = [(k, gen_tp(rng, a) if k == "ts" else gen_sp(rng, a, 0.35)) for k, a in seed]
            elif r < 0.90:       # decoy built from an unrelated tuple of the same kinds
                ps = [(k, gen_tp(rng, gen_ct(rng, 2)) if k == "ts" else gen_sp(rng, rng.choice(SCALARS))) for k in kinds]
            else:                # other arity
                ks = kinds + ["ts"] if rng.random() < 0.5 and arity < 3 else kinds[:-1] or ["ts"]
                ps = [(k, gen_tp(rng, gen_ct(rng, 1)) if k == "ts" else gen_sp(rng, rng.choice(SCALARS))) for k in ks]
            if ovs and rng.random() < 0.10:     # a duplicate signature: guaranteed tie when it matches
                ps = list(ovs[-1][0])
            ovs.append((ps, gen_out(rng, ps), gen_kw(rng)))
        if len(ovs) < 6 and rng.random() < 0.35:     # a generic candidate together with its concrete specialisation
            cands = []
            for ov in ovs:
                ok, b = candidate_matches((ov[0], None, None), seed)
                if ok and b:
                    cands.append((ov, b))
            if cands:
                ov, b = rng.choice(cands)
                if rng.random() < 0.3:               # specialise only some of the variables
                    keep = rng.choice(sorted(b))
                    b = {k: v for k, v in b.items() if k != keep}
                ps = [(k, ground(p, b)) for k, p in ov[0]]
                ovs.insert(rng.randrange(len(ovs) + 1), (ps, gen_out(rng, ps), None))
        calls = [seed]
        for _ in range(rng.randint(0, 4)):
            c = list(seed)
            for _ in range(rng.choice([1, 1, 2])):
                i = rng.randrange(len(c))
                c[i] = mutate_arg(rng, c[i])
            if rng.random() < 0.07:
                c = c[:-1] if len(c) > 1 else c + [("ts", gen_ct(rng, 1))]
            calls.append(c)
    labels = labels[:len(ovs)]
    for l, ov in zip(labels, ovs):
        lines.append(show_ov(l, ov))
    for p in gen_perms(rng, labels, tier):
        lines.append("perm " + " ".join(p))
    for c in calls[:5]:
        lines.append(show_call(c))
    return Case(lines)


def exhaustive_cases(start):
    """every registration order of every template family (<= 5 overloads: <= 120 orders)"""
    import itertools
    cases = []
    for ovs_s, calls_s in TEMPLATES:
        ovs_s = list(ovs_s)[:5]
        labels = ["A", "B", "C", "D", "E"][:len(ovs_s)]
        lines = ["case %d" % (start + len(cases))]
        for l, s in zip(labels, ovs_s):
            lines.append("ov %s %s" % (l, s))
        for p in itertools.permutations(labels):
            lines.append("perm " + " ".join(p))
        for c in calls_s:
            lines.append("call " + c)
        cases.append(Case(lines))
    return cases


SPEC_STREAM = "specificity"
SPEC_CORPUS = ("01_", "06_")      # the directed cases of finding C19-a


def gen_spec_case(rng, idx):
    """directed variants of finding C19-a: a strictly more specific candidate whose structure costs more than the
    variable budget it saves (bundle of >= 2 whole-time-series variables; any structure below nesting depth 6)"""
    lines = ["case %d" % idx]
    if rng.random() < 0.5:
        n = rng.choice([2, 2, 3])
        fields = FIELDS[:n]
        vs = ["U", "V", "W"]
        inner = []
        for i, f in enumerate(fields):
            r = rng.random()
            if i < 2 or r < 0.5: inner.append((f, ("var", vs[i], ())))
            elif r < 0.8: inner.append((f, ("TS", ("svar", "s", ()))))
            else: inner.append((f, ("TSL", ("var", vs[i], ()), ("szvar", "N", ()))))
        a = ("TSB", tuple(inner))
        b = ("var", "T", ())
        arg = ("TSB", tuple((f, ("TSL", gen_ct(rng, 1), 2) if p[0] == "TSL" else ("TS", rng.choice(SCALARS)) if p[0] == "TS"
                             else gen_ct(rng, 1)) for f, p in inner))
        wrap = rng.random()
        if wrap < 0.3:        # the same pair one REF down
            a, b, arg = ("REF", a), ("REF", b), rng.choice([arg, mk_ref(arg)])
        extra = [("ts", ("TS", ("sconc", "int")))] if rng.random() < 0.3 else []
        extra_arg = [("ts", ("TS", "int"))] if extra else []
        ovs = [([("ts", b)] + extra, ("var", "T", ()), None), ([("ts", a)] + extra, ("var", "U", ()), None)]
        calls = [[("ts", arg)] + extra_arg]
    else:
        depth = rng.choice([7, 7, 8, 9])
        leaf_a = rng.choice([("TS", ("svar", "s", ())), ("TSS", ("svar", "s", ())), ("TSD", ("svar", "k", ()), ("var", "U", ()))])
        a, b = leaf_a, ("var", "T", ())
        if leaf_a[0] == "TSD":
            arg = ("TSD", "str", ("TS", rng.choice(SCALARS)))
        else:
            arg = (leaf_a[0], rng.choice(SCALARS))
        for _ in range(depth):
            if rng.random() < 0.7:
                z = rng.choice([("fixed", 0), ("szvar", "N", ()), ("fixed", 2)])
                a, b = ("TSL", a, z), ("TSL", b, z)
                arg = ("TSL", arg, 2)
            else:
                a, b = ("TSD", ("sconc", "int"), a), ("TSD", ("sconc", "int"), b)
                arg = ("TSD", "int", arg)
        ovs = [([("ts", b)], ("var", "T", ()), None), ([("ts", a)], None, None)]
        calls = [[("ts", arg)]]
    if rng.random() < 0.4:    # a bystander that does not match
        ovs.append(([("ts", ("TS", ("sconc", "str"))), ("ts", ("TS", ("sconc", "str")))], None, None))
    rng.shuffle(ovs)
    labels = ["A", "B", "C"][:len(ovs)]
    for l, ov in zip(labels, ovs):
        lines.append(show_ov(l, ov))
    for p in gen_perms(rng, labels, "quick"):
        lines.append("perm " + " ".join(p))
    for c in calls:
        lines.append(show_call(c))
    return Case(lines)


# ---- families with ONE variable repeated at DIFFERENT nesting depths (the per-variable minimum decides) ----------
# a wrap places the repeated time-series variable at one documented budget: (name, budget, pattern builder, arg builder)
_DEPTH_WRAPS = [
    ("bare", 10000, lambda v, rng: v, lambda c: c),
    ("ref", 10000, lambda v, rng: ("REF", v), lambda c: c),
    ("tsl", 5000, lambda v, rng: ("TSL", v, rng.choice([("szvar", "N", ()), ("fixed", 2), ("fixed", 0)])), lambda c: ("TSL", c, 2)),
    ("tsd", 5000, lambda v, rng: ("TSD", rng.choice([("svar", "k", ()), ("sconc", "str")]), v), lambda c: ("TSD", "str", c)),
    ("tsb", 5000, lambda v, rng: ("TSB", (("a", v), ("b", ("TS", ("sconc", "int"))))), lambda c: ("TSB", (("a", c), ("b", ("TS", "int"))))),
    ("tsl-tsl", 2500, lambda v, rng: ("TSL", ("TSL", v, ("szvar", "N", ())), ("szvar", "M", ())), lambda c: ("TSL", ("TSL", c, 2), 3)),
    ("tsd-tsl", 2500, lambda v, rng: ("TSD", ("sconc", "str"), ("TSL", v, ("fixed", 0))), lambda c: ("TSD", "str", ("TSL", c, 2))),
]
# occurrences of the repeated scalar variable: (name, budget, kind, pattern builder(var, constrained var), arg builder(scalar))
_SCALAR_SITES = [
    ("payload", 100, "ts", lambda sv, cv: ("TS", sv), lambda s: ("TS", s)),
    ("payload-tss", 100, "ts", lambda sv, cv: ("TSS", sv), lambda s: ("TSS", s)),
    ("tsd-key", 100, "ts", lambda sv, cv: ("TSD", sv, ("TS", ("sconc", "int"))), lambda s: ("TSD", s, ("TS", "int"))),
    ("payload-constrained", 50, "ts", lambda sv, cv: ("TS", cv), lambda s: ("TS", s)),
    ("payload-in-tsl", 100, "ts", lambda sv, cv: ("TSL", ("TS", sv), ("szvar", "N", ())), lambda s: ("TSL", ("TS", s), 2)),
    ("param", 1, "sc", lambda sv, cv: sv, lambda s: s),
    ("param-constrained", 1, "sc", lambda sv, cv: cv, lambda s: s),
]


def _leaf_generalisations(rng, c, tag):
    """patterns with fresh, independent variables that accept concrete c: from the structural copy down to a bare variable"""
    out = [("var", "U" + tag, ()), ("conc", c)]
    k = c[0]
    if k in ("TS", "TSS"):
        out += [(k, ("svar", "q" + tag, ())), (k, ("sconc", c[1])), (k, ("svar", "q" + tag, tuple(sorted({c[1], "int", "float"}))))]
    elif k == "TSL":
        out += [("TSL", ("var", "U" + tag, ()), ("szvar", "L" + tag, ())), ("TSL", ("var", "U" + tag, ()), ("fixed", c[2]))]
        out += [("TSL", q, ("szvar", "L" + tag, ())) for q in _leaf_generalisations(rng, c[1], tag + "x")[2:4]]
    elif k == "TSD":
        out += [("TSD", ("svar", "j" + tag, ()), ("var", "U" + tag, ())), ("TSD", ("sconc", c[1]), ("var", "U" + tag, ()))]
    return out


def gen_depth_case(rng, idx):
    """candidate A repeats one variable at >= 2 different documented budgets (bare ~T + inside TSL/TSD/TSB, TS payload +
    scalar parameter, ...); its competitors use independent variables / structure so that their documented rank lies
    between A's documented rank (per-variable MINIMUM) and the rank A would get from any other way of combining the
    occurrences; registered in both orders, pairwise and all together"""
    lines = ["case %d" % idx]
    mode = rng.choice(["ts", "ts", "scalar", "scalar", "both"])
    a_params, seed, sites = [], [], []       # sites: per parameter, the alternatives a competitor may use there
    if mode in ("ts", "both"):
        leaf = rng.choice([("TS", "int"), ("TS", "str"), ("TSS", "int"), ("TSL", ("TS", "int"), 2), ("TSD", "str", ("TS", "float")),
                           ("TS", "float")])
        while True:
            wraps = [rng.choice(_DEPTH_WRAPS) for _ in range(rng.choice([2, 2, 3] if mode == "ts" else [2]))]
            if len({w[1] for w in wraps}) >= 2:
                break
        v = ("var", "T", ())
        for i, (name, _budget, mk_p, mk_a) in enumerate(wraps):
            a_params.append(("ts", mk_p(v, rng)))
            arg = mk_a(leaf)
            if rng.random() < 0.15:
                arg = mk_ref(arg)
            seed.append(("ts", arg))
            alts = [("ts", mk_p(g, rng)) for g in _leaf_generalisations(rng, leaf, str(i))]
            alts.append(("ts", ("var", "W%d" % i, ())))
            alts.append(("ts", mk_p(v, rng)))            # keeps A's variable at this position only
            sites.append(alts)
    if mode in ("scalar", "both"):
        s = rng.choice(["int", "float", "str", "int"])
        while True:
            occ = [rng.choice(_SCALAR_SITES) for _ in range(rng.choice([2, 2, 3] if mode == "scalar" else [2]))]
            if len({o[1] for o in occ}) >= 2 and any(o[2] == "ts" for o in occ):
                break
        if mode == "scalar":
            occ.sort(key=lambda o: o[2] != "ts")          # a time-series parameter first
        if any(o[0] == "tsd-key" for o in occ):
            s = rng.choice(["int", "str"])                # the key types the concrete generator uses
        sv = ("svar", "s", ())
        cv = ("svar", "s", tuple(sorted({s, "int", "float"})))
        for i, (name, _budget, kind, mk_p, mk_a) in enumerate(occ):
            a_params.append((kind, mk_p(sv, cv)))
            seed.append((kind, mk_a(s)))
            j = len(a_params)
            fresh = ("svar", "r%d" % j, ())
            freshc = ("svar", "r%d" % j, tuple(sorted({s, "int", "float"})))
            alts = [(kind, mk_p(fresh, freshc)), (kind, mk_p(freshc, freshc)), (kind, mk_p(("sconc", s), ("sconc", s))),
                    (kind, mk_p(sv, cv)), (kind, mk_p(cv, cv))]
            if kind == "sc" and s in NUMERIC:
                alts.append(("sc", ("sconc", rng.choice(["int", "float"]))))     # possibly through a coercion
            if kind == "ts":
                alts.append(("ts", ("var", "W%d" % j, ())))
            sites.append(alts)
    a_params, seed, sites = a_params[:3], seed[:3], sites[:3]
    if not repeated_at_different_depths(a_params):        # truncated away: fall back to the first critical pair
        a_params = [("ts", ("var", "T", ())), ("ts", ("TSL", ("var", "T", ()), ("szvar", "N", ())))]
        seed = [("ts", ("TS", "int")), ("ts", ("TSL", ("TS", "int"), 2))]
        sites = [[("ts", ("TS", ("svar", "q", ()))), ("ts", ("var", "U", ()))],
                 [("ts", ("TSL", ("var", "U", ()), ("szvar", "N", ()))), ("ts", ("TSL", ("TS", ("svar", "q", ())), ("fixed", 2)))]]
    lo, hi = doc_rank(a_params, min), doc_rank(a_params, max)
    ovs = [(a_params, gen_out(rng, a_params), None)]
    between = []
    for attempt in range(60):
        if len(ovs) >= rng.choice([3, 4, 5]) and between:
            break
        ps = [rng.choice(alts) for alts in sites]
        if ps == a_params or any(ps == o[0] for o in ovs) or not candidate_matches((ps, None, None), seed)[0]:
            continue
        r = doc_rank(ps)
        gap = lo < r <= hi
        if not gap and (len(ovs) >= 4 or (not between and attempt < 40 and rng.random() < 0.7)):
            continue
        ovs.append((ps, gen_out(rng, ps), gen_kw(rng) if rng.random() < 0.1 else None))
        if gap:
            between.append(len(ovs) - 1)
    ovs = ovs[:6]
    order = list(range(len(ovs)))
    rng.shuffle(order)                                     # A is not always the first label
    ovs = [ovs[i] for i in order]
    labels = ["A", "B", "C", "D", "E", "F"][:len(ovs)]
    a_label = labels[order.index(0)]
    for l, ov in zip(labels, ovs):
        lines.append(show_ov(l, ov))
    perms = [list(labels), list(reversed(labels))]
    for bi in between[:2]:
        if bi in order:
            b_label = labels[order.index(bi)]
            perms += [[a_label, b_label], [b_label, a_label]]
    while len(perms) < 4 and len(labels) > 2:
        p = list(labels)
        rng.shuffle(p)
        perms.append(p)
    for p in perms[:6]:
        lines.append("perm " + " ".join(p))
    calls = [seed]
    c = list(seed)                                         # the repeated variable cannot bind consistently: A drops out
    i = rng.randrange(len(c))
    c[i] = mutate_arg(rng, c[i])
    calls.append(c)
    calls.append([(k, mk_ref(a)) if k == "ts" and rng.random() < 0.5 else (k, a) for k, a in seed])
    for c in calls:
        lines.append(show_call(c))
    return Case(lines)


# ---- field-listing bundle patterns against bundles with more / fewer / re-ordered / re-named fields ------------------
BUNDLE_STREAM = "named-bundles"       # named bundles; since the model carries bundle names: model + monitor
_BFIELDS = ["a", "b", "c", "d"]
_BLEAVES = [("TS", "int"), ("TS", "int"), ("TS", "str"), ("TS", "float"), ("TSS", "int"), ("TSL", ("TS", "int"), 2),
            ("TSD", "str", ("TS", "int"))]
# where the bundle sits: (tag, pattern builder, schema builder)
_BUNDLE_WRAPS = [
    ("top", lambda q, rng: q, lambda c: c),
    ("top", lambda q, rng: q, lambda c: c),
    ("tsl", lambda q, rng: ("TSL", q, rng.choice([("szvar", "N", ()), ("fixed", 2), ("fixed", 0)])), lambda c: ("TSL", c, 2)),
    ("tsd", lambda q, rng: ("TSD", rng.choice([("svar", "k", ()), ("sconc", "str")]), q), lambda c: ("TSD", "str", c)),
    ("tsb", lambda q, rng: ("TSB", (("x", q), ("y", ("TS", ("sconc", "int"))))), lambda c: ("TSB", (("x", c), ("y", ("TS", "int"))))),
    ("ref", lambda q, rng: ("REF", q), lambda c: mk_ref(c)),
    ("tsl-tsb", lambda q, rng: ("TSL", ("TSB", (("x", q),)), ("szvar", "N", ())), lambda c: ("TSL", ("TSB", (("x", c),)), 3)),
    ("tsd-tsl", lambda q, rng: ("TSD", ("sconc", "int"), ("TSL", q, ("fixed", 0))), lambda c: ("TSD", "int", ("TSL", c, 2))),
]


def structural_copy(c):
    """the field-by-field lowering of a fully concrete schema: structure all the way down, concrete scalars"""
    k = c[0]
    if k in ("TS", "TSS"): return (k, ("sconc", c[1]))
    if k == "TSL": return ("TSL", structural_copy(c[1]), ("fixed", c[2]))
    if k == "TSD": return ("TSD", ("sconc", c[1]), structural_copy(c[2]))
    if k == "TSW": return ("TSW", ("sconc", c[1]), (c[2], c[3]))
    if k == "TSB": return ("TSB", tuple((f, structural_copy(t)) for f, t in c[1])) + c[2:]
    if k == "REF": return ("REF", structural_copy(c[1]))
    return ("SIGNAL",)


def bundle_name(fields, variant="x"):
    """the registry's bundle names are process-global (one name, one field list): derive the name from the field list"""
    import hashlib
    return "B%s%s" % (variant, hashlib.sha1(show_ct(("TSB", tuple(fields))).encode()).hexdigest()[:8])


def _bundle_field_patterns(rng, fields, style):
    out = []
    for i, (f, t) in enumerate(fields):
        if style == "concrete":
            out.append((f, structural_copy(t)))
        elif style == "shared-var":
            out.append((f, ("var", "T", ())))
        elif style == "vars":
            out.append((f, ("var", "T%d" % i, ())))
        elif style == "scalar-vars" and t[0] in ("TS", "TSS"):
            out.append((f, (t[0], ("svar", "s%d" % i, ()))))
        else:
            out.append((f, gen_tp(rng, t, 1)))
    return tuple(out)


def _bundle_variants(rng, fields, pool):
    """(tag, field list) of the argument bundles tried against a pattern that lists `fields`: the same fields, MORE fields
    behind them, fewer, another order, another field name, another leading field, another field type"""
    k = len(fields)
    extra = [(f, t) for f, t in pool if f not in {g for g, _ in fields}]
    out = [("same", list(fields))]
    out.append(("wider", list(fields) + extra[:1]))
    if len(extra) > 1:
        out.append(("wider2", list(fields) + extra[:2]))
    if k > 1:
        out.append(("narrower", list(fields[:-1])))
        perm = list(fields)
        while perm == list(fields):
            rng.shuffle(perm)
        out.append(("reordered", perm))
    out.append(("renamed", list(fields[:-1]) + [("z", fields[-1][1])]))
    out.append(("renamed-wider", list(fields[:-1]) + [("z", fields[-1][1])] + [fields[-1]]))
    out.append(("shifted", extra[:1] + list(fields)))
    i = rng.randrange(k)
    other = rng.choice([t for t in _BLEAVES if t != fields[i][1]])
    out.append(("retyped", [(f, other if j == i else t) for j, (f, t) in enumerate(fields)]))
    return out


def gen_bundle_case(rng, idx, named=False):
    """a candidate whose parameter is a field-listing bundle pattern of k fields (generic or fully concrete), alone / with
    the exact (k+1)-field pattern / with a ~X fallback, called with bundles of exactly those fields, with MORE fields behind
    them, fewer, re-ordered, re-named, re-typed; at top level and under TSL / TSD / TSB / REF; both registration orders"""
    lines = ["case %d" % idx]
    k = rng.choice([1, 2, 2, 2, 3])
    shared = rng.random() < 0.35
    leaf = rng.choice(_BLEAVES)
    pool = [(f, leaf if shared and i < k else rng.choice(_BLEAVES)) for i, f in enumerate(_BFIELDS)]
    fields = pool[:k]
    style = "shared-var" if shared and rng.random() < 0.7 else rng.choice(["concrete", "concrete", "vars", "scalar-vars", "mixed"])
    tag, mk_p, mk_c = rng.choice(_BUNDLE_WRAPS)
    wide_under_same_name = named and rng.random() < 0.4
    if named:
        # the pattern's name is the registered name of the k-field list, or (second mode) of the (k+1)-field list whose
        # first k fields the pattern lists
        pname = bundle_name(pool[:k + 1] if wide_under_same_name else fields)

        def mk_bundle(fs, variant="x"):
            return ("TSB", tuple(fs), bundle_name(fs, variant))
        short = ("TSB", _bundle_field_patterns(rng, fields, style), pname)
    else:
        def mk_bundle(fs, variant="x"):
            return ("TSB", tuple(fs))
        short = ("TSB", _bundle_field_patterns(rng, fields, style))
    two = rng.random() < 0.3                         # a second, ordinary parameter
    tail_p = [("ts", ("TS", rng.choice([("sconc", "int"), ("svar", "q", ())])))] if two else []
    tail_a = [("ts", ("TS", "int"))] if two else []
    ovs = []
    ps = [("ts", mk_p(short, rng))] + tail_p
    ovs.append((ps, gen_out(rng, ps), None))
    comp = rng.choice(["none", "none", "wide", "fallback", "wide+fallback", "wide+fallback", "fallback-nested", "unnamed-twin"])
    if "wide" in comp:
        wide_fields = pool[:k + 1]
        wstyle = style if rng.random() < 0.6 else rng.choice(["concrete", "vars", "mixed"])
        wide = ("TSB", _bundle_field_patterns(rng, wide_fields, wstyle))
        if named and rng.random() < 0.5:
            wide = wide + (bundle_name(wide_fields),)
        ps = [("ts", mk_p(wide, rng))] + tail_p
        ovs.append((ps, gen_out(rng, ps), None))
    if "fallback" in comp:
        fb = ("var", "X", ()) if comp != "fallback-nested" else mk_p(("var", "X", ()), rng)
        ps = [("ts", fb)] + tail_p
        ovs.append((ps, gen_out(rng, ps), None))
    if comp == "unnamed-twin" and named:            # the same field list without a name: accepts every bundle name
        ps = [("ts", mk_p(("TSB", short[1]), rng))] + tail_p
        ovs.append((ps, gen_out(rng, ps), None))
    rng.shuffle(ovs)
    labels = ["A", "B", "C", "D"][:len(ovs)]
    for l, ov in zip(labels, ovs):
        lines.append(show_ov(l, ov))
    perms = [list(labels), list(reversed(labels))]
    while len(perms) < 3 and len(labels) > 2:
        q = list(labels)
        rng.shuffle(q)
        perms.append(q)
    for q in perms:
        lines.append("perm " + " ".join(q))
    variants = _bundle_variants(rng, fields, pool)
    keep = [v for v in variants if v[0] in ("same", "wider")]
    rest = [v for v in variants if v[0] not in ("same", "wider")]
    rng.shuffle(rest)
    calls = []
    for vtag, fs in keep + rest[:4]:
        b = mk_bundle(fs)
        if named and wide_under_same_name and vtag == "same":
            continue                                 # that field list is not what the pattern's name is registered for
        if not named and rng.random() < 0.12:        # REF around a field (a named bundle's field list is fixed by its name)
            b = (b[0], tuple((f, mk_ref(t)) if j == 0 else (f, t) for j, (f, t) in enumerate(b[1])))
        a = mk_c(b)
        if rng.random() < 0.12:
            a = mk_ref(a)
        calls.append([("ts", a)] + tail_a)
    if named:
        calls.append([("ts", mk_c(mk_bundle(fields, "y")))] + tail_a)           # the same fields under another name
        calls.append([("ts", mk_c(("TSB", tuple(fields))))] + tail_a)           # the same fields without a name
        calls.append([("ts", mk_c(("TSB", tuple(pool[:k + 1]))))] + tail_a)     # one more field, without a name
    for c in calls:
        lines.append(show_call(c))
    return Case(lines)


# ---- a REPEATED whole-time-series variable over bundle types that share their field list ---------------------------------
# a bundle type is nominal: TSB<A>[x,y], TSB<B>[x,y] and the un-named TSB[x,y] are three different types with the same
# field list.  A variable that occurs at >= 2 positions must hold ONE of them at all its positions.
_RLEAVES = [("TS", "int"), ("TS", "float"), ("TS", "str"), ("TSS", "int"), ("TSL", ("TS", "int"), 2),
            ("TSD", "str", ("TS", "int")), ("TS", "bool")]
_RFIELDS = ["x", "y", "z", "w"]
_ID = lambda c: c
# where the positions of the repeated variable sit: tag -> [(pattern builder(var), argument builder(schema)), ...]
_REPEAT_SHAPES = {
    "direct": [(lambda v: v, _ID), (lambda v: v, _ID)],
    "tsd+bare": [(lambda v: ("TSD", ("svar", "K", ()), v), lambda c: ("TSD", "int", c)), (lambda v: v, _ID)],
    "tsl+tsl": [(lambda v: ("TSL", v, ("szvar", "N", ())), lambda c: ("TSL", c, 2)),
                (lambda v: ("TSL", v, ("szvar", "N", ())), lambda c: ("TSL", c, 2))],
    "tsl+bare": [(lambda v: ("TSL", v, ("fixed", 0)), lambda c: ("TSL", c, 3)), (lambda v: v, _ID)],
    "ref+bare": [(lambda v: ("REF", v), lambda c: mk_ref(c)), (lambda v: v, _ID)],
    "ref+ref": [(lambda v: ("REF", v), lambda c: mk_ref(c)), (lambda v: ("REF", v), _ID)],
    "field+bare": [(lambda v: ("TSB", (("p", v), ("q", ("TS", ("sconc", "int"))))), lambda c: ("TSB", (("p", c), ("q", ("TS", "int"))))),
                   (lambda v: v, _ID)],
    "tsd-tsl+tsl": [(lambda v: ("TSD", ("sconc", "str"), ("TSL", v, ("fixed", 0))), lambda c: ("TSD", "str", ("TSL", c, 2))),
                    (lambda v: ("TSL", v, ("szvar", "N", ())), lambda c: ("TSL", c, 2))],
    "tsd+tsd": [(lambda v: ("TSD", ("svar", "K", ()), v), lambda c: ("TSD", "int", c)),
                (lambda v: ("TSD", ("svar", "K", ()), v), lambda c: ("TSD", "int", c))],
    "triple": [(lambda v: v, _ID), (lambda v: v, _ID), (lambda v: v, _ID)],
    "one-param": [(lambda v: ("TSB", (("l", v), ("r", v))), None)],      # both positions inside ONE parameter
}


def _alt_fields(rng, fields):
    """a DIFFERENT field list (another field type / name / count): never equivalent to `fields`"""
    k = len(fields)
    how = rng.choice(["retyped", "retyped", "renamed", "wider"] + (["narrower", "reordered"] if k > 1 else []))
    if how == "retyped":
        i = rng.randrange(k)
        other = rng.choice([t for t in _RLEAVES if t != fields[i][1]])
        return how, [(f, other if j == i else t) for j, (f, t) in enumerate(fields)]
    if how == "renamed":
        return how, list(fields[:-1]) + [("v", fields[-1][1])]
    if how == "wider":
        return how, list(fields) + [("u", rng.choice(_RLEAVES))]
    if how == "narrower":
        return how, list(fields[:-1])
    perm = list(fields)
    while perm == list(fields):
        rng.shuffle(perm)
    if [f for f, _ in perm] == [f for f, _ in fields]:      # equal field types: re-ordering the names is what differs
        perm = list(reversed(fields))
    return how, perm


def gen_repeat_case(rng, idx, mode=None):
    """a candidate with a whole-time-series variable REPEATED at >= 2 positions (two parameters, a parameter and a nested
    position, both nested, with constraints, inside one parameter), together with the fallback f(~X,~Y) (bare or of the
    same shape) or WITHOUT a fallback, sometimes a decoy; called with (A,A), (A,B) [same fields, other name], (A,U) [same
    fields, no name], (A,A') [other fields], in both argument orders, at top level and under TSL / TSD / REF / a bundle
    field; every registration order.  mode 'schema' / 'mixed' use a TSB[~S] schema variable (finding C19-schemavar)."""
    lines = ["case %d" % idx]
    if mode is None:
        mode = rng.choice(["var"] * 6 + ["constrained", "constrained"])
    k = rng.choice([1, 2, 2, 3])
    fields = [(_RFIELDS[i], rng.choice(_RLEAVES)) for i in range(k)]
    how, alt = _alt_fields(rng, fields)
    inner = rng.random() < 0.2
    if inner:
        # the bundles that differ in name only sit one level down, as a field of an (un-named) outer bundle
        def outer(b):
            return ("TSB", (("m", b), ("n", ("TS", "int"))))
    else:
        def outer(b):
            return b
    A = outer(("TSB", tuple(fields), bundle_name(fields, "x")))
    B = outer(("TSB", tuple(fields), bundle_name(fields, "y")))
    U = outer(("TSB", tuple(fields)))
    A2 = outer(("TSB", tuple(alt), bundle_name(alt, "x")))
    tag = rng.choice(["direct", "direct", "direct", "tsd+bare", "tsd+bare", "tsl+tsl", "tsl+tsl", "tsl+bare", "ref+bare",
                      "ref+ref", "field+bare", "tsd-tsl+tsl", "tsd+tsd", "triple", "one-param"])
    shape = list(_REPEAT_SHAPES[tag])
    if tag != "one-param" and rng.random() < 0.5:
        shape.reverse()                                  # f(~V, TSD[~K,~V]) as well as f(TSD[~K,~V], ~V)
    npos = 2 if tag == "one-param" else len(shape)
    # the repeated variable at each of its positions
    if mode == "var":
        vs = [("var", "T", ())] * npos
    elif mode == "constrained":
        pool = [A, B, U, A2, ("TS", "int")]
        cs = tuple(rng.sample(pool, rng.choice([1, 2, 2])))
        if rng.random() < 0.5:
            vs = [("var", "T", cs)] * npos
        else:                                            # the constraint on one occurrence only
            vs = [("var", "T", cs)] + [("var", "T", ())] * (npos - 1)
            rng.shuffle(vs)
    elif mode == "schema":
        vs = [("TSBvar", "S")] * npos
    else:                                                # 'mixed': ~S as a whole-time-series AND as a schema variable
        vs = [("var", "S", ()), ("TSBvar", "S")] + [("var", "S", ())] * (npos - 2)
        rng.shuffle(vs)
    if tag == "one-param":
        rep_params = [("ts", ("TSB", (("l", vs[0]), ("r", vs[1]))))]
    else:
        rep_params = [("ts", mk(v)) for (mk, _), v in zip(shape, vs)]
    v0 = vs[0] if vs[0][0] == "TSBvar" else ("var", vs[0][1], ())
    outs = [v0, ("TSL", v0, ("fixed", 2)), ("REF", v0), ("TSD", ("sconc", "int"), v0), ("TSB", (("o", v0),))]
    ovs = [(rep_params, rng.choice(outs + [v0, v0]), None)]
    fb = rng.choice(["bare", "bare", "shape", "none", "none"])
    if fb == "bare":
        ps = [("ts", ("var", "X%d" % i, ())) for i in range(len(rep_params))]
    elif fb == "shape" and tag != "one-param":
        ps = [("ts", mk(("var", "X%d" % i, ()))) for i, (mk, _) in enumerate(shape)]
    elif fb == "shape":
        ps = [("ts", ("TSB", (("l", ("var", "X0", ())), ("r", ("var", "X1", ())))))]
    else:
        ps = None
    if ps is not None:
        ovs.append((ps, rng.choice([("var", "X0", ()), ("var", "X%d" % (0 if tag == "one-param" and fb == "bare" else 1), ()), None]), None))
    if rng.random() < 0.35 and tag != "one-param":      # a decoy at the first position
        mk0, _ = shape[0]
        r = rng.random()
        if r < 0.4:       # a concrete leaf: accepts what is EQUIVALENT to it (A, B and U alike)
            d0 = ("conc", rng.choice([A, U]))
        elif r < 0.8 and not inner:     # a named field-listing pattern: accepts the bundle of that name only
            d0 = ("TSB", tuple((f, ("var", "P%d" % i, ())) for i, (f, _) in enumerate(fields)), A[2])
        else:
            d0 = ("TSB", tuple((f, ("var", "P%d" % i, ())) for i, (f, _) in enumerate(U[1])))
        ps = [("ts", mk0(d0))] + [("ts", ("var", "Y%d" % i, ())) for i in range(1, len(shape))]
        ovs.append((ps, gen_out(rng, ps), None))
    rng.shuffle(ovs)
    labels = ["A", "B", "C"][:len(ovs)]
    for l, ov in zip(labels, ovs):
        lines.append(show_ov(l, ov))
    import itertools
    for q in itertools.permutations(labels):             # ALL registration orders
        lines.append("perm " + " ".join(q))
    if npos == 2:
        tuples = [(A, A), (A, B), (B, A), (A, U), (U, A), (A, A2), (A2, A)]
        extra = [(U, U), (B, B), (B, U), (U, B), (A2, A2), (B, A2)]
        rng.shuffle(extra)
        tuples += extra[:2]
    else:
        tuples = [(A, A, A), (A, A, B), (A, B, A), (B, A, A), (A, U, A), (U, A, A), (A, A, A2), (U, U, U), (A, B, U)]
    for t in tuples:
        if tag == "one-param":
            name = None if rng.random() < 0.7 else bundle_name([("l", t[0]), ("r", t[1])], "p")
            b = ("TSB", (("l", t[0]), ("r", t[1])))
            args = [("ts", b if name is None else b + (name,))]
        else:
            args = [("ts", mk_a(c)) for (_, mk_a), c in zip(shape, t)]
        args = [(kk, mk_ref(a)) if rng.random() < 0.12 else (kk, a) for kk, a in args]
        lines.append(show_call(args))
    return Case(lines)


# ---- families that mix fixed-arity and VARIADIC candidates ---------------------------------------------------------
VAR_STREAM = "variadic"
_FLAT_TAILS = ["~S", "~S", "TS[~T]", "TS[~T]", "TS[int]", "=TS[int]", "REF[~S]", "TS[~T<int|float>]", "TSS[~T]", "SIGNAL"]
_NESTED_TAILS = ["TSL[~E,~N]", "TSL[~E,~N]", "TSL[~E,2]", "TSL[~E,0]", "TSD[~K,~V]", "TSD[~K,~V]", "TSD[str,~V]",
                 "TSD[~K,TS[~K]]", "TSB[a:~U,b:~W]", "TSB[a:~U]", "TSB[a:~U,b:~U]", "TSB[a:~U,b:~U]", "TSL[TSL[~E,~N],~M]",
                 "TSD[~K,TSL[~E,~N]]", "TSB[~R]", "TSL[TS[~T],~N]", "TSL[TSB[a:~U,b:~U],~N]", "REF[TSL[~E,~N]]",
                 "TSB[a:~U,b:TSL[~U,~N]]", "TSW[~T,*]", "TSL[~E<TS[int]|TS[str]>,~N]", "TSD[~K,TSD[~K,~V]]",
                 "TSL[~E,~N<2|3>]", "TSB[a:~U,b:TS[~T]]"]
_VLEAVES = [("TS", "int"), ("TS", "int"), ("TS", "float"), ("TS", "str"), ("TSS", "int"), ("TSL", ("TS", "int"), 2),
            ("TSD", "str", ("TS", "int")), ("TSB", (("a", ("TS", "int")),))]


def _inst_s(rng, p, env):
    if p[0] == "sconc":
        return p[1]
    key = ("sc", p[1])
    if key not in env:
        env[key] = rng.choice(list(p[2]) if p[2] else ["int", "str", "int", "float"])
    return env[key]


def instantiate(rng, p, env):
    """a concrete schema that pattern p accepts; env carries the choices made for variables (so that a variable
    shared with the fixed part is instantiated consistently)"""
    k = p[0]
    if k == "var":
        key = ("ts", p[1])
        if key not in env:
            env[key] = rng.choice(list(p[2]) if p[2] else _VLEAVES)
        return env[key]
    if k == "conc": return p[1]
    if k == "SIGNAL": return rng.choice(_VLEAVES)
    if k in ("TS", "TSS"): return (k, _inst_s(rng, p[1], env))
    if k == "TSL":
        z = p[2]
        if z[0] == "fixed":
            n = z[1] if z[1] else rng.choice([1, 2, 3])
        else:
            key = ("sz", z[1])
            if key not in env:
                env[key] = rng.choice(list(z[2]) if z[2] else [1, 2, 2, 3])
            n = env[key]
        return ("TSL", instantiate(rng, p[1], env), n)
    if k == "TSD":
        s = _inst_s(rng, p[1], env)
        if s not in ("int", "str"):         # the key types the concrete generator uses
            s = env[("sc", p[1][1])] = "int" if not p[1][2] or "int" in p[1][2] else s
        return ("TSD", s, instantiate(rng, p[2], env))
    if k == "TSW":
        w = p[2] if p[2] is not None else rng.choice([(3, 1), (2, 2)])
        return ("TSW", _inst_s(rng, p[1], env), w[0], w[1])
    if k == "TSB": return ("TSB", tuple((f, instantiate(rng, q, env)) for f, q in p[1])) + p[2:]
    if k == "TSBvar":
        key = ("ts", p[1])
        if key not in env:
            env[key] = ("TSB", tuple((f, rng.choice(_VLEAVES[:5])) for f in FIELDS[:rng.choice([1, 2])]))
        return env[key]
    if k == "REF": return mk_ref(instantiate(rng, p[1], env))
    raise Bad(str(p))


def _tail_instance(rng, tail, env_fixed):
    """one tail argument: variables of the fixed part keep their choice, the tail's own variables are chosen afresh"""
    return instantiate(rng, tail, dict(env_fixed))


def gen_variadic_case(rng, idx, all_orders=False):
    """a variadic candidate V = f(fixed.., *tail) - flat tails (*~S, *TS[~T], *TS[int], ..) and NESTED generic tails
    (*TSL[~E,~N], *TSD[~K,~V], *TSB[a:~U,..], repeated variables, two levels) - with 0-2 fixed parameters (sometimes
    sharing a variable with the tail), together with competitors whose rank lies close: a bare variable per position,
    V's fixed part + a bare variable per tail position, the exact fixed-arity expansion of V (k copies of the tail
    pattern, with shared or renamed-apart variables), per-position generalisations / concrete leaves, other variadic
    candidates (more generic tail, concrete tail, the SAME tail = a tie, bare fixed part, one more fixed parameter);
    calls with 0..4 tail arguments: homogeneous, heterogeneous, REF-wrapped, one argument of another kind, a plain value"""
    lines = ["case %d" % idx]
    tail = parse_tp(rng.choice(_NESTED_TAILS if rng.random() < 0.68 else _FLAT_TAILS))
    tvars = sorted(n for kk, n in pvars(tail, set()) if kk == "ts" and ("TSBvar", n) != tail[:2])
    nfix = rng.choice([0, 0, 0, 1, 1, 2])
    fixed = []
    for i in range(nfix):
        r = rng.random()
        if r < 0.22 and tvars: fixed.append(("ts", ("var", rng.choice(tvars), ())))       # shared with the tail
        elif r < 0.50: fixed.append(("ts", ("var", "A%d" % i, ())))
        elif r < 0.65: fixed.append(("ts", ("TS", ("svar", "q%d" % i, ()))))
        elif r < 0.78: fixed.append(("ts", ("TS", ("sconc", "int"))))
        elif r < 0.86: fixed.append(("ts", ("TSL", ("var", "A%d" % i, ()), ("szvar", "L%d" % i, ()))))
        elif r < 0.93: fixed.append(("sc", ("sconc", "int")))
        else: fixed.append(("sc", ("svar", "j%d" % i, ())))
    env = {}
    fargs = [(pk, instantiate(rng, q, env)) if pk == "ts" else ("sc", _inst_s(rng, q, env)) for pk, q in fixed]
    fixed_vars = set()
    for _, q in fixed:
        pvars(q, fixed_vars)
    r = rng.random()
    if r < 0.55: out = None
    elif r < 0.90 or not (pvars(tail, set()) - fixed_vars): out = gen_out(rng, fixed) if fixed else ("conc", ("TS", "int"))
    else:       # an output that needs a variable only the TAIL mentions: it can never be produced
        kk, n = sorted(pvars(tail, set()) - fixed_vars)[0]
        out = ("var", n, ()) if kk == "ts" else ("TS", ("svar", n, ())) if kk == "sc" else ("TSL", ("TS", ("sconc", "int")), ("szvar", n, ()))
    ovs = [(fixed + [("vts", tail)], out, "*" if rng.random() < 0.05 else None)]
    ks = sorted(rng.sample([0, 1, 1, 2, 2, 3, 4], rng.choice([2, 3])))
    ks = sorted(set(ks))
    seeds = {k: [_tail_instance(rng, tail, env) for _ in range(k)] for k in ks}
    homog = {}
    for k in ks:
        one = _tail_instance(rng, tail, env)
        homog[k] = [one] * k

    def renamed(i):
        own = pvars(tail, set()) - fixed_vars
        return rename_vars(tail, {key: "%s%d" % (key[1], i) for key in own})
    kinds = ["bare", "bare", "fixed+bare", "expansion", "expansion-apart", "per-position", "per-position", "concrete",
             "v-generic", "v-concrete", "v-same", "v-bare-fixed", "v-one-more-fixed", "v-generalised"]
    want = rng.choice([2, 3, 3, 4, 5])
    attempts = 0
    while len(ovs) < 1 + want and attempts < 40:
        attempts += 1
        kind = rng.choice(kinds)
        k = rng.choice(ks)
        n = nfix + k
        cand_out = None if rng.random() < 0.7 else ("conc", ("TS", "int"))
        if kind == "bare":
            if n == 0: continue
            ps = [("ts", ("var", "P%d" % i, ())) for i in range(n)]
            for i, (pk, q) in enumerate(fixed):
                if pk == "sc": ps[i] = (pk, q)
        elif kind == "fixed+bare":
            if k == 0 and rng.random() < 0.5: continue
            ps = list(fixed) + [("ts", ("var", "Q%d" % i, ())) for i in range(k)]
        elif kind == "expansion":
            ps = list(fixed) + [("ts", tail)] * k
        elif kind == "expansion-apart":
            ps = list(fixed) + [("ts", renamed(i)) for i in range(k)]
        elif kind in ("per-position", "concrete"):
            if k == 0: continue
            src = rng.choice([seeds[k], homog[k]])
            ps = list(fixed)
            for i, c in enumerate(src):
                alts = _leaf_generalisations(rng, strip_refs(c), "g%d" % i)
                ps.append(("ts", ("conc", c) if kind == "concrete" else rng.choice(alts)))
        else:
            t2 = tail
            fx2 = list(fixed)
            if kind == "v-generic": t2 = ("var", "Z", ())
            elif kind == "v-concrete":
                if not ks[-1]: continue
                t2 = ("conc", strip_refs(homog[ks[-1]][0]))
            elif kind == "v-generalised":
                if not ks[-1]: continue
                t2 = rng.choice(_leaf_generalisations(rng, strip_refs(homog[ks[-1]][0]), "h"))
            elif kind == "v-bare-fixed":
                if not fixed: continue
                fx2 = [("ts", ("var", "B%d" % i, ())) if pk == "ts" else (pk, q) for i, (pk, q) in enumerate(fixed)]
            elif kind == "v-one-more-fixed":
                fx2 = list(fixed) + [("ts", renamed(9))]
            ps = fx2 + [("vts", t2)]
        if any(ps == o[0] for o in ovs) and kind != "v-same":
            continue
        ovs.append((ps, cand_out, None))
    ovs = ovs[:6]
    order = list(range(len(ovs)))
    rng.shuffle(order)
    ovs = [ovs[i] for i in order]
    labels = ["A", "B", "C", "D", "E", "F"][:len(ovs)]
    for l, ov in zip(labels, ovs):
        lines.append(show_ov(l, ov))
    if all_orders and len(labels) <= 4:
        import itertools
        perms = [list(q) for q in itertools.permutations(labels)]
    else:
        perms = gen_perms(rng, labels, "quick")
    for q in perms:
        lines.append("perm " + " ".join(q))
    calls = []
    for k in ks:
        calls.append(list(fargs) + [("ts", c) for c in (homog[k] if rng.random() < 0.45 else seeds[k])])
    extra = list(calls[-1])
    r = rng.random()
    if len(extra) > nfix and r < 0.45:           # one tail argument of another kind
        i = rng.randrange(nfix, len(extra))
        extra[i] = mutate_arg(rng, extra[i])
    elif len(extra) > nfix and r < 0.60:         # a plain value in the tail
        i = rng.randrange(nfix, len(extra))
        c = strip_refs(extra[i][1])
        extra[i] = ("sc", c[1] if c[0] == "TS" else rng.choice(SCALARS))
    elif r < 0.80:                               # REF-wrapped
        extra = [(kk, mk_ref(a)) if kk == "ts" and rng.random() < 0.6 else (kk, a) for kk, a in extra]
    elif fargs:                                  # a fixed argument of another kind / too few arguments
        if rng.random() < 0.5:
            extra[rng.randrange(nfix)] = mutate_arg(rng, extra[rng.randrange(nfix)])
        else:
            extra = extra[:nfix - 1]
    else:
        extra = extra + [("ts", _tail_instance(rng, tail, env))]
    if extra not in calls:
        calls.append(extra)
    if rng.random() < 0.5:                       # every other tail length between 0 and 4, heterogeneous
        k = rng.choice([x for x in range(5) if x not in ks] or [1])
        calls.append(list(fargs) + [("ts", _tail_instance(rng, tail, env)) for _ in range(k)])
    for c in calls[:5]:
        lines.append(show_call(c))
    return Case(lines)


def gen_promotion_case(rng, idx):
    """plain VALUES in a variadic tail (promoted to const sources) against candidates that take them as true scalar
    parameters: V = f(fixed.., *tail) with a flat tail, competitors f(fixed.., sc:.., sc:..) over scalar variables /
    concrete scalars (exact or through a numeric coercion) / mixed, and a second variadic candidate; calls with 0..3
    plain values (and one mixed port / value call).  The promotion point decides several of these pairs."""
    lines = ["case %d" % idx]
    s0 = rng.choice(["int", "int", "float", "str"])
    tails = ["=TS[%s]" % s0, "=TS[%s]" % s0, "TS[%s]" % s0, "TS[~T]", "~S", "TS[~T<int|float>]", "REF[TS[%s]]" % s0, "REF[~S]"]
    tail = parse_tp(rng.choice(tails))
    fixed = [("ts", rng.choice([("var", "A0", ()), ("TS", ("sconc", "int")), ("TS", ("svar", "q0", ()))]))] \
        if rng.random() < 0.45 else []
    fargs = [("ts", ("TS", "int"))] * len(fixed)
    ovs = [(fixed + [("vts", tail)], None, None)]
    ks = sorted(set(rng.sample([0, 1, 1, 2, 2, 3], 2)))
    want = rng.choice([2, 3, 4])
    attempts = 0
    while len(ovs) < 1 + want and attempts < 30:
        attempts += 1
        r = rng.random()
        k = rng.choice(ks)
        if r < 0.70:
            ps = list(fixed)
            for i in range(k):
                q = rng.random()
                if q < 0.45: ps.append(("sc", ("svar", "j%d" % i, ())))
                elif q < 0.70: ps.append(("sc", ("sconc", s0)))
                elif q < 0.85: ps.append(("sc", ("sconc", rng.choice(["int", "float", "bool"]))))
                else: ps.append(("sc", ("svar", "j0", ())))           # repeated scalar variable
        elif r < 0.85:
            t2 = parse_tp(rng.choice(tails))
            ps = list(fixed) + [("vts", t2)]
        else:       # one more fixed scalar parameter in front of the same tail
            ps = list(fixed) + [("sc", ("svar", "j9", ())), ("vts", tail)]
        if any(ps == o[0] for o in ovs):
            continue
        ovs.append((ps, None, None))
    rng.shuffle(ovs)
    labels = ["A", "B", "C", "D", "E"][:len(ovs)]
    for l, ov in zip(labels, ovs):
        lines.append(show_ov(l, ov))
    for q in gen_perms(rng, labels, "quick"):
        lines.append("perm " + " ".join(q))
    calls = []
    for k in ks:
        calls.append(list(fargs) + [("sc", s0 if rng.random() < 0.75 else rng.choice(SCALARS)) for _ in range(k)])
    k = ks[-1] or 1
    calls.append(list(fargs) + [("sc", s0) if rng.random() < 0.5 else ("ts", ("TS", s0)) for _ in range(k)])
    calls.append(list(fargs) + [("ts", mk_ref(("TS", s0)) if rng.random() < 0.3 else ("TS", s0)) for _ in range(k)])
    for c in calls[:5]:
        lines.append(show_call(c))
    return Case(lines)


def _var_sites(p, c, acc):
    """the (REF-stripped) argument sub-schemas that the occurrences of every whole-time-series variable / schema variable of
    pattern p are confronted with while p is read against schema c: acc[name] += [(kind, schema)], kind 'var' | 'schema'.
    An independent walk (it binds nothing and compares nothing): REF transparency, TSL element, TSD value, bundle fields"""
    k = p[0]
    if k == "REF":
        return _var_sites(p[1], c[1] if c[0] == "REF" else c, acc)
    c = strip_refs(c)
    if k == "var": acc.setdefault(p[1], []).append(("var", c))
    elif k == "TSBvar":
        if c[0] == "TSB": acc.setdefault(p[1], []).append(("schema", c))
    elif k == "TSL" and c[0] == "TSL": _var_sites(p[1], c[1], acc)
    elif k == "TSD" and c[0] == "TSD": _var_sites(p[2], c[2], acc)
    elif k == "TSB" and c[0] == "TSB":
        for (_, q), (_, d) in zip(p[1], c[1]):
            _var_sites(q, d, acc)
    return acc


def var_sites(params, args):
    """the positions of every whole-time-series / schema variable.  Variadic candidate: the fixed positions, and - for a
    variable the FIXED part mentions - its positions in every tail port too (such a variable is bound once, by the fixed
    part); a variable that only the tail pattern mentions is bound per tail argument and has no common binding"""
    acc = {}
    sp = split_call((params, None, None), args)
    if sp is not None:
        fx, fargs, tail, targs = sp
        for (pk, pat), (ak, a) in zip(fx, fargs):
            if pk == "ts" and ak == "ts":
                _var_sites(pat, a, acc)
        if tail is not None:
            shared = set()
            for _, q in fx:
                pvars(q, shared)
            for ak, a in targs:
                if ak == "ts":
                    for name, sites in _var_sites(tail, a, {}).items():
                        if ("ts", name) in shared:
                            acc.setdefault(name, []).extend(sites)
    return acc


def _names_in(c):
    k = c[0]
    if k == "TSB": return (1 if len(c) == 3 else 0) + sum(_names_in(t) for _, t in c[1])
    if k in ("TSL", "REF"): return _names_in(c[1])
    if k == "TSD": return _names_in(c[2])
    return 0


def site_relation(types):
    """how the types at the positions of one repeated variable relate"""
    if all(t == types[0] for t in types):
        return "one-type" + (":named-bundle" if _names_in(types[0]) else "")
    if all(sequiv(t, types[0]) for t in types):
        return "SAME-FIELDS-" + ("named-vs-un-named" if any(_names_in(t) == 0 for t in types) else "other-name")
    return "different-fields"


_SCHEMAVAR_LISTED = None


def schemavar_listed():
    """[C19-schemavar] is REPORTED (as a monitor failure, which tools/vlib.py then classifies as KNOWN-FINDING) only once
    known_findings.json lists it; until then it is evaluated and counted (feature 'schema-var:bound-to-another-type')"""
    global _SCHEMAVAR_LISTED
    if _SCHEMAVAR_LISTED is None:
        _SCHEMAVAR_LISTED = False
        try:
            import json
            data = json.load(open(os.path.join(os.path.dirname(BUILD), "known_findings.json")))
            for k in data.get("findings", []):
                if k.get("property") == ID and k.get("status") == "known" and re.search(k["fingerprint"], "[C19-schemavar]"):
                    _SCHEMAVAR_LISTED = True
        except Exception:
            pass
    return _SCHEMAVAR_LISTED


_VARSPEC_LISTED = None


def varspec_listed():
    """[C19-varspec] - the rank-free instantiation order ([C19-spec]) read on calls that involve a VARIADIC candidate: the
    selected candidate is a strict generalisation of another matching candidate (the variadic one expanded to the call's
    arity).  Two mechanisms: the one of finding C19-a reached through a tail (*TSB[a:~U,b:~V] against a bare ~S), and one
    of the variadic rank formula itself - the tail pattern is ranked in an accumulator of its own, so a variable it SHARES
    with the fixed part is charged again per tail argument, and the candidate pays the variadic point: f(~T, *~T) ranks
    20001 on two arguments and loses against the strictly more general f(~P, ~Q) (20000), ties with f(~T, *~U).
    Evaluated and counted on every run (features 'variadic:specificity-inversion:*'); REPORTED as a monitor failure only
    once known_findings.json lists a finding of C19 whose fingerprint matches '[C19-varspec]' (as for [C19-schemavar])"""
    global _VARSPEC_LISTED
    if _VARSPEC_LISTED is None:
        _VARSPEC_LISTED = False
        try:
            import json
            data = json.load(open(os.path.join(os.path.dirname(BUILD), "known_findings.json")))
            for k in data.get("findings", []):
                if k.get("property") == ID and k.get("status") == "known" and re.search(k["fingerprint"], "[C19-varspec]"):
                    _VARSPEC_LISTED = True
        except Exception:
            pass
    return _VARSPEC_LISTED


def _bundle_relation(p, c, feats, depth=0):
    """histogram: how the bundles of an argument relate to the field-listing bundle patterns they meet"""
    k = p[0]
    if k == "REF":
        return _bundle_relation(p[1], c[1] if c[0] == "REF" else c, feats, depth)
    c = strip_refs(c)
    if k == "TSL" and c[0] == "TSL": _bundle_relation(p[1], c[1], feats, depth + 1)
    elif k == "TSD" and c[0] == "TSD": _bundle_relation(p[2], c[2], feats, depth + 1)
    elif k == "TSB" and c[0] == "TSB":
        pn, cn = [f for f, _ in p[1]], [f for f, _ in c[1]]
        if pn == cn: rel = "same-fields"
        elif cn[:len(pn)] == pn: rel = "MORE-fields-behind-the-pattern's"
        elif pn[:len(cn)] == cn: rel = "fewer-fields"
        elif sorted(pn) == sorted(cn): rel = "same-fields-other-order"
        else: rel = "other-field-names"
        feats.add("bundle-arg:%s%s" % (rel, ":nested" if depth else ""))
        if len(p) == 3:
            feats.add("bundle-arg:named-pattern-vs-%s" % ("un-named" if len(c) == 2 else "same-name" if c[2] == p[2] else "other-name"))
        if all(q[0] not in ("var", "TSBvar", "SIGNAL") and not pvars(q, set()) for _, q in p[1]):
            feats.add("bundle-pattern:fully-concrete-fields")
        for (f, q), (g, d) in zip(p[1], c[1]):
            if f == g: _bundle_relation(q, d, feats, depth + 1)


def streams(rng, tier, seed):
    n = 900 if tier == "quick" else 12000
    cases = [gen_case(rng, i, tier) for i in range(n)]
    cases += [gen_depth_case(rng, 30000 + i) for i in range(150 if tier == "quick" else 3000)]
    cases += [gen_bundle_case(rng, 40000 + i) for i in range(150 if tier == "quick" else 3000)]
    named = [gen_bundle_case(rng, 50000 + i, named=True) for i in range(80 if tier == "quick" else 1500)]
    named += [gen_repeat_case(rng, 60000 + i) for i in range(170 if tier == "quick" else 4000)]
    # last: the directed cases of finding C19-schemavar (a re-used TSB[~S] schema variable is compared structurally)
    named += [gen_repeat_case(rng, 70000 + i, mode=("schema" if i % 3 else "mixed")) for i in range(30 if tier == "quick" else 600)]
    if tier != "quick":
        cases += exhaustive_cases(n)
    cdir = os.path.join(os.path.dirname(BUILD), "corpus", "C19")
    corpus, spec = [], []
    if os.path.isdir(cdir):
        for f in sorted(os.listdir(cdir)):
            c = Case([l.rstrip("\n") for l in open(os.path.join(cdir, f)) if l.strip()])
            (spec if f.startswith(SPEC_CORPUS) else corpus).append(c)
    spec += [gen_spec_case(rng, 20000 + i) for i in range(12 if tier == "quick" else 150)]
    variadic = [gen_variadic_case(rng, 80000 + i) for i in range(300 if tier == "quick" else 6000)]
    variadic += [gen_promotion_case(rng, 95000 + i) for i in range(40 if tier == "quick" else 800)]
    if tier != "quick":
        variadic += [gen_variadic_case(rng, 90000 + i, all_orders=True) for i in range(600)]
    vcorpus = [c for c in corpus if any(" *ts:" in l for l in c.lines)]
    corpus = [c for c in corpus if c not in vcorpus]
    # HGV_DISPATCH_BIN: a harness linked against a privately mutated copy of a header (mutation-testing
    # the check without forcing a rebuild of the shared tree)
    impl = os.environ.get("HGV_DISPATCH_BIN") or os.path.join(BUILD, "hgv_dispatch")
    # The rank-free specificity check (known finding C19-a) is REPORTED only on the last, directed stream:
    # tools/vlib.py classifies just the first five monitor failures of a run, so known-finding hits must come
    # after every other case or they would crowd out a genuine failure.  On the main stream the same check is
    # evaluated and counted (feature "specificity-inversion") but does not raise.
    return [Stream("dispatch", [impl], model_cmd("C19"), corpus + cases, timeout=1800),
            # families that mix fixed-arity and variadic candidates (flat and nested generic tails, 0..4 tail arguments)
            Stream(VAR_STREAM, [impl], model_cmd("C19"), vcorpus + variadic, timeout=900),
            Stream(SPEC_STREAM, [impl], model_cmd("C19"), spec, timeout=600),
            # named bundles (a bundle type = name + field list): named / un-named field-listing patterns, and a REPEATED
            # whole-time-series variable over bundle types that share their field list
            Stream(BUNDLE_STREAM, [impl], model_cmd("C19"), named, timeout=900)]


# ------------------------------------------------------------------------------------------------
# monitor
# ------------------------------------------------------------------------------------------------
RES = re.compile(r"^(win:(?P<wl>[^:\s]+):(?P<wr>-?\d+) ts\{(?P<ts>[^}]*)\} sc\{(?P<sc>[^}]*)\} sz\{(?P<sz>[^}]*)\} out=(?P<out>\S+)"
                 r"|err:(?P<err>[a-z-]+)) ev=sel:(?P<sel>\S*?);rej:\[(?P<rej>[^\]]*)\];amb:\[(?P<amb>[^\]]*)\]$")


def _split_top(s):
    """split on commas that are not inside brackets"""
    out, depth, cur = [], 0, ""
    for ch in s:
        if ch in "[<{": depth += 1
        if ch in "]>}": depth -= 1
        if ch == "," and depth == 0:
            out.append(cur); cur = ""
        else:
            cur += ch
    if cur:
        out.append(cur)
    return out


def _cands(s):
    out = []
    for item in _split_top(s):
        l, r = item.rsplit(":", 1)
        out.append((l, int(r)))
    return out


def _analyse(case, out):
    """walk one case; returns (violations, feature set, nontrivial?, rank-free specificity violations); the
    [C19-schemavar] notes of the case are left in _analyse.schemavar"""
    bad, feats, spec = [], set(), []
    _analyse.schemavar = sv = []
    _analyse.varspec = []
    nontrivial = False
    family, order, perms, base = {}, [], [], {}
    for ln, o in zip(case.lines, list(out) + ["<none>"] * len(case.lines)):
        w = ln.split()
        if not w:
            continue
        op = w[0]
        if op == "case":
            family, order, perms, base = {}, [], [], {}
            continue
        if o in ("bad-op", "<none>") or o.startswith("<"):
            if o != "bad-op":
                bad.append("no output for line %r (%s)" % (ln, o))
            continue
        try:
            if op == "ov" and o.startswith("ok"):
                family[w[1]] = parse_ov_words(w[2:])
                order.append(w[1])
                _ov_features(family[w[1]], feats)
                try:
                    base[w[1]] = int(o.split()[1])
                except (IndexError, ValueError):
                    bad.append("malformed ov answer %r" % o)
                    continue
                # "more specific ranks lower", the half that holds for every rank table: a candidate whose
                # parameters are another's with variables made concrete must rank strictly below it
                for other in order[:-1]:
                    for a, b in ((w[1], other), (other, w[1])):
                        if family[a][2] is not None or family[b][2] is not None or a not in base or b not in base:
                            continue
                        if is_variadic(family[a]) or is_variadic(family[b]):
                            continue        # the base rank of a variadic candidate leaves its tail pattern out
                        dom = ground_instance(family[a][0], family[b][0])
                        if dom is None or not dom:
                            continue
                        feats.add("family:generic-with-concrete-specialisation")
                        strict = any(k[0] in ("ts", "sc") for k in dom)
                        if base[a] > base[b] or (strict and base[a] == base[b]):
                            bad.append("candidate %s is %s with %s made concrete but ranks %d against %d"
                                       % (a, b, sorted(n for _, n in dom), base[a], base[b]))
            elif op == "perm" and o == "ok":
                perms.append(w[1:])
            elif op == "call":
                args = parse_call_words(w[1:])
                if o == "unsupported":
                    feats.add("call:unsupported-promotion")
                    continue
                if o == "err:other":
                    bad.append("driver failed on %r" % ln)
                    continue
                nt = _check_call(ln, args, o, family, order, perms, bad, feats, spec, sv)
                nontrivial = nontrivial or nt
        except Bad as e:
            bad.append("unparseable line %r / %r: %s" % (ln, o, e))
    feats.add("family-size:%d" % len(order))
    feats.add("orders:%d" % len(perms))
    if spec:
        feats.add("specificity-inversion")
    return bad, feats, nontrivial, spec


def _ov_features(ov, feats):
    params, out, kw = ov
    seen = {}
    for pk, p in params:
        feats.add("param:" + ("scalar" if pk == "sc" else "input"))
        for v in pvars(p, set()):
            seen[v] = seen.get(v, 0) + 1
        _pat_features(p, feats, 0)
    if any(n > 1 for n in seen.values()):
        feats.add("pattern:variable-repeated-across-positions")
    if repeated_at_different_depths(params):
        feats.add("pattern:variable-repeated-at-different-depths")
    if kw is not None:
        feats.add("overload:kwargs-collector")
    if out is None:
        feats.add("overload:no-output")
    if is_variadic(ov):
        tail, fx = tail_pattern(ov), fixed_params(ov)
        feats.add("overload:variadic")
        feats.add("variadic:fixed-params:%d" % len(fx))
        feats.add("variadic-tail:" + tail_class(tail))
        own, shared = pvars(tail, set()), set()
        for _, q in fx:
            pvars(q, shared)
        if own & shared:
            feats.add("variadic-tail:shares-a-variable-with-the-fixed-part")
        if out is not None and pvars(out, set()) & (own - shared):
            feats.add("variadic:output-needs-a-tail-variable")


def tail_class(tail):
    """flat: concrete / bare variable / TS[..] / TSS[..] / SIGNAL (the two rankers of the code agree); nested-generic: a
    variable (time-series, schema or size) inside TSL / TSD / TSB (decay, de-duplication, size surcharge tell them apart)"""
    t = tail
    while t[0] == "REF":
        t = t[1]
    vs = pvars(t, set())
    if t[0] in ("TSL", "TSD", "TSB", "TSBvar", "TSW"):
        if not vs:
            return "nested-concrete"
        occ = []
        _doc_ts(t, DOC_BUDGET_INPUT, occ)
        names = [n for n, _ in occ]
        return "nested-generic" + (":repeated-variable" if len(names) != len(set(names)) else "")
    return "flat-generic" if vs else "flat-concrete"


def _pat_features(p, feats, depth):
    k = p[0]
    if k == "var": feats.add("pattern:ts-var" + ("-constrained" if p[2] else "") + ("-nested" if depth else ""))
    elif k == "svar": feats.add("pattern:scalar-var" + ("-constrained" if p[2] else ""))
    elif k == "sconc": pass
    elif k == "conc": feats.add("pattern:concrete-leaf")
    elif k == "SIGNAL": feats.add("pattern:SIGNAL")
    elif k == "REF": feats.add("pattern:REF"); _pat_features(p[1], feats, depth)
    elif k in ("TS", "TSS"): feats.add("pattern:" + k); _pat_features(p[1], feats, depth + 1)
    elif k == "TSL":
        feats.add("pattern:TSL-" + ("size-var" if p[2][0] == "szvar" else "any-size" if p[2][1] == 0 else "fixed"))
        _pat_features(p[1], feats, depth + 1)
        if depth: feats.add("pattern:nested-collection")
    elif k == "TSD":
        feats.add("pattern:TSD"); _pat_features(p[1], feats, depth + 1); _pat_features(p[2], feats, depth + 1)
        if depth: feats.add("pattern:nested-collection")
    elif k == "TSW": feats.add("pattern:TSW" + ("-any" if p[2] is None else "")); _pat_features(p[1], feats, depth + 1)
    elif k == "TSBvar": feats.add("pattern:TSB-schema-var")
    elif k == "TSB":
        feats.add("pattern:TSB")
        for _, q in p[1]: _pat_features(q, feats, depth + 1)
        if depth: feats.add("pattern:nested-collection")


def _check_call(ln, args, o, family, order, perms, bad, feats, spec, sv=None):
    parts = o.split(" ## ")
    head = parts[0].split()
    if not head or head[0] != "solo":
        bad.append("malformed call output %r" % o[:80])
        return False
    solo = {}
    for item in head[1:]:
        l, v = item.split("=", 1)
        solo[l] = int(v.split(":")[1]) if v.startswith("ok:") else None
    if list(solo) != order:
        bad.append("solo report lists %s, family is %s" % (list(solo), order))
        return False
    eff = {l: expand(family[l], len(args)) for l in order}     # the fixed-arity signature each candidate stands for here
    for l in order:
        sp = split_call(family[l], args)
        if sp is None:
            continue
        fx, fargs, tail, targs = sp
        for (pk, pat), (ak, a) in zip(fx, fargs):
            if pk == "ts" and ak == "ts":
                _bundle_relation(pat, a, feats)
        if tail is not None:
            feats.add("variadic-call:tail-args:%s" % (len(targs) if len(targs) < 4 else "4+"))
            tts = [a for ak, a in targs if ak == "ts"]
            if len({strip_refs(a) for a in tts}) >= 2:
                feats.add("variadic-call:heterogeneous-tail")
            elif len(tts) >= 2:
                feats.add("variadic-call:homogeneous-tail")
            if any(ak == "sc" for ak, _ in targs):
                feats.add("variadic-call:plain-value-in-the-tail")
            for ak, a in targs:
                if ak == "ts":
                    _bundle_relation(tail, a, feats)
    for k, a in args:
        if k == "ts" and a[0] == "REF": feats.add("arg:REF")
        if k == "ts" and a[0] != "REF" and deref(a) != a: feats.add("arg:nested-REF")
        if k == "sc": feats.add("arg:scalar")
    # (1) who matches: the specification's reading of the patterns vs the implementation's
    spec_b = {}
    readings_differ = False
    for l in order:
        ok, b = candidate_matches(family[l], args)
        spec_b[l] = b
        if ok and not candidate_matches(family[l], args, strict=True)[0]:
            # only a re-used TSB[~S] schema variable over bundles that differ in name alone gets here: the unchanged code
            # accepts (finding C19-schemavar), the property's strict reading rejects; the monitor takes either answer
            feats.add("schema-var:readings-differ")
            readings_differ = True
            continue
        if ok != (solo[l] is not None):
            bad.append("%s: candidate %s %s the arguments but the implementation %s it"
                       % (ln, l, "matches" if ok else "does not match", "rejects" if ok else "accepts"))
    surv = {l: r for l, r in solo.items() if r is not None}
    feats.add("survivors:%s" % (len(surv) if len(surv) < 3 else "3+"))
    # a variable REPEATED across positions: how do the types at its positions relate, and is the candidate accepted
    rep_rel = {}
    for l in order:
        for name, sites in var_sites(family[l][0], args).items():
            if len(sites) < 2:
                continue
            kinds = {k for k, _ in sites}
            kind = "schema-var" if kinds == {"schema"} else "ts-var" if kinds == {"var"} else "ts-and-schema-var"
            rel = site_relation([t for _, t in sites])
            rep_rel[l] = rel
            feats.add("repeated-%s:%s:%s" % (kind, rel, "accepted" if solo[l] is not None else "rejected"))
            # the property, read on the implementation's answer alone: a whole-time-series variable that occurs at several
            # positions holds ONE type there (for bundles: same name, same fields), else the candidate must be rejected
            if kind == "ts-var" and solo[l] is not None and rel not in ("one-type", "one-type:named-bundle"):
                bad.append("%s: candidate %s (%s) is accepted although its repeated variable ~%s meets DIFFERENT types at its "
                           "positions (%s): %s" % (ln, l, show_params(family[l][0]), name, rel,
                                                   " vs ".join(show_ct(t) for _, t in sites)))
    # the documented rank of every matching candidate (None: the documentation does not decide this call)
    doc_iv = None
    if not readings_differ and all(candidate_matches(family[l], args)[0] == (solo[l] is not None) for l in order) \
            and not any(doc_name_clash(family[l][0]) for l in surv):
        doc_iv = {l: doc_call_rank(family[l], args) for l in surv}
    # (2) what the outcome must be, from the candidates' own reported ranks
    if not surv:
        want = ("err", "no-match")
    else:
        mn = min(surv.values())
        tied = sorted(l for l, r in surv.items() if r == mn)
        want = ("win", tied[0]) if len(tied) == 1 else ("err", "ambiguous")
    feats.add("outcome:" + (want[1] if want[0] == "err" else "winner"))
    if len(surv) >= 2:
        feats.add("critical-pair" + (":tie" if want == ("err", "ambiguous") else ""))
    results = parts[1:]
    if len(results) != len(perms):
        bad.append("%d results for %d registration orders" % (len(results), len(perms)))
    first = None
    for pi, res in enumerate(results):
        m = RES.match(res)
        if not m:
            bad.append("malformed result %r" % res[:80])
            continue
        members = perms[pi] if pi < len(perms) else order
        msurv = {l: r for l, r in surv.items() if l in members}
        if set(members) == set(order):
            if first is None:
                first = res
            elif res != first:
                bad.append("%s: outcome depends on registration order: [%s] vs [%s]" % (ln, first[:120], res[:120]))
        # expected outcome for the overloads registered in this order
        if not msurv:
            pw = ("err", "no-match")
        else:
            mn = min(msurv.values())
            tied = sorted(l for l, r in msurv.items() if r == mn)
            pw = ("win", tied[0]) if len(tied) == 1 else ("err", "ambiguous")
        rej = _cands(m.group("rej"))
        amb = _cands(m.group("amb"))
        if m.group("err"):
            got = ("err", m.group("err"))
        else:
            got = ("win", m.group("wl"))
        # rank-free specificity: if A and B both match and A's parameter patterns are a substitution instance of
        # B's (not vice versa), B must not be selected (A, or an ambiguity error, is acceptable)
        if got[0] == "win" and got[1] in family and eff.get(got[1]) is not None:
            for l in members:
                if l != got[1] and l in msurv and l in family and eff.get(l) is not None \
                        and strictly_more_specific(eff[l], eff[got[1]]):
                    if is_variadic(family[l]) or is_variadic(family[got[1]]):
                        # through a variadic candidate: its own tag (see varspec_listed); `l` is more specific in THIS
                        # call - its tail pattern stands once per supplied tail argument
                        dl, dw = doc_rank(eff[l][0]), doc_rank(eff[got[1]][0])
                        feats.add("variadic:specificity-inversion:" +
                                  ("shared-variable-charged-per-tail-argument" if dl < dw     # as fixed arity it would win
                                   else "variadic-point-breaks-a-tie" if dl == dw
                                   else "structure-outweighs-the-variable-budget"))           # C19-a, through a tail
                        msg = ("[C19-varspec] %s: selected %s although the more specific %s also matches (as a fixed-arity "
                               "signature for this call it is %s, documented rank %d against %d)"
                               % (ln, show_params(family[got[1]][0]), show_params(family[l][0]), show_params(eff[l][0]),
                                  doc_rank(eff[l][0]), doc_rank(eff[got[1]][0])))
                        if msg not in _analyse.varspec:
                            _analyse.varspec.append(msg)
                        continue
                    msg = ("[C19-spec] selected %s although the more specific %s also matches (call %s)"
                           % (show_params(family[got[1]][0]), show_params(family[l][0]), ln[5:]))
                    if msg not in spec:
                        spec.append(msg)
        if doc_iv is not None and len(msurv) >= 2:
            _check_docrank(ln, got, {l: doc_iv[l] for l in msurv}, family, bad, feats, eff)
        if got != pw:
            if pw == ("err", "ambiguous"):
                bad.append("%s: best rank %d is shared by %s, expected an ambiguity error, got %s" % (ln, mn, tied, got[1]))
            elif pw == ("err", "no-match"):
                bad.append("%s: no candidate matches, expected a resolution error, got %s" % (ln, got[1]))
            else:
                bad.append("%s: %s is the unique matching candidate of least rank %d (ranks %s), got %s"
                           % (ln, pw[1], mn, msurv, got[1]))
            continue
        if sorted(l for l, _ in rej) != sorted(l for l in members if l not in msurv):
            bad.append("%s: event lists rejected %s, non-matching candidates are %s"
                       % (ln, sorted(l for l, _ in rej), sorted(l for l in members if l not in msurv)))
        if got[0] == "err":
            if m.group("sel") != "-":
                bad.append("%s: error outcome but the event has a selected candidate" % ln)
            if got[1] == "ambiguous" and sorted(amb) != sorted((l, mn) for l in tied):
                bad.append("%s: ambiguous set %s, tied candidates are %s at rank %d" % (ln, amb, tied, mn))
            continue
        # a winner: rank is the strict minimum, the event agrees, the bindings really match, output = substitution
        wl, wr = m.group("wl"), int(m.group("wr"))
        if m.group("sel") != "%s:%d" % (wl, wr):
            bad.append("%s: returned %s:%d but the event selected %s" % (ln, wl, wr, m.group("sel")))
        if wr != msurv[wl]:
            bad.append("%s: winner rank %d differs from the candidate's own rank %d" % (ln, wr, msurv[wl]))
        for l, r in msurv.items():
            if l != wl and not wr < r:
                bad.append("%s: winner %s rank %d is not strictly below %s rank %d" % (ln, wl, wr, l, r))
        b = {}
        try:
            for item in _split_top(m.group("ts")):
                n, v = item.split("=", 1)
                if ("ts", n) in b: bad.append("%s: variable %s bound twice" % (ln, n))
                b[("ts", n)] = parse_ct(v)
            for item in _split_top(m.group("sc")):
                n, v = item.split("=", 1)
                if ("sc", n) in b: bad.append("%s: variable %s bound twice" % (ln, n))
                b[("sc", n)] = v
            for item in _split_top(m.group("sz")):
                n, v = item.split("=", 1)
                if ("sz", n) in b: bad.append("%s: variable %s bound twice" % (ln, n))
                b[("sz", n)] = int(v)
        except (Bad, ValueError) as e:
            bad.append("%s: unparseable bindings (%s)" % (ln, e))
            continue
        params, outp, _ = family[wl]
        sp = split_call(family[wl], args)
        if sp is None:
            bad.append("%s: winner %s has %d %sparameters for %d arguments"
                       % (ln, wl, len(fixed_params(family[wl])), "fixed " if is_variadic(family[wl]) else "", len(args)))
            continue
        fx, fargs, tail, targs = sp
        for name, sites in var_sites(params, args).items():
            bound = b.get(("ts", name))
            for kind, t in sites:
                if bound is None or t == bound:
                    continue
                if kind == "var":
                    bad.append("%s: winner %s binds ~%s to %s but a position of ~%s holds %s (%s): every type variable must be "
                               "bound to ONE type across all positions"
                               % (ln, wl, name, show_ct(bound), name, show_ct(t),
                                  "a different type with the same field list" if sequiv(t, bound) else "different fields"))
                elif not sequiv(t, bound):
                    bad.append("%s: winner %s binds the schema variable ~%s to %s but a position holds %s (other fields)"
                               % (ln, wl, name, show_ct(bound), show_ct(t)))
                else:
                    feats.add("schema-var:bound-to-another-type")
                    msg = ("[C19-schemavar] %s: winner %s (%s) binds the schema variable ~%s to %s although a position of TSB[~%s] "
                           "holds the different type %s (same field list, compared with time_series_schema_equivalent)"
                           % (ln, wl, show_params(params), name, show_ct(bound), name, show_ct(t)))
                    if sv is not None and msg not in sv:
                        sv.append(msg)
        for i, ((pk, pat), (ak, a)) in enumerate(zip(fx, fargs)):
            need = pvars(pat, set())
            if not need <= set(b):
                bad.append("%s: winner %s leaves %s of parameter %d unbound" % (ln, wl, sorted(need - set(b)), i))
                continue
            b2 = dict(b)
            if pk == "ts":
                ok = ak == "ts" and pmatch(pat, a, b2)
            elif pat[0] == "sconc":
                ok = ak == "sc" and (pat[1] == a or (pat[1] in NUMERIC and a in NUMERIC))
            else:
                ok = ak == "sc" and smatch(pat, a, b2)
            if not ok or b2 != b:
                bad.append("%s: under the reported bindings parameter %d of %s (%s) does not accept %s"
                           % (ln, i, wl, show_tp(pat) if pk == "ts" else show_sp(pat), a if ak == "sc" else show_ct(a)))
        if tail is not None:
            # a variadic winner: its bindings are those of the FIXED part - no variable that only the tail pattern mentions
            # may appear among them - and EVERY tail argument is, on its own, an instance of the tail pattern under some
            # extension of them
            fixed_vars = set()
            for _, q in fx:
                pvars(q, fixed_vars)
            leaked = sorted(set(b) - fixed_vars)
            if leaked:
                bad.append("%s: variadic winner %s (%s) reports bindings for %s, which its fixed parameters do not mention: "
                           "tail arguments are matched independently and must not bind type variables"
                           % (ln, wl, show_params(params), ["~" + n for _, n in leaked]))
            for i, arg in enumerate(targs):
                ok, _scope = tail_arg_matches(tail, arg, b)
                if not ok:
                    bad.append("%s: under the reported bindings the tail pattern *%s of %s does not accept tail argument %d (%s)"
                               % (ln, show_tp(tail), wl, i, arg[1] if arg[0] == "sc" else show_ct(arg[1])))
            feats.add("variadic-winner:%s-tail-args" % (len(targs) if len(targs) < 4 else "4+"))
        if outp is None:
            if m.group("out") != "-":
                bad.append("%s: sink candidate reports an output" % ln)
        else:
            d = psubst(outp, b)
            if d is None or show_ct(d) != m.group("out"):
                bad.append("%s: output %s is not the substitution of the bindings into %s (= %s)"
                           % (ln, m.group("out"), show_tp(outp), "unresolved" if d is None else show_ct(d)))
    return len(surv) >= 2


def _check_docrank(ln, got, iv, family, bad, feats, eff=None):
    """[C19-docrank]: the outcome of one resolution against the DOCUMENTED rank of the matching candidates.
    iv: label -> (lo, hi) bracket of the documented rank (lo == hi unless an undocumented adjustment applies).
    Only what holds for every value inside the brackets is demanded."""
    def desc(l):
        lo, hi = iv[l]
        txt = doc_rank_text(family[l][0])
        if lo != hi or is_variadic(family[l]) or lo != doc_rank(family[l][0]):
            txt += "; in this call %s" % (lo if lo == hi else "%s..%s" % (lo, hi))
        return "%s (%s, documented rank %s)" % (l, show_params(family[l][0]), txt)

    sig = eff if eff is not None else family      # variadic candidates: the signature they stand for in this call

    def more_specific(a, b):
        return sig.get(a) is not None and sig.get(b) is not None and strictly_more_specific(sig[a], sig[b])

    def instance_note(a, b):
        if more_specific(a, b):
            return "; %s is moreover a strict substitution instance of %s" % (a, b)
        return ""
    labels = sorted(iv)
    # the candidate the documentation makes the unique most specific one, if the brackets decide it
    best = [c for c in labels if all(iv[c][1] < iv[d][0] for d in labels if d != c)]
    low = min(lo for lo, _ in iv.values())
    tied = [c for c in labels if iv[c] == (low, low)]
    if best:
        feats.add("docrank:decides-winner")
        for d in labels:
            if d != best[0] and more_specific(d, best[0]):
                feats.add("docrank:disagrees-with-instantiation")      # the C19-a zone, reported by [C19-spec] only
            if d != best[0] and more_specific(best[0], d):
                feats.add("docrank:agrees-with-instantiation")
            if is_variadic(family[best[0]]) != is_variadic(family[d]):
                feats.add("docrank:decides-variadic-vs-fixed:%s-wins" % ("variadic" if is_variadic(family[best[0]]) else "fixed"))
    elif len(tied) >= 2:
        feats.add("docrank:decides-tie")
    else:
        feats.add("docrank:undetermined")
    msg = None
    if got[0] == "win" and got[1] in iv:
        w = got[1]
        better = [d for d in labels if d != w and iv[d][1] <= iv[w][0]]
        if better:
            d = min(better, key=lambda x: iv[x])
            if iv[d][1] < iv[w][0]:
                msg = ("[C19-docrank] %s: selected %s although %s also matches and is documented as more specific%s"
                       % (ln, desc(w), desc(d), instance_note(d, w)))
            else:
                msg = ("[C19-docrank] %s: selected %s although %s also matches at the same documented rank: "
                       "expected an ambiguity error" % (ln, desc(w), desc(d)))
    elif got == ("err", "ambiguous") and best:
        c = best[0]
        others = ", ".join(desc(d) for d in labels if d != c)
        msg = ("[C19-docrank] %s: ambiguity error although %s has the strictly smallest documented rank among the "
               "matching candidates (%s)" % (ln, desc(c), others))
    if msg is not None and msg not in bad:
        bad.append(msg)


def monitor(stream, case, out):
    bad, _, _, spec = _analyse(case, out)
    if bad:                      # anything else wrong comes first and alone: it must never be taken for the known finding
        return bad[:3]
    if stream == BUNDLE_STREAM and _analyse.schemavar and schemavar_listed():
        return _analyse.schemavar[:3]
    if stream == VAR_STREAM and _analyse.varspec and varspec_listed():
        return _analyse.varspec[:3]
    return spec[:3] if stream == SPEC_STREAM else []


def features(stream, case, out):
    return sorted(_analyse(case, out)[1])


def nontrivial(stream, case, out):
    return _analyse(case, out)[2]


# ------------------------------------------------------------------------------------------------
# which model/implementation differences are observable
# ------------------------------------------------------------------------------------------------
_RANK = re.compile(r"(?<=:)-?\d+")


def _norm(line):
    if line.startswith("ok "):
        return "ok #"
    return _RANK.sub("#", line)


def _solo_ranks(line):
    head = line.split(" ## ")[0].split()
    out = {}
    for item in head[1:]:
        l, v = item.split("=", 1)
        out[l] = int(v.split(":")[1]) if v.startswith("ok:") else None
    return out


def alarm_filter(stream, case, impl_out, model_out):
    """Numeric ranks are internal: a difference in numbers alone is model-internal drift as long as
    every pair of matching candidates is ordered (or tied) the same way on both sides."""
    if len(impl_out) != len(model_out):
        return True, []
    notes = []
    for ln, a, b in zip(case.lines, impl_out, model_out):
        if a == b:
            continue
        if _norm(a) != _norm(b):
            return True, []
        if a.startswith("solo"):
            ra, rb = _solo_ranks(a), _solo_ranks(b)
            ls = [l for l in ra if ra[l] is not None and rb.get(l) is not None]
            for i, x in enumerate(ls):
                for y in ls[i + 1:]:
                    sa = (ra[x] > ra[y]) - (ra[x] < ra[y])
                    sb = (rb[x] > rb[y]) - (rb[x] < rb[y])
                    if sa != sb:
                        return True, []
        notes.append("rank numbers differ on %r" % ln[:60])
    return False, notes
