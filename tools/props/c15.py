"""C15 - captured errors tick once, where they happen, and do not disturb the rest."""
import engine_common as ec
import engine_plugin as ep
import os
import c10 as mp
from vlib import Stream, BUILD, model_cmd

ID = "C15"
LEAN_MODULES = ["HgVerif.Props.NestFlowCor", "HgVerif.Props.C15", "HgVerif.Props.C02Fail", "HgVerif.Props.C15Flow", "HgVerif.Props.C15Run", "HgVerif.Props.C10", "HgVerif.Model.Engine", "HgVerif.Model.Extracted"]
THEOREMS = ["HgVerif.NestFlow.nested_noninterference", "HgVerif.Tie.tie_resumeChecksFailed", "HgVerif.Sched.failed_cycle_restarts", "HgVerif.Sched.stale_cursor_skips_prefix",
            "HgVerif.Sched.fresh_cycle_scans_all", "HgVerif.Sched.armed_wakeup_survives_failure", "HgVerif.Tie.tie_failKeepsWakeups", "HgVerif.Flow.sol_agree_on", "HgVerif.Flow.cycle_noninterference", "HgVerif.Flow.idle_cycle_keeps", "HgVerif.Flow.no_due_no_fire", "HgVerif.Flow.solo_cycle_keeps", "HgVerif.Flow.due_forces", "HgVerif.Flow.run_noninterference", "HgVerif.Flow.streams_noninterference", "HgVerif.Flow.simLoop_proj", "HgVerif.Flow.logF_transparent", "HgVerif.MapNode.map_error_keyed", "HgVerif.Sched.fresh_when_cursor_zero", "HgVerif.Sched.stale_cursor_witness"]
CXX_TARGETS = ["hgv_engine", "hgv_map"]
USES_EXTRACT = True
RULE = ("generated programs with a capturing node (exception_time_series) or a try_except-wrapped chain sub-graph whose "
        "thrower fails on a random set of its evaluations (first, consecutive, later), failing node at child index 0 and > 0, "
        "plus an independent branch; wrapped two-branch sub-graphs whose result does not depend on the thrower, read by an outside sampler woken by an unrelated input; non-trivial = at least one captured failure and a later cycle; distinct by program text")
TRUSTED = ["harness vocabulary nodes (TS[int]) stand for arbitrary nodes; map_ keyed error capture is exercised by the C10 check"]
ASSUMPTIONS = ["inside a try_except-wrapped sub-graph, nodes ranked after the failing node are part of the failing unit for that cycle"]
TECHNIQUE = ("Lean 4 proof about the graph scan's cursor/resume rule (a failed evaluation restarts from node 0; counter-lemma for "
             "the pre-fix rule) + translator tie on the resume predicate + differential correspondence of the engine model against "
             "the compiled runtime, with a denotational reference monitor")
LEVEL_TEXT = ("Kernel-checked: after a failed (captured) evaluation the next evaluation of that graph is a fresh full scan "
              "(later_cycles_normal), for arbitrary node behaviours; the pre-fix rule provably skips the prefix (witness); the wake-ups "
              "pending beside the failing node survive (armed_wakeup_survives_failure, after fix F5). Non-interference for flat "
              "dataflows with arbitrary node functions: whatever the nodes outside a producer-closed set U compute (fail, succeed, "
              "schedule), every node of U ends each cycle with the same state and the same schedule slot, and a cycle it does not take "
              "part in is invisible to it (cycle_noninterference, idle_cycle_keeps). RUN LEVEL (Props/C15Run.lean): over whole simulation runs of two programs that agree on U - which in general make DIFFERENT cycles, the failing node may lose or cause wake-ups - every node of U ends with the same state (run_noninterference, a two-sided stuttering argument: cycles without a due node of U are invisible to U, wake-ups of U are never skipped by either run) and, since the state type is arbitrary, has produced the same whole stream of (time, value) evaluations (streams_noninterference; the logging instrumentation is proved transparent: logF_transparent). The executable "
              "engine model (same Sched.cycle definition) is compared trace-for-trace with the real runtime on generated "
              "programs, and every implementation trace is checked against a dataflow reading that demands one error tick in "
              "the failing cycle, undisturbed independent streams and normal later cycles."
              ' Wrapped sub-graphs whose result does not depend on the thrower, read by an outside sampler woken by an unrelated input, are part of the generated programs (the independent result of the failing cycle must arrive and stay readable).'
              ' Through nested graphs (Props/NestFlowCor.lean): for a producer-closed set U of nodes spanning any levels of a chain of nested flat dataflows, replacing the node functions outside U (even nested differently) leaves the state and schedule slot of every node of U after a cycle unchanged (nested_noninterference).')
LEVEL_NOTE = ("Trusted: Lean kernel + standard axioms; hand-written engine model (tied by correspondence); the Python "
              "reference monitor. map_ per-key capture is not part of this check's generator.")


def streams(rng, tier, seed):
    n = 120 if tier == "quick" else 3000
    progs = [ec.gen_try(rng, "try" if i % 3 else "errts") for i in range(n)]
    progs += [ec.gen_sched_capture(rng) for _ in range(n // 2)]     # capturing nodes that own a scheduler
    progs += [ec.gen_try_sched(rng) for _ in range(n // 2)]         # wake-ups pending beside a failing node in a wrapped sub-graph
    progs += [ec.gen_try_indep(rng) for _ in range(n // 2)]         # an independent result branch beside the thrower + an outside sampler of `out`
    # "in a keyed map an error in one key's child is reported under that key only": the map_ harness of C10 with
    # children that throw (several keys failing in one cycle, failures next to removals, recovery)
    nm = 80 if tier == "quick" else 2000
    mcases = [mp.gen_case(rng, 700000 + i, tier, rng.choice(["neg", "neg", "negecho", "eguard", "eguard"])) for i in range(nm)]
    return [ec.engine_stream("engine-capture", progs),
            Stream("map-keyed-errors", [os.path.join(BUILD, "hgv_map")], model_cmd("C10"), mcases, timeout=3000)]


_mon = ep.monitor_for(ID)


def monitor(stream, case, out):
    if stream == "map-keyed-errors":
        return mp.monitor(stream, case, out)
    # a captured failure must not disturb the failing node's own later wake-ups either:
    # for capture programs every deviation from the dataflow reading belongs to C15
    dev, _ = ep.deviations(case, out)
    return ["[%s] %s" % (c, m) for c, m in dev if c in ("error", "times", "userrun", "result")][:3]
def features(stream, case, out):
    return mp.features(stream, case, out) if stream == "map-keyed-errors" else ep.features(stream, case, out)


def alarm_filter(stream, case, impl_out, model_out):
    if stream == "map-keyed-errors":
        return mp.alarm_filter(stream, case, impl_out, model_out)
    return ep.alarm_filter(stream, case, impl_out, model_out)


def nontrivial(stream, case, out):
    if stream == "map-keyed-errors":
        return mp.nontrivial(stream, case, out)
    return " X " in " " + ec.trace_of(out) and ep.nontrivial(stream, case, out)


def valid_case(stream, case, impl_out, model_out):
    if stream == "map-keyed-errors":
        f = getattr(mp, "valid_case", None)
        return f(stream, case, impl_out, model_out) if f else True
    return ep.valid_case(stream, case, impl_out, model_out)
