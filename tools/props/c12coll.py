"""C12 (collection-output stream) - a switch_ whose output is a TSS / TSD follows only the branch instance selected by
the current key: after every cycle the output holds exactly what the running instance alone has published since it
was activated (nothing of an earlier instance survives, also when the new instance is built from the same branch:
reload_on_ticked re-tick of an unchanged key, two unmatched keys served by the default branch), the delta of the
cycle is exactly old value -> new value, and a same-key tick without reload keeps the running instance.

Meant to be merged into tools/props/c12.py the way c14.py merges c14dyn.py:
    streams += coll.streams(...); monitor/features/nontrivial/alarm_filter/valid_case dispatch on
    stream.startswith("switchcoll"); LEAN_MODULES += coll.LEAN_MODULES; THEOREMS += coll.THEOREMS;
    CXX_TARGETS += coll.CXX_TARGETS."""
import os
import re
from vlib import Case, Stream, BUILD, VERIF, model_cmd

ID = "C12COLL"
LEAN_MODULES = ["HgVerif.Props.C12Coll"]
THEOREMS = [
    "HgVerif.SwitchColl.marks_reachable",
    "HgVerif.SwitchColl.value_refines",
    "HgVerif.SwitchColl.cycle_delta_exact",
    "HgVerif.SwitchColl.output_is_selected_instance_alone",
    "HgVerif.SwitchColl.run_delta_exact",
    "HgVerif.SwitchColl.activation_resets",
    "HgVerif.SwitchColl.reload_same_key_resets",
    "HgVerif.SwitchColl.default_key_change_resets",
    "HgVerif.SwitchColl.stale_elements_removed",
    "HgVerif.SwitchColl.written_of_nonempty",
    "HgVerif.SwitchColl.unwritten_output_untouched",
    "HgVerif.SwitchColl.prefix_reset_validates_unwritten_output",
    "HgVerif.SwitchColl.reactivation_ignores_history",
    "HgVerif.SwitchColl.same_key_tick_keeps",
    "HgVerif.SwitchColl.segment_is_solo_run",
]
CXX_TARGETS = ["hgv_switchcoll"]
RULE = ("switchcoll stream: key/input histories replayed into a REAL graph replay(key: TS<int>), replay(x: TS<int>) -> "
        "switch_({k: branch, ...}[, default][.reload()], x) -> consumer whose switch-owned output is a TSS<int> or a "
        "TSD<int, TS<int>>; branches from a vocabulary of 8 (accumulating, negating, stateful add-and-remove window, "
        "stateful re-publishing counter, conditional publisher that may publish nothing, fixed set published at start "
        "then erased from, key-consuming, clear-and-set); scenarios reload same-key re-ticks, several unmatched keys on "
        "the default branch, A->B->A, key ticks in consecutive cycles, quiet stretches, unmatched key without default; a "
        "case is non-trivial when an instance is replaced while the output holds elements (the reset is observable) or "
        "it fails on an unmatched key after an activation; distinct by sha1 of the case body")
TRUSTED = ["the slot table behind the per-cycle added/removed/modified marks of a TSS/TSD (slot reuse, pending erase) is "
           "taken from C05 (Model/Slots.lean); here keys stand for their slots",
           "replay nodes, the consumer's target link and the child graph's own node scheduling are taken as given "
           "(C01-C03, C13, C20); the harness reads the switch node's output through its public output view after every "
           "root evaluation"]
ASSUMPTIONS = ["ordinary output path of switch_ (output_forwards_to_child_terminal = false: every branch terminal is a "
               "plain node output that writes into the switch-owned output); REF-shaped outputs and preserved "
               "structural terminals (TSB/TSL forwarding trees) are not exercised",
               "replacing an instance clears a written (valid) switch output by a mutation call, so the output ticks in that "
               "cycle even when it was already empty and the new instance publishes nothing (a tick with an empty delta; "
               "value and validity unchanged): accepted by the monitor as coherent with old value -> new value; an output "
               "that was never written must stay untouched (/repo 98c6672)",
               "one time-series argument, integer keys, single-node branches (self-scheduling branches, several inputs, "
               "sub-graph branches and the A/B slot bookkeeping are covered by the scalar stream of C12)"]

TECHNIQUE = ("collection outputs: Lean 4 proof over a model of the switch-owned TSS/TSD at the level of its per-cycle "
             "added/removed/modified marks, with branches as arbitrary functions from (state, key, input) to element "
             "operations: refinement of the collection to a finite map, an invariant (marks = function of value and "
             "window-start value) over every reachable state, and a ghost fold of the running instance's own operations; "
             "tied to the code by differential correspondence against a real switch_ graph with TSS/TSD outputs and an "
             "independent Python reference (the selected instance alone, writing into a collection of its own)")
LEVEL_TEXT = ("Collection outputs (TSS/TSD), kernel-checked for ARBITRARY branch behaviours, any case table / default / reload "
              "flag and ALL key/input histories: after every cycle the value of the switch output is the fold, over the empty "
              "collection, of the operations the running instance alone has published since its activation (nothing of an "
              "earlier instance survives, also when the new instance is built from the same branch: reload re-tick of an "
              "unchanged key, two unmatched keys on the default branch); every cycle either leaves the output untouched "
              "without a tick or ticks with added = keys new to the value, removed = keys gone from it, modified items among "
              "the new items and no silent value change; replacing an instance always ticks and reports every stale key "
              "removed, while a never-written output is left untouched (the pre-repair rule is kept with a kernel-checked "
              "counter-witness); a same-key tick without reload is an ordinary evaluation cycle; the instance after an activation and "
              "any non-activating cycles is the branch run alone from its initial state.")

SC = [os.path.join(BUILD, "hgv_switchcoll")]
VOC = ["acc", "neg", "win", "cnt", "evens", "fixed", "kacc", "last"]
KEYPOOL = [1, 2, 3, 5, -4, 0, 7]
STRAY = [9, -1, 11, 4, 6]


# ------------------------------------------------------------------ generator

def _x(rng):
    return rng.choice([rng.randint(0, 5), rng.randint(-3, 6), rng.randint(0, 3), rng.randint(-9, 12)])


def gen_case(rng, idx, tier):
    shape = rng.choice(["tss", "tsd"])
    scenario = rng.choice(["reload", "reload", "default", "default", "aba", "rapid", "quiet", "mix", "mix", "unmatched"])
    reload = 1 if scenario == "reload" or (scenario != "default" and rng.random() < 0.35) else 0
    nkeys = rng.choice([1, 2, 2, 3]) if scenario != "default" else rng.choice([0, 1, 1, 2])
    keys = rng.sample(KEYPOOL, nkeys)
    cases = [(k, rng.choice(VOC)) for k in keys]
    if scenario == "default" or (scenario != "unmatched" and rng.random() < 0.35):
        dflt = rng.choice(VOC)
    else:
        dflt = "-"
    if not cases and dflt == "-":
        dflt = "acc"
    cfg = "cfg %s %d %s %s" % (shape, reload, dflt, " ".join("%d=%s" % kb for kb in cases))
    ncyc = rng.randint(5, 14) if tier == "quick" else rng.randint(6, 30)
    lines = []
    cur = [None]

    def cyc(k=None, x=None):
        w = ["c"]
        if k is not None:
            w += ["k", str(k)]
            cur[0] = k
        if x is not None:
            w += ["x", str(x)]
        lines.append(" ".join(w))

    def maybe(p):
        return _x(rng) if rng.random() < p else None

    def other_key():
        c = [k for k in keys if k != cur[0]]
        return rng.choice(c) if c else (keys[0] if keys else rng.choice(STRAY))

    def stray():
        c = [k for k in STRAY if k != cur[0]]
        return rng.choice(c)

    if rng.random() < 0.8:
        cyc(None, _x(rng))                       # x valid before the first key
    while len(lines) < ncyc:
        r = rng.random()
        if scenario == "reload":
            if cur[0] is None or r < 0.15:
                cyc(other_key(), maybe(0.4))
            elif r < 0.5:
                cyc(cur[0], maybe(0.5))          # the same key again: a new instance of the same branch
            else:
                cyc(None, maybe(0.9))
        elif scenario == "default":
            if cur[0] is None or r < 0.35:
                cyc(stray(), maybe(0.4))         # another unmatched key: the default branch again
            elif r < 0.45 and keys:
                cyc(other_key(), maybe(0.4))
            elif r < 0.55:
                cyc(cur[0], maybe(0.4))
            else:
                cyc(None, maybe(0.9))
        elif scenario == "aba":
            a = cur[0] if cur[0] is not None else (keys[0] if keys else stray())
            cyc(a, maybe(0.6))
            for _ in range(rng.randint(0, 2)):
                cyc(None, _x(rng))
            cyc(other_key() if len(keys) > 1 or dflt == "-" else stray(), maybe(0.4))
            for _ in range(rng.randint(0, 2)):
                cyc(None, _x(rng))
            cyc(a, maybe(0.4))
            cyc(None, maybe(0.8))
        elif scenario == "rapid":
            if r < 0.7:
                cyc(rng.choice([other_key(), other_key(), cur[0] if cur[0] is not None else other_key(),
                                stray() if dflt != "-" else other_key()]), maybe(0.4))
            else:
                cyc(None, maybe(0.8))
        elif scenario == "quiet":
            if cur[0] is None or r < 0.2:
                cyc(other_key(), maybe(0.5))
            elif r < 0.5:
                cyc()
            else:
                cyc(None, maybe(0.9))
        elif scenario == "unmatched":
            if cur[0] is None or r < 0.3:
                cyc(other_key(), maybe(0.5))
            elif r < 0.45 and len(lines) >= 3:
                cyc(stray(), maybe(0.4))
            else:
                cyc(None, maybe(0.9))
        else:
            if cur[0] is None or r < 0.3:
                cyc(other_key(), maybe(0.4))
            elif r < 0.42:
                cyc(cur[0], maybe(0.4))
            elif r < 0.5 and dflt != "-":
                cyc(stray(), maybe(0.4))
            elif r < 0.58:
                cyc()
            else:
                cyc(None, maybe(0.85))
    return Case(["case %d" % idx, cfg] + lines + ["run"])


def exhaustive_small(tier):
    """thorough only: every history of length <= 5 over {key a, key b, stray key, no key} x {x tick, no tick} for a few
    fixed tables: all re-ticks / flips / returns / default-to-default changes at small scope."""
    if tier == "quick":
        return []
    import itertools
    cases, idx = [], 900000
    for cfg in ("cfg tss 1 - 1=acc 2=cnt", "cfg tsd 1 - 1=cnt 2=fixed", "cfg tss 0 acc 1=evens", "cfg tsd 0 kacc 1=last"):
        for L in range(1, 6):
            for seq in itertools.product(range(8), repeat=L):
                lines = []
                for n, s in enumerate(seq):
                    k = [None, 1, 2, 9 + (n % 2)][s % 4]
                    w = ["c"] + (["k", str(k)] if k is not None else []) + (["x", str(2 + n)] if s >= 4 else [])
                    lines.append(" ".join(w))
                idx += 1
                cases.append(Case(["case %d" % idx, cfg, "c x 1"] + lines + ["run"]))
    return cases


def corpus():
    d = os.path.join(VERIF, "corpus", "C12COLL")
    out = []
    if os.path.isdir(d):
        for f in sorted(os.listdir(d)):
            cur = None
            for l in open(os.path.join(d, f)):
                l = l.rstrip("\n")
                if not l.strip():
                    continue
                if l.startswith("case "):
                    cur = [l]
                    out.append(cur)
                elif cur is not None:
                    cur.append(l)
    return [Case(c, {"corpus": True}) for c in out]


def streams(rng, tier, seed):
    n = 500 if tier == "quick" else 15000
    cases = [gen_case(rng, 500000 + i, tier) for i in range(n)] + exhaustive_small(tier)
    return [Stream("switchcoll", SC, model_cmd("C12Coll"), corpus() + cases, timeout=3000)]


# ------------------------------------------------------------------ the reference: plain-Python branch functions

def _ops(branch, st, key, x):
    """one evaluation of a vocabulary branch: the element operations it performs (state dict updated in place)"""
    if branch == "acc":
        return [("p", x, 10 * x)]
    if branch == "neg":
        return [("p", -x, 10 * x)]
    if branch == "win":
        st["n"] = st.get("n", 0) + 1
        ops = [("p", x, st["n"])]
        if "prev" in st:
            ops.append(("d", st["prev"], 0))
        st["prev"] = x
        return ops
    if branch == "cnt":
        st["n"] = st.get("n", 0) + 1
        return [("p", st["n"] % 4, st["n"])]
    if branch == "evens":
        return [("p", x, x)] if x % 2 == 0 else []
    if branch == "fixed":
        if not st.get("started"):
            st["started"] = True
            return [("p", 1, 10), ("p", 2, 20), ("p", 3, 30)]
        return [("d", x, 0)]
    if branch == "kacc":
        return [("p", 100 * key + x, key)]
    if branch == "last":
        return [("c", 0, 0), ("p", x, 10 * x)]
    raise ValueError(branch)


USES_KEY = {"kacc"}
UNCHECKED = {"fixed"}


def _parse_cfg(w):
    if len(w) < 4 or w[1] not in ("tss", "tsd") or w[2] not in ("0", "1"):
        return None
    if w[3] != "-" and w[3] not in VOC:
        return None
    table = []
    for t in w[4:]:
        if "=" not in t:
            return None
        k, b = t.split("=", 1)
        if b not in VOC:
            return None
        try:
            kv = int(k)
        except ValueError:
            return None
        if str(kv) != k or any(kv == kk for kk, _ in table):
            return None
        table.append((kv, b))
    if not table and w[3] == "-":
        return None
    return {"dict": w[1] == "tsd", "reload": w[2] == "1", "dflt": None if w[3] == "-" else w[3], "table": table}


LINE = re.compile(r"^o=([01])([01]) val=\[(.*?)\] a=\[(.*?)\] r=\[(.*?)\] mi=\[(.*?)\] in=(\S+) ev=(\S+)$")


def _items(text, dict_):
    """'[..]' body -> {key: value} (value None for a set element)"""
    d = {}
    if text == "":
        return d
    for t in text.split(","):
        if ":" in t:
            k, v = t.split(":", 1)
            d[int(k)] = int(v) if v != "?" else "?"
        else:
            d[int(t)] = None
    return d


def _show(d):
    return "{" + ",".join(str(k) if d[k] is None else "%d:%s" % (k, d[k]) for k in sorted(d)) + "}"


def _spec(case, out):
    """The property decided on the implementation trace alone -> (violations, features)."""
    bad, feats = [], set()
    out = list(out) + ["<missing>"] * (len(case.lines) - len(out))
    cfg, st = None, None

    def reset():
        return {"x": None, "cur": None, "branch": None, "bst": None, "own": None, "first": False, "gen": 0, "now": 0,
                "dead": False, "old": {}, "valid": False, "acts": 0, "observable_resets": 0, "err": False,
                "seen": [], "prev_switch": None}

    for ln, o in zip(case.lines, out):
        w = ln.split()
        if not w:
            continue
        if w[0] == "case":
            cfg, st = None, reset()
            continue
        if w[0] == "cfg":
            cfg, st = _parse_cfg(w), reset()
            if cfg is None:
                if o != "bad-op":
                    bad.append("[C12-driver] malformed cfg answered %r" % o)
                continue
            if o != "ok":
                bad.append("[C12-driver] cfg answered %r" % o)
            feats.update(["shape:" + ("tsd" if cfg["dict"] else "tss"), "reload:%d" % cfg["reload"],
                          "default:%s" % ("yes" if cfg["dflt"] else "no"), "cases:%d" % len(cfg["table"])])
            for _, b in cfg["table"]:
                feats.add("branch:" + b)
            if cfg["dflt"]:
                feats.add("branch:" + cfg["dflt"])
            continue
        if cfg is None or w[0] not in ("c", "run"):
            continue
        if o in ("bad-op", "<missing>") or o.startswith("<"):
            bad.append("[C12-driver] driver answered %s for %r" % (o, ln))
            break
        if w[0] == "run":
            evs = [] if not o.startswith("end ev=") or o[7:] == "-" else o[7:].split(",")
            want = ["X%d" % st["gen"]] if st["cur"] is not None else []
            if evs != want:
                bad.append("[C12-old-dead] at the end of the run the branch graphs stopped are %s, expected %s" % (evs, want))
            continue
        # ---- one cycle
        st["now"] += 1
        now = st["now"]
        kt, xt = None, None
        i = 1
        while i + 1 < len(w):
            if w[i] == "k":
                kt = int(w[i + 1])
            elif w[i] == "x":
                xt = int(w[i + 1])
            i += 2
        if st["dead"]:
            if o != "dead":
                bad.append("[C12-unmatched] cycle %d: the run failed earlier but the driver reports %r" % (now, o))
            continue
        if xt is not None:
            st["x"] = xt
        switch = kt is not None and (st["cur"] is None or cfg["reload"] or kt != st["cur"])
        old_branch, old_key = st["branch"], st["cur"]
        if switch:
            branch = next((b for kk, b in cfg["table"] if kk == kt), cfg["dflt"])
            if branch is None:
                feats.add("unmatched-key-error" + ("" if st["acts"] else "(first key)"))
                st["err"] = True
                st["dead"] = True
                if not o.startswith("err:no-branch"):
                    bad.append("[C12-unmatched] cycle %d: key %d matches no case and there is no default, but the driver "
                               "reports %r instead of the error" % (now, kt, o))
                elif o != "err:no-branch ev=-":
                    bad.append("[C12-unmatched] cycle %d: lifecycle events in the failing cycle: %r" % (now, o))
                continue
            matched = any(kk == kt for kk, _ in cfg["table"])
            if st["cur"] is not None:
                if kt == st["cur"]:
                    feats.add("reinst:same-key(reload)")
                elif not matched and not any(kk == st["cur"] for kk, _ in cfg["table"]):
                    feats.add("reinst:default-to-default")
                elif kt in st["seen"]:
                    feats.add("return-to-earlier-key")
                if branch == st["branch"]:
                    feats.add("reinst:same-branch")
                if st["prev_switch"] == now - 1:
                    feats.add("key-ticks-in-consecutive-cycles")
                if xt is not None:
                    feats.add("switch-in-input-tick-cycle")
            st["cur"], st["branch"], st["bst"], st["own"], st["first"] = kt, branch, {}, {}, True
            st["gen"] += 1
            st["acts"] += 1
            st["seen"].append(kt)
            st["prev_switch"] = now
        elif kt is not None:
            feats.add("same-key-retick(kept)")
        if o.startswith("err:"):
            bad.append("[C12-%s] cycle %d: the run fails (%r) although %s" %
                       ("unmatched" if o.startswith("err:no-branch") else "follows", now, o,
                        "the key selects a branch" if kt is not None else "no key ticked"))
            st["dead"] = True
            continue
        if o == "idle":
            bad.append("[C12-driver] cycle %d: the root graph was not evaluated" % now)
            continue
        m = LINE.match(o)
        if not m:
            raise ValueError("unparsable line %r" % o)
        valid, mod = m.group(1) == "1", m.group(2) == "1"
        val, a, r, mi = (_items(m.group(j), cfg["dict"]) for j in (3, 4, 5, 6))
        cons, evs = m.group(7), ([] if m.group(8) == "-" else m.group(8).split(","))
        # ---- the reference: the selected instance alone, writing into a collection of its own
        ops = []
        if st["cur"] is not None:
            b = st["branch"]
            sched = st["first"] or xt is not None or (b in USES_KEY and kt is not None)
            gate = b in UNCHECKED or st["x"] is not None
            if sched and gate:
                ops = _ops(b, st["bst"], st["cur"], st["x"] if st["x"] is not None else 0)
            st["first"] = False
        touched = set()
        own = st["own"] if st["own"] is not None else {}
        for (what, k, v) in ops:
            if what == "p":
                own[k] = v if cfg["dict"] else None
                touched.add(k)
            elif what == "d":
                own.pop(k, None)
                touched.discard(k)
            else:
                own.clear()
                touched.clear()
        old = st["old"]
        where = "cycle %d" % now
        tag_sw = ""
        if switch and old_key is not None:
            tag_sw = " (new instance of %s for key %d replaces %s for key %d)" % (st["branch"], st["cur"], old_branch, old_key)
        # 1. value: exactly what the running instance alone has published
        if val != own:
            stale = sorted(k for k in val if k not in own and k in old)
            if stale and switch:
                bad.append("[C12-stale] elements published by a replaced instance survive in the switch output: %s%s: it still holds "
                           "%s; it is %s, the selected instance alone has published %s"
                           % (where, tag_sw, stale, _show(val), _show(own)))
            elif stale:
                bad.append("[C12-stale] the switch output holds elements the running instance never published: %s: %s; it is %s, "
                           "the selected instance alone has published %s" % (where, stale, _show(val), _show(own)))
            else:
                bad.append("[C12-follows] the switch output is not what the selected instance alone has published: %s%s: it is %s, "
                           "the instance %s (key %s) has published %s"
                           % (where, tag_sw, _show(val), st["branch"], st["cur"], _show(own)))
        # 2. the delta of the cycle is exactly old value -> new value
        must_tick = bool(ops) or val != old
        # replacing an instance resets a WRITTEN output: that tick is accepted also when nothing is left to remove
        may_tick = must_tick or (switch and old_key is not None and st["valid"])
        if mod:
            if switch and old_key is not None and not st["valid"] and not ops:
                # the defect repaired by /repo 98c6672 (reset_switch_output cleared -- and stamped -- unconditionally)
                bad.append("[C12-reset-validates] the reset of a replaced instance stamps an output that was never written: "
                           "%s%s: no instance has published anything and the new one does not either, but the output "
                           "ticks and becomes valid (empty)" % (where, tag_sw))
            elif not may_tick:
                bad.append("[C12-delta] %s: the output ticks although the running instance did not touch it" % where)
            exp_a = sorted(k for k in val if k not in old)
            exp_r = sorted(k for k in old if k not in val)
            if sorted(a) != exp_a or sorted(r) != exp_r:
                bad.append("[C12-delta] the reported delta is not old value -> new value (added / removed keys): %s%s: value %s -> "
                           "%s but the delta reports added %s removed %s (expected added %s removed %s)"
                           % (where, tag_sw, _show(old), _show(val), sorted(a), sorted(r), exp_a, exp_r))
            if cfg["dict"]:
                exp_mi = {k: val[k] for k in val if k in touched}
                changed = sorted(k for k in val if k in old and val[k] != old[k] and k not in mi)
                if changed:
                    bad.append("[C12-delta] %s: the values of %s changed but they are not modified items" % (where, changed))
                if mi != exp_mi and val == own:
                    bad.append("[C12-delta] %s: modified items %s, the instance wrote %s" % (where, _show(mi), _show(exp_mi)))
            elif mi:
                bad.append("[C12-delta] %s: a set reports modified items %s" % (where, _show(mi)))
        else:
            if must_tick and val == own:
                bad.append("[C12-delta] %s%s: the output does not tick although its value goes %s -> %s / the instance "
                           "touched it (%d operations)" % (where, tag_sw, _show(old), _show(own), len(ops)))
            if val != old and val != own:
                bad.append("[C12-delta] %s: the value changed %s -> %s without a tick" % (where, _show(old), _show(val)))
            if a or r or mi:
                bad.append("[C12-delta] %s: no tick but a delta is reported (added %s removed %s modified %s)"
                           % (where, sorted(a), sorted(r), _show(mi)))
        if valid != (st["valid"] or mod):
            bad.append("[C12-delta] %s: valid=%d but the output %s" % (where, valid, "ticked" if (st["valid"] or mod) else "never ticked"))
        # 3. the consumer sees the same
        mine = "[%s]/[%s]/[%s]/[%s]" % (m.group(3), m.group(4), m.group(5), m.group(6))
        if mod and cons != mine:
            bad.append("[C12-consumer] %s: the output ticked with %s but the consumer read %s" % (where, mine, cons))
        if not mod and cons != "-":
            bad.append("[C12-consumer] %s: the output did not tick but the consumer was evaluated (%s)" % (where, cons))
        # 4. lifecycle: exactly one new instance per selection, the old one stopped first
        if switch:
            want = (["X%d" % (st["gen"] - 1)] if old_key is not None else []) + ["S%d:%s" % (st["gen"], st["branch"])]
            if evs != want:
                tag = "[C12-fresh]" if [e for e in evs if e[0] == "S"] != [want[-1]] else "[C12-old-dead]"
                bad.append("%s %s: key %d selects a new instance of %s: events %s, expected %s"
                           % (tag, where, st["cur"], st["branch"], evs, want))
        elif evs:
            bad.append("[C12-fresh] %s: no new selection but branch graphs were started / stopped (%s)" % (where, evs))
        # ---- coverage
        if switch and old_key is not None:
            if old:
                st["observable_resets"] += 1
                gone = [k for k in old if k not in own]
                kept = [k for k in old if k in own]
                if gone:
                    feats.add("stale-elements-removed")
                    if st["branch"] == old_branch:
                        feats.add("same-branch-reinst-with-stale-elements")
                if kept:
                    feats.add("element-published-by-old-and-new-instance")
                if not ops:
                    feats.add("new-instance-publishes-nothing")
            elif st["valid"]:
                feats.add("reset-of-an-empty-valid-output(accepted empty tick)")
            else:
                feats.add("switch-before-the-output-is-valid")
        if mod and not a and not r and not mi:
            feats.add("tick-with-empty-delta")
        if ops and any(what == "d" for what, _, _ in ops):
            feats.add("instance-removes-elements")
        if st["cur"] is not None and not ops and not switch and (xt is not None):
            feats.add("input-tick-without-publication")
        st["old"] = dict(val)
        st["valid"] = st["valid"] or mod
    if st is not None and (st["observable_resets"] >= 1 or (st["err"] and st["acts"] >= 1)):
        feats.add("nontrivial")
    return bad, feats


def monitor(stream, case, out):
    return _spec(case, out)[0][:3]


def features(stream, case, out):
    return sorted(x for x in _spec(case, out)[1] if x != "nontrivial")


def nontrivial(stream, case, out):
    return "nontrivial" in _spec(case, out)[1]


def alarm_filter(stream, case, impl_out, model_out):
    return True, []          # the comparison is exact


def valid_case(stream, case, impl_out, model_out):
    """a shrunk case must still be a well-formed history: a cfg the drivers accept, then cycles, then run"""
    body = [l for l in case.lines[1:] if l.strip()]
    if not body or not body[0].startswith("cfg ") or _parse_cfg(body[0].split()) is None:
        return False
    if any(not (l == "run" or l == "c" or l.startswith("c ")) for l in body[1:]):
        return False
    return not any("bad-op" in l for l in impl_out)
