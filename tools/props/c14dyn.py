"""C14 (dynamic-children lifecycle stream) - every node of a child graph that map_ / switch_ creates at run time is
started before it is evaluated, stopped exactly once (by the return of run(), or by the release of the executor
when clean-up on error is off), never evaluated after its stop, never stopped without a completed start, whatever
start / evaluate / stop hook throws; the first error reaches the caller naming the failing node.

Meant to be merged into tools/props/c14.py the way c07.py merges c07gs.py:
    streams += dyn.streams(...); monitor/features/nontrivial dispatch on stream.startswith("dynlife-");
    LEAN_MODULES += dyn.LEAN_MODULES; THEOREMS += dyn.THEOREMS; CXX_TARGETS += dyn.CXX_TARGETS.

The model driver runs the REPAIRED `remove_all_entries` loop (fixes/c14_map_stop.patch) unless
HGV_C14DYN_VARIANT=current is set (the loop without the first-exception recorder).  Kind `reducez` (reduce_ with an explicit
zero) runs against the pointer-table model of `rebuild_structure` (Model/DynLifeReduceZ.lean, Props/C14DynZ.lean);
HGV_C14DYN_VARIANT=rz runs the zero-less `reduce` kind against that model as well (a cross-check of the two reduce models)."""
import os
import re
from vlib import Case, Stream, BUILD, VERIF, model_cmd

ID = "C14DYN"
LEAN_MODULES = ["HgVerif.Props.C14Dyn", "HgVerif.Props.C14DynZ"]
THEOREMS = [
    "HgVerif.DynLife.run_no_violation",
    "HgVerif.DynLife.run_clean_at_return",
    "HgVerif.DynLife.run_clean_at_release",
    "HgVerif.DynLife.run_first_error",
    "HgVerif.DynLife.removeAll_first_error",
    "HgVerif.DynLife.failed_child_start_leaves_nothing",
    "HgVerif.DynLife.node_language",
    "HgVerif.DynLife.run_node_language",
    "HgVerif.DynLife.run_clean_at_return_prefix",
    "HgVerif.DynLife.removeAll_current_prefix",
    "HgVerif.DynLife.swRun_no_violation",
    "HgVerif.DynLife.swRun_clean_at_return",
    "HgVerif.DynLife.swRun_clean_at_release",
    "HgVerif.DynLife.sw_outgoing_stopped_at_key_change",
    "HgVerif.DynLife.sw_outgoing_stop_error_reaches_caller",
    "HgVerif.DynLife.swRun_first_error",
    "HgVerif.DynLife.swRun_retire_first_prefix",
    "HgVerif.DynLife.reduce_run_no_violation",
    "HgVerif.DynLife.reduce_clean_at_return",
    "HgVerif.DynLife.reduce_clean_at_release",
    "HgVerif.DynLife.reduce_stop_error_reaches_caller",
    # reduce_ with its pointer table (Model/DynLifeReduceZ.lean): one rebuild that creates AND sets aside combiners
    "HgVerif.DynLife.rz_run_no_violation",
    "HgVerif.DynLife.rz_clean_at_return",
    "HgVerif.DynLife.rz_clean_at_release",
    "HgVerif.DynLife.rz_run_node_language",
    "HgVerif.DynLife.rz_first_error",
    "HgVerif.DynLife.rzRebuildIn_error",
    "HgVerif.DynLife.rzStartList_first_error",
    "HgVerif.DynLife.rzRebuild_spec",
    "HgVerif.DynLife.rzGuardComb_restores",
    "HgVerif.DynLife.rz_failed_rebuild_restores_table",
    "HgVerif.DynLife.rz_failed_rebuild_then_stop_clean",
    "HgVerif.DynLife.rz_guard_early_leaks",
]
CXX_TARGETS = ["hgv_dynlife"]
RULE = ("dynlife streams: a map_ (or switch_ with an owned TS<int> output / a forwarding output - branches returning to_tsb / to_tsl "
        "results as is -, or a reduce_ with a node / sub-graph combiner, without (`reduce`) and with an explicit scalar zero (`reducez`)) over child graphs of 1-3 chained probe nodes; key histories with batches "
        "(2-4 keys in the first cycle, later batches), one key per cycle, removals, re-adds (new generation), replace-all, value "
        "ticks and idle cycles; 0-3 faults: the k-th probe start call, the n-th evaluation of probe i of key K, the stop of probe i "
        "of key K (pairs such as start fault + stop fault in the rollback, evaluate fault followed by stop fault, stop fault during "
        "a removal and at the parent's stop; for reduce_: a combiner stop fault as the ONLY fault, evaluate fault followed by stop "
        "fault, faults in the generation built by a capacity growth, retired combiners); cleanup_on_error on/off; lifecycle observer log + probe hook log + counters at the "
        "return of run() and after the release of the executor + caught exception text; non-trivial = a fault fired or a child was "
        "stopped at run time; distinct by case text")
TRUSTED = ["key-set slot store as modelled for C05 (Slots.TSD): which slot a key gets and when a removed slot is erased decide "
           "the creation / stop ORDER of sibling children; the replay node applies a dictionary delta as removals then sets in "
           "ascending key order",
           "UnwindCleanupGuard / FirstExceptionRecorder (util/scope.h) modelled as swallow / first-error-wins folds",
           "shape of the reduce_ combiner tree (which heap positions a key change creates / retires, capacity growth) as "
           "modelled for C11 (Model/Reduce.lean); that every combiner on a structural or modified leaf path is due rests on "
           "the probe combiners always writing their output (correspondence-checked); for the `reducez` kind the tree shape is "
           "computed by the model itself (`rzRebuild`: capacity rule, needed positions `Reduce.neededAt`, bank swap) from the "
           "live count and the structural / modified leaves that the C11 leaf bookkeeping (`Reduce.reconcileLeaves`) derives "
           "from the key history"]
ASSUMPTIONS = ["faults are std::runtime_error thrown by harness probe hooks; the map has no error output (no per-key capture) and "
               "its key source does not re-point; switch_ without reload_on_ticked; reduce_ over a TSD without a zero input or with a scalar zero "
               "(wired as a const: it ticks once, in the first cycle), with a non-liftable combiner that never schedules itself "
               "(no full-scan evaluation); binding / publication failures inside rebuild_structure are covered by the theorems "
               "(RzIn.bindThrows / publishThrows) but cannot be injected by the harness; stop errors of combiners that reduce_ retires DURING a run are swallowed by its noexcept "
               "retire / rollback paths by design and are not required to reach the caller"]

DL = [os.path.join(BUILD, "hgv_dynlife")]
VARIANT = os.environ.get("HGV_C14DYN_VARIANT", "fixed")


def _model():
    return model_cmd("C14Dyn") + ([VARIANT] if VARIANT in ("current", "rz") else [])


# ----------------------------------------------------------------------------- generator

def mk(i, kind, n, cleanup, faults, cycles, meta=None):
    lines = ["case %d" % i, "cfg %s %d %d" % (kind, n, 1 if cleanup else 0)] + list(faults)
    lines += ["c" + "".join(" " + o for o in c) for c in cycles] + ["run"]
    return Case(lines, meta or {})


def map_history(rng):
    """-> (cycles, keys used in order of first appearance, number of child graph creations)"""
    keys = list(range(1, 7))
    rng.shuffle(keys)
    present, cycles, created = [], [], 0
    shape = rng.choice(["batch", "batch", "single", "single", "mixed"])
    ncyc = rng.randint(1, 7)
    for c in range(ncyc):
        ops = []
        r = rng.random()
        absent = [k for k in keys if k not in present]
        if c == 0 or not present:
            nb = rng.randint(2, 4) if shape != "single" else 1
            add = absent[:nb]
            ops = ["+%d" % k for k in add]
            present += add
            created += len(add)
        elif r < 0.12:
            pass                                                   # idle cycle
        elif r < 0.30:
            ops = ["+%d" % k for k in rng.sample(present, min(len(present), rng.randint(1, 2)))]   # value ticks
        elif r < 0.50 and absent:
            nb = 1 if shape == "single" else rng.randint(1, 3)
            add = absent[:nb]
            ops = ["+%d" % k for k in add]
            present += add
            created += len(add)
        elif r < 0.68:
            rem = rng.sample(present, min(len(present), rng.randint(1, 2)))
            ops = ["-%d" % k for k in rem]
            present = [k for k in present if k not in rem]
        elif r < 0.80 and absent:
            # replace all
            ops = ["-%d" % k for k in present]
            add = absent[:rng.randint(1, 3)]
            ops += ["+%d" % k for k in add]
            present = list(add)
            created += len(add)
        elif r < 0.90:
            # remove one, tick another, add one
            rem = [rng.choice(present)]
            ops = ["-%d" % rem[0]]
            present = [k for k in present if k not in rem]
            if present:
                ops.append("+%d" % rng.choice(present))
            if absent:
                ops.append("+%d" % absent[0]); present.append(absent[0]); created += 1
        else:
            # re-add a key removed earlier (new generation) if there is one, else remove an absent key (ignored)
            gone = [k for k in keys if k not in present]
            k = rng.choice(gone) if gone else present[0]
            ops = ["+%d" % k]
            if k not in present:
                present.append(k); created += 1
            if rng.random() < 0.3:
                ops.append("-%d" % rng.choice([x for x in range(1, 9) if x not in present and x != k]))
        rng.shuffle(ops)
        cycles.append(ops)
    used = []
    for c in cycles:
        for o in c:
            k = int(o[1:])
            if o[0] == "+" and k not in used:
                used.append(k)
    return cycles, used, created


def switch_history(rng):
    cycles, used, created, cur = [], [], 0, None
    for c in range(rng.randint(1, 7)):
        r = rng.random()
        if c == 0 and r < 0.85 or r < 0.45:
            k = rng.randint(1, 4)
            cycles.append(["=%d" % k])
            if k != cur:
                created += 1
                cur = k
            if k not in used:
                used.append(k)
        elif r < 0.85:
            cycles.append(["~"])
        else:
            cycles.append([])
    return cycles, used, created


def gen_faults(rng, n, used, created, how_many):
    faults = []
    for _ in range(how_many):
        r = rng.random()
        if r < 0.30:
            faults.append("fs %d" % rng.randint(1, max(1, created * n + 1)))
        elif r < 0.64 and used:
            faults.append("fe %d %d %d" % (rng.choice(used), rng.randrange(n), rng.choice([1, 1, 2, 2, 3])))
        elif used:
            faults.append("fx %d %d" % (rng.choice(used), rng.randrange(n)))
    out = []
    for f in faults:
        if f not in out:
            out.append(f)
    return out


def reduce_history(rng):
    """key histories for reduce_: several keys at once (>= 2 live so that combiners exist), growth across the capacity
    boundaries 2 / 4 / 8, shrink, value ticks.  -> (cycles, estimated number of combiner instances)"""
    keys = list(range(1, 10))
    rng.shuffle(keys)
    present, cycles = [], []
    for c in range(rng.randint(1, 6)):
        absent = [k for k in keys if k not in present]
        r = rng.random()
        ops = []
        if c == 0 or len(present) < 2:
            add = absent[:rng.choice([2, 2, 3, 3, 4, 5])]
            ops = ["+%d" % k for k in add]
            present += add
        elif r < 0.10:
            pass
        elif r < 0.30:
            ops = ["+%d" % k for k in rng.sample(present, min(len(present), rng.randint(1, 2)))]
        elif r < 0.58 and absent:
            add = absent[:rng.choice([1, 1, 2, 3, 4])]                     # growth, often across a capacity boundary
            ops = ["+%d" % k for k in add]
            present += add
        elif r < 0.82:
            rem = rng.sample(present, min(len(present), rng.choice([1, 1, 2, 3])))   # shrink
            ops = ["-%d" % k for k in rem]
            present = [k for k in present if k not in rem]
        elif absent:
            rem = rng.sample(present, min(len(present), rng.randint(1, 2)))
            add = absent[:rng.randint(1, 2)]
            ops = ["-%d" % k for k in rem] + ["+%d" % k for k in add]
            if present and rng.random() < 0.5:
                keep = [k for k in present if k not in rem]
                if keep:
                    ops.append("+%d" % rng.choice(keep))
            present = [k for k in present if k not in rem] + add
        rng.shuffle(ops)
        cycles.append(ops)
    total_adds = sum(1 for c in cycles for o in c if o[0] == "+")
    return cycles, max(2, min(12, total_adds + 2))


def gen_reduce_faults(rng, n, ncomb, how_many, shape):
    """shape: 'stop-only' (a stop fault is the only fault), 'eval-stop', 'any'"""
    faults = []
    if shape == "stop-only":
        faults = ["fx %d %d" % (rng.randint(1, ncomb), rng.randrange(n)) for _ in range(max(1, how_many))]
    elif shape == "eval-stop":
        faults = ["fe %d %d %d" % (rng.randint(1, ncomb), rng.randrange(n), rng.choice([1, 1, 2, 3])),
                  "fx %d %d" % (rng.randint(1, ncomb), rng.randrange(n))]
    else:
        for _ in range(how_many):
            r = rng.random()
            if r < 0.25:
                faults.append("fs %d" % rng.randint(1, ncomb * n + 1))
            elif r < 0.60:
                faults.append("fe %d %d %d" % (rng.randint(1, ncomb), rng.randrange(n), rng.choice([1, 1, 2, 2, 3])))
            else:
                faults.append("fx %d %d" % (rng.randint(1, ncomb), rng.randrange(n)))
    out = []
    for f in faults:
        if f not in out:
            out.append(f)
    return out



# ----------------------------------------------------------------------------- reduce_ with an explicit zero (kind reducez)

def rz_needed(live, cap, zero=True):
    """heap positions that need a combiner (`rebuild_structure` phase 1): both child aggregates non-empty, or - with a
    zero - the root of a singleton"""
    out = set()
    for p in range(max(0, cap - 1)):
        d = (p + 1).bit_length() - 1
        span = cap >> d
        first = (p + 1 - (1 << d)) * span
        if first + span // 2 < live or (zero and p == 0 and live == 1):
            out.add(p)
    return out


def rz_sim(cycles, zero=True):
    """what the tree does in each cycle of a key history (generator / histogram only - the monitor never uses it):
    -> list of None (node not evaluated) | dict(live0, live1, cap, grew, created=[positions, start order], retired=[...])"""
    present, cap, need, published, out = set(), 0, set(), False, []
    for idx, ops in enumerate(cycles):
        adds = {int(o[1:]) for o in ops if o[0] == "+"}
        dels = {int(o[1:]) for o in ops if o[0] == "-"} & present
        if not adds and not dels and not (zero and idx == 0):
            out.append(None)
            continue
        new = (present - dels) | adds
        rec = {"live0": len(present), "live1": len(new), "cap": cap, "grew": False, "created": [], "retired": []}
        if new != present or not published:
            live = len(new)
            cap1 = max(cap, 2 if zero else 0, (1 << (live - 1).bit_length()) if live else 0)
            need1 = rz_needed(live, cap1, zero)
            if cap1 != cap:
                rec.update(grew=True, created=sorted(need1), retired=sorted(need))
            else:
                rec.update(created=sorted(need1 - need), retired=sorted(need - need1))
            cap, need, published = cap1, need1, True
            rec["cap"] = cap1
        present = new
        out.append(rec)
    return out


def reducez_history(rng):
    """key histories for reduce_ with a zero: reach >= 3 live values (capacity >= 4, sometimes 8), then walk the live count
    through 0 .. 3 with the 1 -> 2 and 2 -> 1 steps (one combiner created AND one retired by the same rebuild) as the most
    frequent ones; value ticks, idle cycles, an empty first cycle (only the zero ticks); some small histories that never
    leave capacity 2 (controls)"""
    keys = list(range(1, 10))
    rng.shuffle(keys)
    present, cycles = [], []

    def add(k):
        absent = [x for x in keys if x not in present]
        got = absent[:k]
        present.extend(got)
        return ["+%d" % x for x in got]

    def rem(k):
        got = rng.sample(present, min(k, len(present)))
        for x in got:
            present.remove(x)
        return ["-%d" % x for x in got]
    small = rng.random() < 0.12
    if rng.random() < 0.15:
        cycles.append([])                                         # the zero ticks, the collection is not valid yet
    if not small:
        first = rng.choice([3, 3, 3, 4, 5])
        if rng.random() < 0.6:
            cycles.append(add(first))
        else:                                                     # grow in steps: 1 or 2 first (capacity 2), then across 4
            k = rng.choice([1, 2])
            cycles.append(add(k))
            if rng.random() < 0.4:
                cycles.append(["+%d" % rng.choice(present)])
            cycles.append(add(first - k))
        # come down to 1 or 2
        target = rng.choice([1, 2])
        if rng.random() < 0.7:
            cycles.append(rem(len(present) - target))
        else:
            while len(present) > target:
                cycles.append(rem(1))
    else:
        cycles.append(add(rng.choice([1, 2])))
    for _ in range(rng.randint(1, 5)):
        r = rng.random()
        n = len(present)
        if r < 0.08:
            cycles.append([])
        elif r < 0.22 and present:
            cycles.append(["+%d" % x for x in rng.sample(present, min(n, rng.randint(1, 2)))])      # value ticks
        elif n <= 2 and not small and r > 0.86:
            cycles.append(add(rng.choice([2, 3]) if n else rng.choice([3, 4])))     # a jump: two or more combiners created at once
        elif n == 1:
            cycles.append(add(1) if r < 0.76 or small else rem(1) if r < 0.82 else add(2))
        elif n == 2:
            cycles.append(rem(1) if r < 0.70 else add(1) if (r < 0.80 and not small) else rem(2))
        elif n == 0:
            cycles.append(add(rng.choice([1, 1, 2, 3])))
        else:
            cycles.append(rem(n - rng.choice([1, 2])) if r < 0.8 else add(1))
        if rng.random() < 0.15 and present and cycles[-1] and cycles[-1][0][0] == "-":
            # a removal together with the addition of another key (the live count stays, the leaves move)
            cycles[-1] = cycles[-1] + add(1)
    return cycles


def reducez_case(rng, i):
    n = rng.choice([1, 1, 2, 2, 3])
    cleanup = rng.random() < 0.7
    cycles = reducez_history(rng)
    sim = rz_sim(cycles)
    # combiner ordinals in start order, per cycle (valid as long as no earlier start failed)
    ords, nxt = [], 0
    for rec in sim:
        k = len(rec["created"]) if rec else 0
        ords.append(list(range(nxt + 1, nxt + k + 1)))
        nxt += k
    mixed = [c for c, rec in enumerate(sim) if rec and rec["created"] and rec["retired"] and not rec["grew"]]
    multi = [c for c, rec in enumerate(sim) if rec and len(rec["created"]) >= 2 and not rec["grew"]]
    faults = []
    r = rng.random()
    if multi and rng.random() < 0.6:
        # a LATER combiner of a same-capacity rebuild that creates several fails to start: the ones started before it must be reset
        c = rng.choice(multi)
        o = rng.choice(ords[c][1:])
        faults.append("fs %d" % ((o - 1) * n + rng.randint(1, n)))
        if rng.random() < 0.3:
            faults.append("fx %d %d" % (rng.choice(ords[c]), rng.randrange(n)))
    elif mixed and r < 0.45:
        # the combiner created by a rebuild that also sets one aside fails to start (any of its probes)
        c = rng.choice(mixed)
        o = rng.choice(ords[c])
        faults.append("fs %d" % ((o - 1) * n + rng.randint(1, n)))
        if rng.random() < 0.3:
            faults.append("fx %d %d" % (rng.randint(1, max(1, o)), rng.randrange(n)))     # + a stop fault in the clean-up
    elif mixed and r < 0.62:
        # evaluate fault in / right after such a rebuild
        c = rng.choice(mixed)
        o = rng.choice(ords[c])
        faults.append("fe %d %d %d" % (o, rng.randrange(n), rng.choice([1, 1, 2])))
        if rng.random() < 0.4:
            faults.append("fx %d %d" % (rng.randint(1, o), rng.randrange(n)))
    elif mixed and r < 0.76:
        # stop fault of the combiner the rebuild retires (swallowed by the retire path) or of the one it creates (parent stop)
        c = rng.choice(mixed)
        o = rng.choice(ords[c])
        faults.append("fx %d %d" % (rng.choice([o, max(1, o - 1), max(1, o - 2)]), rng.randrange(n)))
    elif r < 0.92:
        faults = gen_reduce_faults(rng, n, max(2, nxt), rng.choice([1, 1, 2, 3]), rng.choice(["stop-only", "eval-stop", "any", "any"]))
    return mk(i, "reducez", n, cleanup, faults, cycles)


def reducez_directed(add, n, cl):
    """the live-count steps 1 -> 2 and 2 -> 1 in a tree of capacity >= 4 (one combiner created, another one set aside by the
    same rebuild), with a fault at every point of that rebuild; controls around them"""
    up = [["+1", "+2", "+3"], ["-2", "-3"], ["+4"], ["+1"]]          # 3 -> 1 -> 2: ordinals 1 (root), 2 (pos 1), then 3 (pos 1)
    down = [["+1", "+2", "+3"], ["-3"], ["-2"], ["+1"]]              # 3 -> 2 -> 1: ordinals 1, 2, then 3 (singleton root)
    updown = [["+1", "+2", "+3"], ["-2", "-3"], ["+4"], ["-4"], ["+5"], ["-1"]]
    for h in (up, down):
        add("reducez", n, cl, [], h)                                                 # control: no fault
        for k in range(1, n + 1):
            add("reducez", n, cl, ["fs %d" % (2 * n + k)], h)                        # the created combiner fails to start (probe k)
        add("reducez", n, cl, ["fs %d" % (2 * n + 1), "fx 1 0"], h)                  # ... + stop faults in what is cleaned up afterwards
        add("reducez", n, cl, ["fs %d" % (2 * n + 1), "fx 2 0"], h)
        if n >= 2:
            add("reducez", n, cl, ["fs %d" % (2 * n + 2), "fx 3 0"], h)              # ... + stop fault in the child's own rollback
        add("reducez", n, cl, ["fe 3 %d 1" % (n - 1)], h)                            # evaluate fault of the created combiner, first evaluation
        add("reducez", n, cl, ["fe 3 0 2"], h)                                       # ... at the value tick after the rebuild
        add("reducez", n, cl, ["fe 3 0 1", "fx 3 0"], h)                             # evaluate fault followed by stop fault
        for o in (1, 2, 3):
            add("reducez", n, cl, ["fx %d %d" % (o, n - 1)], h)                      # stop fault: retired (swallowed) / live at the end
    add("reducez", n, cl, [], updown)
    for o in (3, 4, 5):
        add("reducez", n, cl, ["fs %d" % ((o - 1) * n + 1)], updown)                 # later 1 <-> 2 steps
    add("reducez", n, cl, ["fs %d" % (4 * n + 1), "fx 4 0"], updown)
    # capacity 8, then 2 -> 1 -> 2
    add("reducez", n, cl, ["fs %d" % (4 * n + 1)], [["+1", "+2", "+3", "+4", "+5"], ["-3", "-4", "-5"], ["-2"], ["+6"]])
    add("reducez", n, cl, ["fs %d" % (5 * n + 1)], [["+1", "+2", "+3", "+4", "+5"], ["-3", "-4", "-5"], ["-2"], ["+6"]])
    # controls: capacity 2 only; growth across a capacity boundary; same-capacity growth 3 -> 4; the zero-only first cycle
    add("reducez", n, cl, ["fs 1"], [["+1"], ["+2"], ["-2"], ["+3"]])
    add("reducez", n, cl, ["fx 1 0"], [["+1"], ["+2"], ["-2"], ["-1"], ["+3"]])
    add("reducez", n, cl, ["fs %d" % (2 * n + 1)], [["+1", "+2"], ["+3"], ["+4"], ["+1"]])
    add("reducez", n, cl, ["fs %d" % (3 * n + 1)], [["+1", "+2"], ["+3"], ["+4"], ["+1"]])
    add("reducez", n, cl, ["fs %d" % (n + 1)], [[], ["+1"], ["+2", "+3"], ["-1", "-2"], ["+4"]])
    add("reducez", n, cl, [], [[], [], ["+1", "+2", "+3"], ["-1", "-2", "-3"], ["+4"], ["+5"], ["-4"]])
    # a removal together with an addition (the live count stays at 1 / 2, the leaves move)
    add("reducez", n, cl, ["fx 2 0"], [["+1", "+2", "+3"], ["-3", "-2", "+4"], ["-1"], ["+5"]])
    # same-capacity rebuilds that create SEVERAL combiners, a later one fails to start (the earlier ones are reset by the guard)
    add("reducez", n, cl, ["fs %d" % (3 * n + 1)], [["+1", "+2", "+3"], ["-1", "-2", "-3"], ["+4", "+5", "+6"]])
    add("reducez", n, cl, ["fs %d" % (4 * n)], [["+1", "+2", "+3"], ["-1", "-2", "-3"], ["+4", "+5", "+6"]])
    add("reducez", n, cl, ["fs %d" % (4 * n + 1)], [["+1", "+2", "+3"], ["-3"], ["+4", "+5"], ["+1"]])       # 2 -> 4: positions 0 and 2
    add("reducez", n, cl, ["fs %d" % (3 * n + 1), "fx 3 0"], [["+1", "+2", "+3"], ["-1", "-2", "-3"], ["+4", "+5", "+6", "+7"]])
    add("reduce", n, cl, ["fs %d" % (3 * n + 1)], [["+1", "+2", "+3"], ["-2", "-3"], ["+4", "+5", "+6"]])    # 1 -> 4 without a zero
    add("reduce", n, cl, ["fs %d" % (4 * n + 1)], [["+1", "+2", "+3"], ["-2", "-3"], ["+4", "+5", "+6"]])
    add("reduce", n, cl, ["fs %d" % (3 * n + 1)], [["+1", "+2", "+3"], ["-3"], ["+4", "+5"]])                # 2 -> 4


def gen_case(rng, i):
    r = rng.random()
    if r >= 0.80:
        return reducez_case(rng, i)
    kind = "map" if r < 0.40 else ("switch" if r < 0.47 else "switchb" if r < 0.56 else "switchl" if r < 0.62 else "reduce")
    n = rng.choice([1, 1, 2, 2, 3])
    cleanup = rng.random() < 0.75
    nf = rng.choice([0, 1, 1, 1, 2, 2, 3])
    if kind == "reduce":
        cycles, ncomb = reduce_history(rng)
        sim = rz_sim(cycles, zero=False)
        multi = [c for c, rec in enumerate(sim) if rec and len(rec["created"]) >= 2 and not rec["grew"]]
        if multi and rng.random() < 0.5:
            # same-capacity rebuild that creates several combiners: a later one fails to start
            c = rng.choice(multi)
            before = sum(len(rec["created"]) for rec in sim[:c] if rec)
            o = before + rng.randint(2, len(sim[c]["created"]))
            faults = ["fs %d" % ((o - 1) * n + rng.randint(1, n))]
            if rng.random() < 0.3:
                faults.append("fx %d %d" % (rng.randint(before + 1, o), rng.randrange(n)))
            return mk(i, kind, n, cleanup, faults, cycles)
        shape = rng.choice(["stop-only", "stop-only", "eval-stop", "any", "any", "any"])
        return mk(i, kind, n, cleanup, gen_reduce_faults(rng, n, ncomb, nf, shape) if (nf or shape != "any") else [], cycles)
    cycles, used, created = map_history(rng) if kind == "map" else switch_history(rng)
    return mk(i, kind, n, cleanup, gen_faults(rng, n, used, created, nf), cycles)


def switch_directed(add, kind, n, cl):
    """branch changes of a switch_ (kind: owned output `switch`, forwarding output `switchb` / `switchl`): key never changes
    (control), 1-3 key changes, faults in the outgoing and in the incoming branch"""
    add(kind, n, cl, [], [["=1"], ["~"], ["=1"], ["~"]])                            # control: the key never changes
    add(kind, n, cl, ["fx 1 0"], [["=1"], ["~"], ["=1"]])                           # ... stop fault at the parent's stop
    add(kind, n, cl, [], [["=1"], ["=2"]])                                          # one change, the run ends right after it
    add(kind, n, cl, [], [["=1"], ["~"], ["=2"], ["~"]])
    add(kind, n, cl, [], [["=1"], ["=2"], ["=3"]])                                  # two changes (the retired slot is reused)
    add(kind, n, cl, [], [["=1"], ["=2"], ["~"], ["=1"], ["=3"], ["~"]])            # three changes, a re-activated key
    for p in range(n):
        add(kind, n, cl, ["fx 1 %d" % p], [["=1"], ["=2"], ["~"]])                  # stop fault of the OUTGOING branch
        add(kind, n, cl, ["fx 2 %d" % p], [["=1"], ["=2"], ["=3"], ["~"]])          # ... at the second change
        add(kind, n, cl, ["fx 2 %d" % p], [["=1"], ["=2"], ["~"]])                  # stop fault of the incoming branch (parent stop)
    for k in range(n + 1, 2 * n + 1):
        add(kind, n, cl, ["fs %d" % k], [["=1"], ["=2"], ["~"]])                    # start fault of the INCOMING branch
    add(kind, n, cl, ["fs %d" % (2 * n + 1)], [["=1"], ["=2"], ["=3"]])
    add(kind, n, cl, ["fs %d" % (n + 1), "fx 1 0"], [["=1"], ["=2"]])               # outgoing stop fault wins over the incoming start fault
    add(kind, n, cl, ["fs %d" % (n + 1), "fx 2 0"], [["=1"], ["=2"]])               # start fault + stop fault in the rollback
    add(kind, n, cl, ["fe 1 0 2"], [["=1"], ["~"], ["=2"]])                         # evaluate fault in the first branch before the change
    add(kind, n, cl, ["fe 2 %d 1" % (n - 1)], [["=1"], ["=2"], ["~"]])              # evaluate fault of the incoming branch at its activation
    add(kind, n, cl, ["fe 2 0 2", "fx 2 0"], [["=1"], ["=2"], ["~"]])               # evaluate fault followed by stop fault
    add(kind, n, cl, ["fe 2 0 2", "fx 1 0"], [["=1"], ["=2"], ["~"]])


def directed(base):
    """the hard cases named by the property, spelled out"""
    out, i = [], base

    def add(kind, n, cleanup, faults, cycles):
        nonlocal i
        out.append(mk(i, kind, n, cleanup, faults, cycles, {"directed": True}))
        i += 1
    for cl in (True, False):
        for n in (1, 2):
            # first batch of 3, start fault in the 1st / 2nd / 3rd child (the 2nd / 3rd leave started siblings to clean up)
            for k in range(1, 3 * n + 1):
                add("map", n, cl, ["fs %d" % k], [["+1", "+2", "+3"]])
            # later batch
            add("map", n, cl, ["fs %d" % (2 * n + 1)], [["+1"], ["+2", "+3", "+4"]])
            add("map", n, cl, ["fs %d" % (n + 1)], [["+1"], ["+2"], ["+3"]])
            # start fault + stop fault in the child's own rollback, and in a sibling at the clean-up
            if n == 2:
                add("map", n, cl, ["fs 4", "fx 2 0"], [["+1", "+2", "+3"]])
            add("map", n, cl, ["fs %d" % (n + 1), "fx 1 0"], [["+1", "+2", "+3"]])
            # stop faults: at the parent's stop (first / middle / last slot), during a removal, in a replace-all
            for k in (1, 2, 3):
                add("map", n, cl, ["fx %d %d" % (k, n - 1)], [["+1", "+2", "+3"], ["+2"]])
            add("map", n, cl, ["fx 1 0", "fx 3 0"], [["+1", "+2", "+3"]])
            add("map", n, cl, ["fx 2 0"], [["+1", "+2", "+3"], ["-2"], ["+3"]])
            add("map", n, cl, ["fx 1 0"], [["+1", "+2", "+3"], ["-1", "-2"], ["+3"]])
            add("map", n, cl, ["fx 1 0"], [["+1", "+2"], ["-1", "-2", "+3", "+4"]])
            # evaluate fault, evaluate fault followed by a stop fault
            add("map", n, cl, ["fe 2 %d 2" % (n - 1)], [["+1", "+2", "+3"], ["+2", "+3"], ["+1"]])
            add("map", n, cl, ["fe 2 0 2", "fx 1 0"], [["+1", "+2", "+3"], ["+2"]])
            add("map", n, cl, ["fe 3 0 1", "fx 3 0"], [["+1", "+2"], ["+3"]])
            # re-add: the second generation fails to start / to stop
            add("map", n, cl, ["fs %d" % (2 * n + 1)], [["+1", "+2"], ["-1"], ["+1"]])
            add("map", n, cl, ["fx 1 0"], [["+1", "+2"], ["-2"], ["+2"], ["-2"]])
            # switch_: branch changes, owned and forwarding output
            for kind in ("switch", "switchb", "switchl"):
                switch_directed(add, kind, n, cl)
            # reduce_: a stop fault as the ONLY fault (root combiner / deeper combiner / every one), normal end of run
            for o in (1, 2):
                add("reduce", n, cl, ["fx %d %d" % (o, n - 1)], [["+1", "+2", "+3"], ["+2"]])
            add("reduce", n, cl, ["fx 1 0"], [["+1", "+2"]])
            add("reduce", n, cl, ["fx 1 0", "fx 2 0"], [["+1", "+2", "+3", "+4"]])
            # ... in a combiner of the generation built by a capacity growth (2 -> 4 -> 8), and after a shrink
            add("reduce", n, cl, ["fx 3 0"], [["+1", "+2"], ["+3", "+4"], ["+1"]])
            add("reduce", n, cl, ["fx 5 %d" % (n - 1)], [["+1", "+2", "+3"], ["+4", "+5"], ["+6"]])
            add("reduce", n, cl, ["fx 4 0"], [["+1", "+2", "+3", "+4"], ["-4", "-3"], ["+5", "+6", "+7"]])
            add("reduce", n, cl, ["fx 2 0"], [["+1", "+2", "+3", "+4"], ["-1"], ["-2"]])
            # a retired combiner whose stop throws (swallowed by the retire path), then a clean end
            add("reduce", n, cl, ["fx 1 0"], [["+1", "+2", "+3"], ["+4", "+5"], ["+1"]])
            add("reduce", n, cl, ["fx 2 0"], [["+1", "+2", "+3"], ["-3"], ["+1"]])
            # evaluate fault, evaluate fault followed by a stop fault, start fault (first / later combiner, after growth)
            add("reduce", n, cl, ["fe 1 0 2"], [["+1", "+2", "+3"], ["+3"], ["+1"]])
            add("reduce", n, cl, ["fe 2 %d 2" % (n - 1), "fx 1 0"], [["+1", "+2", "+3"], ["+1"], ["+2"]])
            add("reduce", n, cl, ["fe 4 0 1", "fx 3 0"], [["+1", "+2", "+3"], ["+4", "+5"]])
            for k in (1, n + 1, 2 * n + 1, 3 * n + 2):
                add("reduce", n, cl, ["fs %d" % k], [["+1", "+2", "+3"], ["+4", "+5"]])
            add("reduce", n, cl, ["fs %d" % (n + 1), "fx 1 0"], [["+1", "+2", "+3"]])
            add("reduce", n, cl, [], [["+1", "+2", "+3"], ["+2"], ["+4", "+5"], ["-1"], ["-2", "-3"], ["+9"]])
            # reduce_ with an explicit zero: one rebuild that creates one combiner and sets another one aside
            reducez_directed(add, n, cl)
    return out


def exhaustive(base):
    """small scope: every single fault point (and every pair with one stop fault) over a fixed set of map histories"""
    hists = [
        [["+1", "+2", "+3"]],
        [["+1", "+2"], ["+3"], ["-1"]],
        [["+1"], ["+2", "+3"], ["-2", "-3", "+4"]],
        [["+1", "+2", "+3"], ["-2"], ["+2", "+1"]],
        [["+1", "+2"], ["-1", "-2"], ["+1", "+2"]],
    ]
    out, i = [], base
    for hi, hcycles in enumerate(hists):
        keys = sorted({int(o[1:]) for c in hcycles for o in c if o[0] == "+"})
        for n in (1, 2):
            nstarts = sum(1 for c in hcycles for o in c if o[0] == "+") * n + 1
            singles = ["fs %d" % k for k in range(1, nstarts + 1)]
            singles += ["fe %d %d %d" % (k, p, m) for k in keys for p in range(n) for m in (1, 2)]
            stops = ["fx %d %d" % (k, p) for k in keys for p in range(n)]
            for cl in (True, False):
                for f in singles + stops:
                    out.append(mk(i, "map", n, cl, [f], hcycles)); i += 1
                for f in singles:
                    for g in stops:
                        out.append(mk(i, "map", n, cl, [f, g], hcycles)); i += 1
                if hi < 2:
                    for a in range(len(stops)):
                        for b in range(a + 1, len(stops)):
                            out.append(mk(i, "map", n, cl, [stops[a], stops[b]], hcycles)); i += 1
    rhists = [
        [["+1", "+2", "+3"]],
        [["+1", "+2"], ["+3", "+4", "+5"], ["+1"]],
        [["+1", "+2", "+3", "+4"], ["-2"], ["-1", "-3"], ["+5", "+6"]],
        [["+1", "+2", "+3"], ["-1", "-2", "-3"], ["+4", "+5"]],
    ]
    for hcycles in rhists:
        ncomb = 8
        for n in (1, 2):
            singles = ["fs %d" % k for k in range(1, ncomb * n + 1)]
            singles += ["fe %d %d %d" % (o, p, m) for o in range(1, ncomb + 1) for p in range(n) for m in (1, 2)]
            stops = ["fx %d %d" % (o, p) for o in range(1, ncomb + 1) for p in range(n)]
            for cl in (True, False):
                for f in singles + stops:
                    out.append(mk(i, "reduce", n, cl, [f], hcycles)); i += 1
                for f in singles[::3]:
                    for g in stops[::2]:
                        out.append(mk(i, "reduce", n, cl, [f, g], hcycles)); i += 1
    # reduce_ with a zero: every single fault point (and pairs with one stop fault) of the 1 <-> 2 histories in a capacity-4
    # tree and of a rebuild that creates several combiners
    zhists = [
        [["+1", "+2", "+3"], ["-2", "-3"], ["+4"], ["+1"]],
        [["+1", "+2", "+3"], ["-3"], ["-2"], ["+1"]],
        [["+1", "+2", "+3"], ["-2", "-3"], ["+4"], ["-4"], ["+5"], ["-1"]],
        [["+1", "+2", "+3"], ["-1", "-2", "-3"], ["+4", "+5", "+6"], ["-4"]],
        [[], ["+1"], ["+2"], ["+3", "+4"], ["-1", "-2"], ["-3"]],
    ]
    for hcycles in zhists:
        ncomb = 6
        for n in (1, 2):
            singles = ["fs %d" % k for k in range(1, ncomb * n + 1)]
            singles += ["fe %d %d %d" % (o, p, m) for o in range(1, ncomb + 1) for p in range(n) for m in (1, 2)]
            stops = ["fx %d %d" % (o, p) for o in range(1, ncomb + 1) for p in range(n)]
            for cl in (True, False):
                for f in singles + stops:
                    out.append(mk(i, "reducez", n, cl, [f], hcycles)); i += 1
                for f in singles[::2]:
                    for g in stops:
                        out.append(mk(i, "reducez", n, cl, [f, g], hcycles)); i += 1
    return out


def corpus():
    d = os.path.join(VERIF, "corpus", "C14DYN")
    out = []
    if os.path.isdir(d):
        for f in sorted(os.listdir(d)):
            lines = [l.rstrip("\n") for l in open(os.path.join(d, f)) if l.strip()]
            cur = None
            for l in lines:
                if l.startswith("case "):
                    cur = [l]
                    out.append(cur)
                elif cur is not None:
                    cur.append(l)
    return [Case(c, {"corpus": True}) for c in out]


def streams(rng, tier, seed):
    n = 450 if tier == "quick" else 12000
    rnd = [gen_case(rng, i) for i in range(n)]
    dire = corpus() + directed(100000)
    if tier != "quick":
        dire += exhaustive(200000)
    mc = _model()
    return [Stream("dynlife-random", DL, mc, rnd, timeout=1800),
            Stream("dynlife-directed", DL, mc, dire, timeout=1800)]


# ----------------------------------------------------------------------------- monitor (from the implementation trace alone)

EV = re.compile(r"^(G<|G>|G!|H<|H>|H!|s<|s>|s!|x<|x>|x!|ps:|ps!|px:|px!|pe:|pe!)(-?\d+|\?)#(\d+)(?:\.(\d+))?$")
RUN = re.compile(r"^res=(\S+) stop=(.*) ret=(\d+)/(\d+)/(\d+) rel=(.*) fin=(\d+)/(\d+)/(\d+)/(\d+)$")


def parse(case, out):
    """-> dict or None (not a completed run)"""
    cfg = next((l.split() for l in case.lines if l.startswith("cfg ")), None)
    if cfg is None or len(cfg) != 4 or not out or len(out) != len(case.lines):
        return None
    cyc_idx = [j for j, l in enumerate(case.lines) if l == "c" or l.startswith("c ")]
    run_idx = [j for j, l in enumerate(case.lines) if l == "run"]
    if len(run_idx) != 1 or run_idx[0] != len(case.lines) - 1:
        return None
    if any(out[j] in ("bad-op", "err:harness", "err:short") or out[j].startswith("<") for j in range(len(out))):
        return None
    m = RUN.match(out[run_idx[0]])
    if not m:
        return None

    def evs(text):
        return [] if text in ("-", "") else text.split(" ")
    seq = []     # (phase, token)  phase: cycle index | "stop" | "rel"
    dead_seen = False
    for k, j in enumerate(cyc_idx):
        if out[j] == "dead":
            dead_seen = True
            continue
        for t in evs(out[j]):
            seq.append((k, t, dead_seen))
    for t in evs(m.group(2)):
        seq.append(("stop", t, False))
    for t in evs(m.group(6)):
        seq.append(("rel", t, False))
    return {"kind": cfg[1], "n": int(cfg[2]), "cleanup": cfg[3] == "1", "res": m.group(1), "seq": seq,
            "ret": tuple(int(m.group(i)) for i in (3, 4, 5)), "fin": tuple(int(m.group(i)) for i in (7, 8, 9, 10)),
            "ncyc": len(cyc_idx), "dead": [k for k, j in enumerate(cyc_idx) if out[j] == "dead"]}


def monitor(stream, case, out):
    p = parse(case, out)
    if p is None:
        if out and any(l.startswith("<") for l in out):
            return ["[dyn-crash] the implementation driver did not complete the case: %s" % [l for l in out if l.startswith("<")][:1]]
        return []
    v = []
    must_be_clean_at_return = p["cleanup"] or p["res"] == "ok"
    st = {}                               # node -> "failed" | "started" | "stopped"   (from the probe hooks)
    order_start, order_stop = {}, {}      # child graph -> node indices in start / stop order
    open_obs = {}                         # (notification family, name) -> `before` notifications not yet closed
    obs_live = set()                      # observer: after-start seen, no before-stop yet
    first_fail = None                     # (phase, hook phase name, node): first failing hook before run() returned
    stop_fault_in_final_stop = False
    at_ret = None                         # snapshot when run() returned

    def snapshot():
        return (sum(1 for x in st.values() if x in ("started", "stopped")), sum(1 for x in st.values() if x == "stopped"),
                len(obs_live), sorted(n for n, x in st.items() if x == "started"))
    closes = {"s>": "s", "s!": "s", "x>": "x", "G>": "G", "G!": "G", "H>": "H"}
    family = {"s": "start", "x": "stop", "G": "graph start", "H": "graph stop"}
    for (ph, tok, after_dead) in p["seq"]:
        if ph == "rel" and at_ret is None:
            at_ret = snapshot()
        m = EV.match(tok)
        if not m:
            v.append("[dyn-trace] unreadable event %r" % tok)
            continue
        tag, key, gen, idx = m.group(1), m.group(2), m.group(3), m.group(4)
        child = "%s#%s" % (key, gen)
        node = child if idx is None else "%s.%s" % (child, idx)
        if key == "?":
            v.append("[dyn-trace] a child graph instance without a key: %s" % tok)
        if after_dead:
            v.append("[dyn-after-failure] event %s in a cycle after the one that failed" % tok)
        if tag in ("ps:", "ps!"):
            if node in st:
                v.append("[dyn-start-twice] start hook of %s entered again (it is %s)" % (node, st[node]))
            st[node] = "started" if tag == "ps:" else "failed"
            if tag == "ps:":
                order_start.setdefault(child, []).append(int(idx))
        elif tag in ("pe:", "pe!"):
            if st.get(node) != "started":
                v.append("[dyn-eval-outside] %s evaluated while %s" % (node, st.get(node, "not started")))
        elif tag in ("px:", "px!"):
            if st.get(node) == "stopped":
                v.append("[dyn-stop-twice] %s stopped again" % node)
            elif st.get(node) != "started":
                v.append("[dyn-stop-unstarted] %s stopped without a completed start (%s)" % (node, st.get(node, "never started")))
            st[node] = "stopped"
            order_stop.setdefault(child, []).append(int(idx))
            if tag == "px!" and ph == "stop":
                stop_fault_in_final_stop = True
        # events are in time order: the first failing hook before run() returned is the failure that is not swallowed.
        # (reduce_ stops the combiners it retires DURING a run through its noexcept retire / rollback paths: a stop fault
        # there is swallowed by design; only the parent's own stop reports combiner stop errors.)
        swallowed = p["kind"].startswith("reduce") and tag == "px!" and ph not in ("stop", "rel")
        if tag in ("ps!", "pe!", "px!") and first_fail is None and ph != "rel" and not swallowed:
            first_fail = (ph, {"ps!": "start", "pe!": "evaluate", "px!": "stop"}[tag], node)
        # observer pairing: every `before` is closed by an `after` (or, for a start, by `failed`)
        if tag in ("s<", "x<", "G<", "H<"):
            open_obs[(tag[0], node)] = open_obs.get((tag[0], node), 0) + 1
        elif tag in closes:
            k2 = (closes[tag], node)
            if open_obs.get(k2, 0) <= 0:
                v.append("[dyn-observer] %s without a matching `before`" % tok)
            else:
                open_obs[k2] -= 1
        elif tag in ("x!", "H!"):
            if open_obs.get((tag[0], node), 0) <= 0:
                v.append("[dyn-observer] %s outside a stop" % tok)
        if tag == "s>":
            obs_live.add(node)
            if st.get(node) != "started":
                v.append("[dyn-observer] after-start notification for %s whose start hook did not complete" % node)
        if tag == "x<":
            obs_live.discard(node)
    if at_ret is None:
        at_ret = snapshot()
    left_at_ret = at_ret[3]
    # exactly once, in time
    if must_be_clean_at_return and left_at_ret:
        tagname = "[dyn-left-started-after-stop-fault]" if stop_fault_in_final_stop else "[dyn-left-started]"
        v.append("%s started but not stopped when run() returned (cleanup_on_error=%d, res=%s): %s"
                 % (tagname, 1 if p["cleanup"] else 0, p["res"], left_at_ret[:4]))
    left_final = sorted(n for n, x in st.items() if x == "started")
    if left_final:
        v.append("[dyn-left-started-at-release] never stopped, even by the release of the executor: %s" % left_final[:4])
    for k2, c in sorted(open_obs.items()):
        if c > 0:
            v.append("[dyn-observer] `before %s` of %s without `after`" % (family[k2[0]], k2[1]))
    # order inside a child graph: nodes start in rank order, stop in the reverse order
    for child, s_order in order_start.items():
        if s_order != sorted(s_order):
            v.append("[dyn-order] child %s: start order %s" % (child, s_order))
        x_order = order_stop.get(child, [])
        if x_order and x_order != sorted(x_order, reverse=True):
            v.append("[dyn-order] child %s: stop order %s is not the reverse of the start order %s" % (child, x_order, s_order))
    # the counters the harness took at the return of run() and after the release (not derived from the event log)
    if at_ret[:3] != p["ret"]:
        v.append("[dyn-counters] counters at return %s differ from the event log %s" % (p["ret"], at_ret[:3]))
    if must_be_clean_at_return and not left_at_ret and (p["ret"][0] != p["ret"][1] or p["ret"][2] != 0):
        v.append("[dyn-left-started] counters at the return of run(): started=%d stopped=%d observer-live=%d" % p["ret"])
    f = p["fin"]
    if f[0] != f[1] or f[2] != 0 or f[3] != 0:
        v.append("[dyn-left-started-at-release] counters after release: started=%d stopped=%d double=%d observer-live=%d" % f)
    # the error that reaches the caller is the first failure and names the failing node
    if first_fail is None:
        want = "ok"
    else:
        want = "err:%s/%s:%s" % ("stop" if first_fail[0] == "stop" else "evaluate", first_fail[1], first_fail[2])
    if p["res"] != want:
        v.append("[dyn-error] run() reported %s, the first failure was %s" % (p["res"], want))
    if first_fail is not None and first_fail[0] != "stop":
        later = [k for k in range(first_fail[0] + 1, p["ncyc"]) if k not in p["dead"]]
        if later:
            v.append("[dyn-after-failure] cycles %s ran after the failure in cycle %d" % (later[:3], first_fail[0]))
    return v


# ----------------------------------------------------------------------------- features / non-trivial

def features(stream, case, out):
    p = parse(case, out)
    if p is None:
        return ["dyn:unparsed"]
    toks = [t for (_, t, _) in p["seq"]]
    f = ["dyn:kind=%s" % p["kind"], "dyn:n=%d" % p["n"], "dyn:cleanup=%d" % (1 if p["cleanup"] else 0),
         "dyn:res=%s" % re.sub(r":.*", "", p["res"])]
    for tag, name in (("ps!", "start"), ("pe!", "evaluate"), ("px!", "stop")):
        if any(t.startswith(tag) for t in toks):
            f.append("dyn:fault-fired=%s" % name)
    nf = sum(1 for t in toks if t[:3] in ("ps!", "pe!", "px!"))
    f.append("dyn:faults-fired=%d" % min(nf, 3))
    first = [t for (ph, t, _) in p["seq"] if ph == 0 and t.startswith("G<")]
    f.append("dyn:first-batch=%d" % min(len(first), 4))
    if any(ph not in ("stop", "rel") and t.startswith("H<") for (ph, t, _) in p["seq"]):
        f.append("dyn:child-stopped-at-run-time")
    if any(t.startswith("G<") and not t.endswith("#1") for t in toks):
        f.append("dyn:re-created-key")
    if any(ph == "rel" for (ph, _, _) in p["seq"]):
        f.append("dyn:stops-at-release")
    if p["kind"].startswith("switch"):
        nb = sum(1 for t in toks if t.startswith("G<"))
        f.append("dyn:%s-key-changes=%s" % (p["kind"], "none" if nb <= 1 else str(min(nb - 1, 3))))
        if nb >= 2 and any(t.startswith("px!") for (ph, t, _) in p["seq"] if ph not in ("stop", "rel")):
            f.append("dyn:%s-outgoing-stop-fault" % p["kind"])
        if nb >= 2 and any(t.startswith("ps!") for t in toks):
            f.append("dyn:%s-incoming-start-fault" % p["kind"])
    if p["kind"].startswith("reduce"):
        ords = [int(t[2:].split("#")[0]) for t in toks if t.startswith("G<")]
        f.append("dyn:reduce-combiners=%s" % ("0" if not ords else "1-2" if max(ords) <= 2 else "3-6" if max(ords) <= 6 else "7+"))
        fired = [(ph, t[:3]) for (ph, t, _) in p["seq"] if t[:3] in ("ps!", "pe!", "px!")]
        if fired and all(ph == "stop" and tg == "px!" for ph, tg in fired):
            f.append("dyn:reduce-stop-fault-is-the-only-fault")
        if any(ph not in ("stop", "rel") and tg == "px!" for ph, tg in fired):
            f.append("dyn:reduce-retired-combiner-stop-fault-swallowed")
        # a cycle (after the first) that creates >= 3 combiners while stopping old ones: a capacity-growth rebuild
        for k in range(1, p["ncyc"]):
            cyc = [t for (ph, t, _) in p["seq"] if ph == k]
            if sum(1 for t in cyc if t.startswith("G<")) >= 3 and any(t.startswith("H<") for t in cyc):
                f.append("dyn:reduce-growth-rebuild")
                if any(ph == "stop" and t.startswith("px!") for (ph, t, _) in p["seq"]):
                    f.append("dyn:reduce-stop-fault-after-growth")
                break
    if p["kind"].startswith("reduce"):
        cyc_ops = [l.split()[1:] for l in case.lines if l == "c" or l.startswith("c ")]
        for k, rec in enumerate(rz_sim(cyc_ops, zero=p["kind"] == "reducez")):
            if rec and k not in p["dead"] and len(rec["created"]) >= 2 and not rec["grew"]:
                cyc = [t for (ph, t, _) in p["seq"] if ph == k]
                fail = next((j for j, t in enumerate(cyc) if t.startswith("G!")), None)
                if fail is not None and any(t.startswith("G>") for t in cyc[:fail]):
                    f.append("dyn:%s-later-created-start-fault-same-capacity" % p["kind"])
    if p["kind"] == "reducez":
        cycles = [l.split()[1:] for l in case.lines if l == "c" or l.startswith("c ")]
        sim = rz_sim(cycles)
        caps = [rec["cap"] for rec in sim if rec]
        f.append("dyn:rz-capacity=%d" % (max(caps) if caps else 0))
        if cycles and not cycles[0]:
            f.append("dyn:rz-zero-only-first-cycle")
        for k, rec in enumerate(sim):
            if not rec or k in p["dead"]:
                continue
            cyc = [t for (ph, t, _) in p["seq"] if ph == k]
            if rec["created"] and rec["retired"] and not rec["grew"]:
                step = "%d->%d" % (rec["live0"], rec["live1"])
                f.append("dyn:rz-create-and-retire-in-one-rebuild")
                f.append("dyn:rz-create-and-retire-step=%s" % (step if step in ("1->2", "2->1") else "other"))
                if any(t.startswith("ps!") for t in cyc):
                    f.append("dyn:rz-created-start-fault-with-set-aside-combiner(cleanup=%d)" % (1 if p["cleanup"] else 0))
                    if sum(1 for t in p["seq"] if t[1].startswith("px!")):
                        f.append("dyn:rz-created-start-fault+stop-fault")
                if any(t.startswith("pe!") for t in cyc):
                    f.append("dyn:rz-evaluate-fault-in-create-and-retire-cycle")
                if any(t.startswith("px!") for t in cyc):
                    f.append("dyn:rz-set-aside-combiner-stop-fault-swallowed")
            elif rec["grew"] and rec["retired"] and any(t.startswith("ps!") for t in cyc):
                f.append("dyn:rz-growth-start-fault-with-old-generation")
            elif rec["created"] and not rec["retired"] and any(t.startswith("ps!") for t in cyc):
                f.append("dyn:rz-created-start-fault-nothing-set-aside")
    if any(t.startswith("G!") for t in toks):
        f.append("dyn:child-start-failed")
        # started siblings alive when a child start failed
        st = set()
        for t in toks:
            if t.startswith("G>"):
                st.add(t[2:])
            elif t.startswith("H<"):
                st.discard(t[2:])
            elif t.startswith("G!"):
                f.append("dyn:siblings-at-start-failure=%d" % min(len(st), 3))
                break
    if sum(1 for (ph, t, _) in p["seq"] if ph == "stop" and t.startswith("px!")) and \
            sum(1 for (ph, t, _) in p["seq"] if ph == "stop" and t.startswith("H<")) >= 2:
        f.append("dyn:stop-fault-with-siblings-at-parent-stop")
    return f


def nontrivial(stream, case, out):
    p = parse(case, out)
    if p is None:
        return False
    toks = [(ph, t) for (ph, t, _) in p["seq"]]
    fired = any(t[:3] in ("ps!", "pe!", "px!") for _, t in toks)
    dyn_stop = any(ph not in ("stop", "rel") and t.startswith("H<") for ph, t in toks)
    return any(t.startswith("G>") or t.startswith("G!") for _, t in toks) and (fired or dyn_stop)


def valid_case(stream, case, impl_out, model_out):
    """a shrunk case must still be a complete run of a well-formed history"""
    return parse(case, impl_out) is not None
