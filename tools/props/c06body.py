"""C06 (interning key INSIDE a compiled sub-graph body) - boundary sources: declared argument #k vs captured outer port #k.

Streams `bodykey-*` feed textual body programs to harness/drv_bodykey.cpp (hgv_bodykey) and to the model driver
lean/Drivers/BodyKey.lean (HgVerif.BodyKey.runB: Wiring::capture_outer_source + Wiring::add_node with the SourceKey as
coded - kind, peered path, boundary_arg = declared argument index OR LOCAL capture index, boundary_path, captured_boundary).
One case = ONE body (1-3 declared arguments TS<Int> / TSL<TS<Int>,2>, 0-3 captured outer ports, 3-10 declarations + recorder
sinks) wired in 2-3 admissible statement orders, each order with its own order of context::get imports, once as a nested_
child wiring and once inlined into the parent.  `run` prints which WiringInstance every value declaration denotes (nested:
ids, inlined: iids) and what every recorder saw in every engine cycle (nrec / irec).

The monitor decides the property from the program text and that output alone: declarations that differ in any input
(definition, scalar, kind of source, argument index, OUTER port, path, producer) must not share an instance; every recorder's
stream is the stream the dataflow prescribes, in every statement order, nested and inlined.  "May share" is never demanded.
Merged into tools/props/c06.py (dispatch on the stream name prefix `bodykey`).
"""
import os
from vlib import Case, Stream, BUILD, model_cmd

ID = "C06B"
LEAN_MODULES = ["HgVerif.Props.C06BodyKey", "HgVerif.Lemmas.BodyKey", "HgVerif.Model.BodyKey"]
THEOREMS = ["HgVerif.BodyKey.arg_capture_distinct", "HgVerif.BodyKey.loc_injective", "HgVerif.BodyKey.transK_eq_final",
            "HgVerif.BodyKey.wireB_env", "HgVerif.BodyKey.body_same_iff", "HgVerif.BodyKey.body_tree_eq_iff",
            "HgVerif.BodyKey.body_decl_same_iff", "HgVerif.BodyKey.body_order_irrelevant", "HgVerif.BodyKey.body_declares",
            "HgVerif.BodyKey.body_values", "HgVerif.BodyKey.body_label_value", "HgVerif.BodyKey.body_obs_value",
            "HgVerif.BodyKey.body_obs_all", "HgVerif.BodyKey.body_obs_order_irrelevant",
            "HgVerif.BodyKey.rel_wireL", "HgVerif.BodyKey.kv_wireV", "HgVerif.BodyKey.semV_order_irrelevant",
            "HgVerif.BodyKey.kindless_key_merges", "HgVerif.BodyKey.exBody_adm", "HgVerif.BodyKey.exBodyR_adm"]
CXX_TARGETS = ["hgv_bodykey"]
RULE = ("bodykey streams: ONE sub-graph body per case (1-3 declared arguments TS<Int> / TSL<TS<Int>,2>, 0-3 captured outer "
        "ports imported through context::get, 3-10 declarations f1 g1 f2 g2 with an Int scalar applied to argument #k, "
        "captured port #k, an element below either, another declaration's output; recorder sinks) attached nested_ and "
        "inlined to a parent that feeds a different scripted stream (2-5 cycles) into every argument and captured port; "
        "declarations come in twins that differ in exactly one key dimension: declared argument #k vs the captured port whose "
        "LOCAL capture index is k (k = 0, 1, 2; same path) - the pair the seed s111 merges -, argument #j vs captured #k "
        "(j != k), the same captured port twice / the same argument twice (may share), element 0 vs element 1, another "
        "definition, another scalar, swapped inputs, the twins again behind a consumer; every case wires the SAME "
        "declarations in 2-3 admissible statement orders, each with its own import prologue (so the local capture indices "
        "differ between the orders); stream bodykey-pairs enumerates (k, argument type, signature, which captured port gets "
        "local index k) systematically in both twin orders.  Non-trivial = >= 2 orders and a duplicate or near-duplicate "
        "pair of value declarations; distinct by program text")
TRUSTED = ["body-key streams: schema / output kind / rank flag / passive marker of SourceKey and InputKey are the same for "
           "every input of these programs (all leaves TS<Int>, plain usages) and are not in the model's key; the value "
           "semantics of the four node definitions and of the tick rule (a node runs iff an input ticked and all are valid) "
           "is written twice (monitor, model driver) and tied to the code by the recorded streams"]
ASSUMPTIONS = ["body-key streams: the body is attached with nested_ (and inlined); try_except_ / map_ / switch_ children use the "
               "same child-wiring path (compile_subgraph_impl / finish_subgraph) but are not instantiated here; outer sources "
               "of arguments and captured ports are peered node outputs; captured ports are imported through context::get "
               "(Wiring::capture_outer_source) - a closure reference to an outer Port is a foreign PEERED source at wiring "
               "time and is not keyed as a boundary source"]
USES_EXTRACT = False

IMPL = [os.path.join(BUILD, "hgv_bodykey")]
SIGS = ["s", "l", "ss", "sl", "ls", "ll", "sss", "ssl", "sls", "lss"]
ARITY = {"f1": 1, "g1": 1, "f2": 2, "g2": 2}
FN = {"f1": lambda v, k: v[0] + k, "g1": lambda v, k: 2 * v[0] + k,
      "f2": lambda v, k: 10 * v[0] + v[1] + k, "g2": lambda v, k: 3 * v[0] - v[1] + k}


# ----------------------------------------------------------------------------- program text
# src: ("a", k, elem) | ("c", k, elem) | ("o", label)      elem: None (whole TS<Int> port) | 0 | 1
# decl: dict(op = "node" | "rec", lbl, d, k, srcs)

def src_s(s):
    if s[0] == "o":
        return s[1]
    return ("$" if s[0] == "a" else "@") + str(s[1]) + ("" if s[2] is None else ".%d" % s[2])


def decl_s(d):
    if d["op"] == "rec":
        return "rec %s %s" % (d["lbl"], src_s(d["srcs"][0]))
    return "node %s %s %d %s" % (d["lbl"], d["d"], d["k"], " ".join(src_s(s) for s in d["srcs"]))


def parse_src(t):
    if t[0] in "$@":
        return ("a" if t[0] == "$" else "c", int(t[1]), int(t[3]) if len(t) == 4 else None)
    return ("o", t)


def parse_decl(w):
    if w[0] == "rec":
        return dict(op="rec", lbl=w[1], d="rec", k=0, srcs=[parse_src(w[2])])
    return dict(op="node", lbl=w[1], d=w[2], k=int(w[3]), srcs=[parse_src(t) for t in w[4:]])


def parse_case(case, out):
    """-> dict(sig, caps, hist, segs=[dict(pre, decls, out)])"""
    p = dict(sig="", caps="", hist=[], segs=[])
    cur = None
    for i, ln in enumerate(case.lines):
        w = ln.split()
        o = out[i] if i < len(out) else "<none>"
        if not w:
            continue
        if w[0] == "body":
            p["sig"], p["caps"] = w[1], ("" if w[2] == "-" else w[2])
        elif w[0] == "in":
            p["hist"] = [[None if x == "-" else int(x) for x in t.split(",")] for t in w[1:]]
        elif w[0] in ("pre", "node", "rec", "run"):
            if cur is None:
                cur = dict(pre=[], decls=[], out=None)
                p["segs"].append(cur)
            if w[0] == "pre":
                cur["pre"] = [int(t[1]) for t in w[1:]]
            elif w[0] == "run":
                cur["out"] = o
                cur = None
            else:
                cur["decls"].append(parse_decl(w))
        elif w[0] == "reset":
            cur = None
    return p


def parse_run(line):
    """-> (ids, iids, nrec, irec): ids = [(label, n)], recs = {label: stream text}"""
    parts = dict(x.split("=", 1) for x in line.split(" "))

    def ids(t):
        return [(x.rsplit(":", 1)[0], int(x.rsplit(":", 1)[1])) for x in t.split(",") if x]

    def recs(t):
        return dict(x.split(":", 1) for x in t.split(";") if x)
    return ids(parts["ids"]), ids(parts["iids"]), recs(parts["nrec"]), recs(parts["irec"])


# ----------------------------------------------------------------------------- the dataflow reading

def chan_base(shape, k):
    return sum(1 if c == "s" else 2 for c in shape[:k])


def trees_of(decls):
    """the expression tree of every value label: WHAT the declaration computes, independent of labels, of the
    statement order and of the import order (a captured input is named by the outer port c<k>)"""
    tree = {}
    for d in decls:
        if d["op"] != "node":
            continue
        tree[d["lbl"]] = (d["d"], d["k"], tuple(tree[s[1]] if s[0] == "o" else s for s in d["srcs"]))
    return tree


def streams_of(p, decls):
    """label -> stream of every declaration by the dataflow: a node ticks in a cycle iff one of its inputs ticks and all of
    them are valid; a recorder sees its input"""
    T = len(p["hist"][0])
    off = chan_base(p["sig"], len(p["sig"]))
    val = {}

    def src_stream(s):
        if s[0] == "o":
            return val[s[1]]
        base = chan_base(p["sig"], s[1]) if s[0] == "a" else off + chan_base(p["caps"], s[1])
        return p["hist"][base + (s[2] or 0)]
    for d in decls:
        ins = [src_stream(s) for s in d["srcs"]]
        if d["op"] == "rec":
            val[d["lbl"]] = list(ins[0])
            continue
        cur, outp = [None] * len(ins), []
        for t in range(T):
            ticked = False
            for j, s in enumerate(ins):
                if s[t] is not None:
                    cur[j], ticked = s[t], True
            outp.append(FN[d["d"]](cur, d["k"]) if ticked and all(c is not None for c in cur) else None)
        val[d["lbl"]] = outp
    return val


def stream_s(s):
    return "/".join("-" if v is None else str(v) for v in s)


def why_different(a, b):
    if a[0] != b[0]:
        return "definition"
    if a[1] != b[1]:
        return "scalar"
    for i, (x, y) in enumerate(zip(a[2], b[2])):
        if x == y:
            continue
        lx, ly = isinstance(x[0], str) and x[0] in "ac" and len(x) == 3, isinstance(y[0], str) and y[0] in "ac" and len(y) == 3
        if lx and ly:
            if x[0] != y[0]:
                return "KIND of the source of input %d (declared argument %s vs captured outer port %s)" % (
                    i, src_s(x if x[0] == "a" else y), src_s(x if x[0] == "c" else y))
            if x[1] != y[1]:
                return "%s of input %d" % ("argument index" if x[0] == "a" else "captured outer port", i)
            return "path of input %d" % i
        if lx != ly:
            return "kind of the source of input %d (boundary source vs node output)" % i
        return "producer of input %d" % i
    return "?"


def local_indices(p, seg):
    """captured port -> its LOCAL capture index in this statement order (order of first import)"""
    order = []
    for k in seg["pre"]:
        if k not in order:
            order.append(k)
    for d in seg["decls"]:
        for s in d["srcs"]:
            if s[0] == "c" and s[1] not in order:
                order.append(s[1])
    return {k: i for i, k in enumerate(order)}


# ----------------------------------------------------------------------------- the property on one trace

def check_trace(case, out):
    bad = []
    if any(("bad-op" in l) or l.startswith("<") for l in out):
        return bad
    p = parse_case(case, out)
    seen_recs = []
    for j, seg in enumerate(p["segs"]):
        o = seg["out"]
        if o is None:
            continue
        if o.startswith("err:"):
            bad.append("[build] statement order %d of a well-formed body: %s (every declaration wires alone)" % (j, o))
            continue
        ids, iids, nrec, irec = parse_run(o)
        tree = trees_of(seg["decls"])
        values = [d["lbl"] for d in seg["decls"] if d["op"] == "node"]
        for name, got in (("nested", ids), ("inlined", iids)):
            if [l for l, _ in got] != values:
                bad.append("[shape] %s wiring of order %d reports the declarations %s, the body declares %s"
                           % (name, j, [l for l, _ in got], values))
                continue
            # equal declarations MAY share one instance (never demanded); different ones must not
            for x in range(len(got)):
                for y in range(x + 1, len(got)):
                    (la, na), (lb, nb) = got[x], got[y]
                    if na == nb and tree[la] != tree[lb]:
                        bad.append("[merge] %s body, statement order %d: declarations %s and %s differ in the %s but were "
                                   "interned into ONE node" % (name, j, la, lb, why_different(tree[la], tree[lb])))
        want = streams_of(p, seg["decls"])
        for d in seg["decls"]:
            if d["op"] != "rec":
                continue
            w = stream_s(want[d["lbl"]])
            for name, got in (("nested", nrec), ("inlined", irec)):
                if got.get(d["lbl"]) != w:
                    bad.append("[stream] %s body, statement order %d: recorder %s (%s) saw [%s] but the dataflow gives [%s]"
                               % (name, j, d["lbl"], decl_s(d), got.get(d["lbl"], "<missing>"), w))
        if nrec != irec:
            bad.append("[nested-vs-inlined] statement order %d: the nested body records %s, the inlined one %s"
                       % (j, sorted(nrec.items()), sorted(irec.items())))
        seen_recs.append((j, nrec))
    for j, r in seen_recs[1:]:
        if r != seen_recs[0][1]:
            bad.append("[order] statement order %d records different streams than order %d: %s vs %s"
                       % (j, seen_recs[0][0], sorted(r.items()), sorted(seen_recs[0][1].items())))
    return bad


def monitor(stream, case, out):
    return check_trace(case, out)[:3]


# ----------------------------------------------------------------------------- coverage

def pair_kind(p, seg, a, b, loc):
    """names the single key dimension two value declarations differ in (None: more than one / other shapes)"""
    if a["op"] != "node" or b["op"] != "node" or len(a["srcs"]) != len(b["srcs"]):
        return None
    diffs = []
    if a["d"] != b["d"]:
        diffs.append("definition")
    if a["k"] != b["k"]:
        diffs.append("scalar")
    if a["srcs"] != b["srcs"] and sorted(map(repr, a["srcs"])) == sorted(map(repr, b["srcs"])):
        diffs.append("input-order")
    else:
        for x, y in zip(a["srcs"], b["srcs"]):
            if x == y:
                continue
            if x[0] == "o" or y[0] == "o":
                diffs.append("producer" if x[0] == y[0] else "boundary-vs-output")
            elif x[0] != y[0]:
                ar, cp = (x, y) if x[0] == "a" else (y, x)
                same_ty = p["sig"][ar[1]] == p["caps"][cp[1]]
                if ar[2] == cp[2] and same_ty and loc.get(cp[1]) == ar[1]:
                    diffs.append("arg#%d-vs-capture-with-local-index-%d%s" % (ar[1], ar[1], "" if ar[2] is None else "-elem"))
                elif ar[2] == cp[2] and same_ty:
                    diffs.append("arg#j-vs-capture#k")
                else:
                    diffs.append("arg-vs-capture-other-path")
            elif x[1] != y[1]:
                diffs.append("other-argument" if x[0] == "a" else "other-captured-port")
            else:
                diffs.append("path")
    if not diffs:
        return "equal:" + ("captured" if any(s[0] == "c" for s in a["srcs"]) else
                           "argument" if any(s[0] == "a" for s in a["srcs"]) else "outputs")
    return diffs[0] if len(diffs) == 1 else None


def features(stream, case, out):
    f = set()
    p = parse_case(case, out)
    f.add("orders:%d" % len(p["segs"]))
    f.add("sig:" + p["sig"])
    f.add("captured-ports:%d" % len(p["caps"]))
    if "l" in p["caps"]:
        f.add("captured-TSL")
    if not p["segs"]:
        return sorted(f)
    n = len(p["segs"][0]["decls"])
    f.add("decls:%s" % ("<=4" if n <= 4 else "5-8" if n <= 8 else "9-14" if n <= 14 else ">14"))
    f.add("cycles:%d" % len(p["hist"][0]))
    locs = [local_indices(p, seg) for seg in p["segs"]]
    if len({tuple(sorted(l.items())) for l in locs}) > 1:
        f.add("local-capture-indices-differ-between-orders")
    if any(seg["pre"] for seg in p["segs"]):
        f.add("import-prologue")
    if any(len(l) < len(p["caps"]) for l in locs):
        f.add("published-port-never-imported")
    for seg, loc in zip(p["segs"], locs):
        ds = seg["decls"]
        tree = trees_of(ds)
        for i in range(len(ds)):
            for j in range(i + 1, len(ds)):
                kind = pair_kind(p, seg, ds[i], ds[j], loc)
                if kind:
                    f.add("twin:" + kind)
                elif ds[i]["op"] == ds[j]["op"] == "node" and tree[ds[i]["lbl"]] == tree[ds[j]["lbl"]]:
                    f.add("twin:equal-through-shared-producers")
        if seg["out"] and seg["out"].startswith("ids="):
            ids = parse_run(seg["out"])[0]
            if len({n for _, n in ids}) < len(ids):
                f.add("some-node-shared")
        if any(d["op"] == "rec" and d["srcs"][0][0] != "o" for d in ds):
            f.add("recorder-on-a-boundary-source")
    return sorted(f)


def nontrivial(stream, case, out):
    p = parse_case(case, out)
    if len(p["segs"]) < 2:
        return False
    seg = p["segs"][0]
    loc = local_indices(p, seg)
    ds = seg["decls"]
    return any(pair_kind(p, seg, a, b, loc) for i, a in enumerate(ds) for b in ds[i + 1:])


def alarm_filter(stream, case, impl_out, model_out):
    return True, []          # the model predicts every line exactly


def valid_case(stream, case, impl_out, model_out):
    for o in (impl_out, model_out):
        if o is not None and any(("bad-op" in l) or l.startswith("<") for l in o):
            return False
    return any(l.split() == ["run"] for l in case.lines)


# ----------------------------------------------------------------------------- generator

class Body:
    def __init__(self, rng, sig, caps):
        self.rng, self.sig, self.caps = rng, sig, caps
        self.decls, self.n = [], 0

    def label(self, prefix):
        self.n += 1
        return "%s%d" % (prefix, self.n)

    def node(self, d, k, srcs, prefix="v"):
        lbl = self.label(prefix)
        self.decls.append(dict(op="node", lbl=lbl, d=d, k=k, srcs=list(srcs)))
        return ("o", lbl)

    def rec(self, src):
        self.decls.append(dict(op="rec", lbl=self.label("r"), d="rec", k=0, srcs=[src]))

    def boundary(self, kind, k, elem=None):
        shape = self.sig if kind == "a" else self.caps
        if shape[k] == "s":
            return (kind, k, None)
        return (kind, k, self.rng.choice([0, 1]) if elem is None else elem)

    def rand_boundary(self):
        pool = [("a", k) for k in range(len(self.sig))] + [("c", k) for k in range(len(self.caps))] * 2
        kind, k = self.rng.choice(pool)
        return self.boundary(kind, k)

    def rand_src(self):
        outs = [("o", d["lbl"]) for d in self.decls if d["op"] == "node"]
        if outs and self.rng.random() < 0.4:
            return self.rng.choice(outs[-5:])
        return self.rand_boundary()

    def twin_sources(self):
        """two sources that differ in exactly one dimension (or not at all) -> (kind, a, b)"""
        rng = self.rng
        na, nc = len(self.sig), len(self.caps)
        kinds = ["same-arg", "arg-arg"]
        if nc:
            kinds += ["arg-cap-same-index"] * 5 + ["arg-cap-other-index"] * 2 + ["same-cap"] * 2
        if nc >= 2:
            kinds += ["cap-cap"]
        if "l" in self.sig or "l" in self.caps:
            kinds += ["path"] * 2
        kind = rng.choice(kinds)
        if kind == "same-arg":
            a = self.boundary("a", rng.randrange(na))
            return kind, a, a
        if kind == "arg-arg":
            k = rng.randrange(na)
            same = [j for j in range(na) if j != k and self.sig[j] == self.sig[k]]
            if not same:
                a = self.boundary("a", k)
                return "same-arg", a, a
            e = rng.choice([0, 1])
            return kind, self.boundary("a", k, e), self.boundary("a", rng.choice(same), e)
        if kind == "same-cap":
            c = self.boundary("c", rng.randrange(nc))
            return kind, c, c
        if kind == "cap-cap":
            k = rng.randrange(nc)
            same = [j for j in range(nc) if j != k and self.caps[j] == self.caps[k]]
            if not same:
                c = self.boundary("c", k)
                return "same-cap", c, c
            e = rng.choice([0, 1])
            return kind, self.boundary("c", k, e), self.boundary("c", rng.choice(same), e)
        if kind == "path":
            cands = [("a", k) for k in range(na) if self.sig[k] == "l"] + [("c", k) for k in range(nc) if self.caps[k] == "l"]
            kd, k = rng.choice(cands)
            return kind, (kd, k, 0), (kd, k, 1)
        # an argument and a captured port of the same type, same element: the import prologue decides the local index
        pairs = [(j, k) for j in range(na) for k in range(nc) if self.sig[j] == self.caps[k]]
        if not pairs:
            a = self.boundary("a", rng.randrange(na))
            return "same-arg", a, a
        j, k = rng.choice(pairs)
        e = rng.choice([0, 1])
        return kind, self.boundary("a", j, e), self.boundary("c", k, e)


def gen_feeds(rng, sig, caps):
    """a different stream for every input channel; every channel ticks at least once; 2-5 cycles"""
    T = rng.randint(2, 5)
    chans = sum(1 if c == "s" else 2 for c in sig + caps)
    hist = []
    for j in range(chans):
        while True:
            col = [((j + 1) * 100 + rng.randint(0, 9) * 10 + t) if rng.random() < 0.6 else None for t in range(T)]
            if any(v is not None for v in col) and col not in hist:
                break
        hist.append(col)
    return hist


def pre_for(rng, body, order, want=None):
    """an import prologue for one statement order; want = (captured port, local index it shall get) when possible"""
    nc = len(body.caps)
    if nc == 0:
        return []
    if want is not None:
        c, idx = want
        others = [k for k in range(nc) if k != c]
        rng.shuffle(others)
        if len(others) >= idx:
            return others[:idx] + [c]
    r = rng.random()
    if r < 0.4:
        return []
    ks = list(range(nc))
    rng.shuffle(ks)
    return ks[:rng.randint(1, nc)]


def refs(d):
    return {s[1] for s in d["srcs"] if s[0] == "o"}


def topo_shuffle(rng, decls):
    left, done, order = list(decls), set(), []
    while left:
        ready = [d for d in left if refs(d) <= done]
        d = rng.choice(ready)
        left.remove(d)
        done.add(d["lbl"])
        order.append(d)
    return order


def topo_reverse(decls):
    left, done, order = list(decls), set(), []
    while left:
        d = [d for d in left if refs(d) <= done][-1]
        left.remove(d)
        done.add(d["lbl"])
        order.append(d)
    return order


def case_of(idx, sig, caps, hist, orders):
    """orders: [(pre, decls)]"""
    L = ["case %d" % idx, "body %s %s" % (sig, caps or "-"),
         "in " + " ".join(",".join("-" if v is None else str(v) for v in col) for col in hist)]
    for j, (pre, decls) in enumerate(orders):
        if j:
            L.append("reset")
        if pre:
            L.append("pre " + " ".join("@%d" % k for k in pre))
        L += [decl_s(d) for d in decls] + ["run"]
    return Case(L)


def gen_case(rng, idx):
    sig = rng.choice(SIGS + ["s", "ss", "sss", "ss", "sss"])
    nc = rng.choice([0, 1, 1, 2, 2, 3, 3])
    caps = "".join(rng.choice("sssl") for _ in range(nc))
    if nc and rng.random() < 0.7:
        # make an argument / captured-port pair of one type likely
        k = rng.randrange(nc)
        caps = caps[:k] + rng.choice(sig) + caps[k + 1:]
    b = Body(rng, sig, caps)
    target = rng.randint(3, 10)
    wants = []
    while sum(1 for d in b.decls if d["op"] == "node") < target:
        r = rng.random()
        if r < 0.65:
            kind, x, y = b.twin_sources()
            if kind.startswith("arg-cap"):
                wants.append((y[1], x[1]))
            d = rng.choice(["f1", "f1", "g1", "f2", "g2"])
            k = rng.choice([0, 0, 1, 2])
            if ARITY[d] == 1:
                px = b.node(d, k, [x])
                py = b.node(d if rng.random() < 0.9 else ("g1" if d == "f1" else "f1"), k if rng.random() < 0.9 else k + 1, [y])
            else:
                other = b.rand_src()
                if rng.random() < 0.5:
                    px, py = b.node(d, k, [x, other]), b.node(d, k, [y, other])
                else:
                    px, py = b.node(d, k, [other, x]), b.node(d, k, [other, y])
            r2 = rng.random()
            if r2 < 0.35:
                # the twins again, one level up: consumers of the twins differ only in their producer
                d2, k2 = rng.choice(["f1", "g1"]), rng.choice([0, 1])
                px, py = b.node(d2, k2, [px]), b.node(d2, k2, [py])
            if r2 < 0.7:
                b.rec(px)
                b.rec(py)
            else:
                b.rec(b.node("f2", 0, [px, py], "m"))
                if rng.random() < 0.5:
                    b.rec(py)
        elif r < 0.85:
            d = rng.choice(list(ARITY))
            b.node(d, rng.choice([0, 1, 2]), [b.rand_src() for _ in range(ARITY[d])])
        else:
            cands = [x for x in b.decls if x["op"] == "node"]
            if cands:
                base = rng.choice(cands)
                b.node(base["d"], base["k"], base["srcs"])            # an exact duplicate: may share
    for _ in range(rng.randint(0, 2)):
        b.rec(b.rand_src())
    decls = b.decls[:22]
    if not any(d["op"] == "rec" for d in decls):
        decls.append(dict(op="rec", lbl="rz", d="rec", k=0, srcs=[("o", next(d["lbl"] for d in decls if d["op"] == "node"))]))
    # drop recorders whose producer was cut off
    have = {d["lbl"] for d in decls if d["op"] == "node"}
    decls = [d for d in decls if refs(d) <= have]
    n = rng.choice([2, 3, 3])
    orders = []
    for j in range(n):
        o = decls if j == 0 else (topo_reverse(decls) if j == 1 and rng.random() < 0.5 else topo_shuffle(rng, decls))
        want = rng.choice(wants) if wants and rng.random() < (0.8 if j == 0 else 0.4) else None
        orders.append((pre_for(rng, b, o, want), o))
    return case_of(idx, sig, caps, gen_feeds(rng, sig, caps), orders)


def systematic(idx0, rng):
    """every (k, argument type, signature with that argument, captured port that gets local index k): the twins
    f($k[.e]) / f(@c[.e]) with exact duplicates of both, a consumer of both, recorders; twin order x,y and y,x; order 0
    imports so that the captured port gets local index k, order 1 imports lazily / in another order"""
    cases, idx = [], idx0
    for k in range(3):
        for ty in "sl":
            for sig in [s for s in SIGS if len(s) > k and s[k] == ty]:
                for c in sorted({0, k}):
                    caps = ["s"] * (k + 1)
                    caps[c] = ty
                    caps = "".join(caps)
                    for e in ([None] if ty == "s" else [0, 1]):
                        for d, kk in (("f1", 0), ("g2", 1)):
                            b = Body(rng, sig, caps)
                            xa, ya = ("a", k, e), ("c", c, e)
                            if ARITY[d] == 1:
                                x, y = b.node(d, kk, [xa], "x"), b.node(d, kk, [ya], "y")
                                x2, y2 = b.node(d, kk, [xa], "x"), b.node(d, kk, [ya], "y")
                            else:
                                o = b.boundary("a", 0, 0)
                                x, y = b.node(d, kk, [o, xa], "x"), b.node(d, kk, [o, ya], "y")
                                x2, y2 = b.node(d, kk, [o, xa], "x"), b.node(d, kk, [o, ya], "y")
                            m = b.node("f2", 0, [x, y], "m")
                            for s in (x, y, m, x2, y2):
                                b.rec(s)
                            d0 = b.decls
                            d1 = [d0[1], d0[0], d0[3], d0[2], d0[4]] + d0[5:][::-1]
                            others = [j for j in range(len(caps)) if j != c]
                            pre0 = others[:k] + [c]
                            pre1 = [] if k == 0 else [c] + others
                            cases.append(case_of(idx, sig, caps, gen_feeds(rng, sig, caps), [(pre0, d0), (pre1, d1), (pre0, d1)]))
                            idx += 1
    return cases


def streams(rng, tier, seed):
    n = 260 if tier == "quick" else 9000
    rand = [gen_case(rng, i) for i in range(n)]
    import random
    return [Stream("bodykey-pairs", IMPL, model_cmd("BodyKey"), systematic(100000, random.Random(seed))),
            Stream("bodykey-orders", IMPL, model_cmd("BodyKey"), rand)]
