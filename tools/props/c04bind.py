"""C04, stream `track-bind`: generator, monitor, features for consumers that are bound / re-bound / unbound in ANY
cycle with the plain or the SAMPLED bind (helper module of tools/props/c04.py; drivers: harness/drv_trackbind.cpp,
lean/Drivers/C04Bind.lean).

Line protocol: see the head of harness/drv_trackbind.cpp.
"""
import os
import re

from vlib import Case

KINDS = ['ts', 'tss', 'tsd', 'tsdn']
BIND_OPS = ('bind', 'bindS', 'rebind', 'rebindS')
STRICT_LMT = os.environ.get('HGV_C04_STRICT_LMT', '') == '1'


# ---------------------------------------------------------------------------------------------
# generator

def _mutation(rng, kind, o, t, live, recent_keys, avoid):
    """one producer operation on output o at t; `live[o]` approximates the live keys; `avoid` = keys already touched in
    this cycle on this output (the opposite operation on them in the same cycle is C05's subject)"""
    if kind == 'ts':
        return 'w %d %d %d' % (o, t, rng.randint(-9, 99))
    dom = [1, 2, 3, 4, 5]
    if kind == 'tss':
        r = rng.random()
        if live[o] and r < 0.35:
            cand = [e for e in sorted(live[o]) if e not in avoid] or sorted(live[o])
            e = rng.choice(cand)
            live[o].discard(e)
            avoid.add(e)
            return 'rem %d %d %d' % (o, t, e)
        if r < 0.45:
            e = rng.choice(dom)                       # possibly a non-changing add / remove (it still ticks)
            if rng.random() < 0.5:
                live[o].add(e)
                return 'add %d %d %d' % (o, t, e)
            live[o].discard(e)
            return 'rem %d %d %d' % (o, t, e)
        cand = [e for e in dom if e not in live[o] and e not in avoid] or dom
        e = rng.choice(cand)
        live[o].add(e)
        avoid.add(e)
        return 'add %d %d %d' % (o, t, e)
    # tsd
    r = rng.random()
    if live[o] and r < 0.28:
        cand = [e for e in sorted(live[o]) if e not in avoid] or sorted(live[o])
        e = rng.choice(cand)
        live[o].discard(e)
        avoid.add(e)
        return 'del %d %d %d' % (o, t, e)
    if r < 0.33:
        return 'del %d %d %d' % (o, t, rng.choice(dom))     # possibly a missing key (ticks, changes nothing)
    if live[o] and r < 0.6:
        cand = [e for e in sorted(live[o]) if e not in avoid] or sorted(live[o])
        e = rng.choice(cand)                                  # re-write of a live key
    else:
        cand = [e for e in dom if e not in avoid] or dom
        e = rng.choice(cand)
    live[o].add(e)
    avoid.add(e)
    return 'set %d %d %d %d' % (o, t, e, rng.randint(-9, 99))


def gen_bind(rng, idx, maxops):
    kind = rng.choice(['ts', 'tss', 'tss', 'tsd', 'tsd'])
    k = rng.choice([1, 2, 2, 3])
    t = rng.randint(1, 3)
    profile = rng.choice(['late-sampled', 'late-sampled', 'late-plain', 'rebind', 'rebind', 'mixed', 'quiet', 'same-cycle'])
    lines = ['case %d' % idx, 'schema %s %d' % (kind, k)]
    target = [None] * k
    live = [set(), set()]
    touched = [False, False]
    # some inputs exist from the start (bound before the first tick), the others appear later
    for i in range(k):
        if rng.random() < (0.15 if profile.startswith('late') else 0.4):
            o = rng.choice([0, 0, 1])
            lines.append('%s %d %d %d' % (rng.choice(['bind', 'bind', 'bindS']), i, o, t))
            target[i] = o
    p_sampled = {'late-sampled': 0.9, 'late-plain': 0.1, 'rebind': 0.6, 'mixed': 0.5, 'quiet': 0.7, 'same-cycle': 0.7}[profile]
    p_bind = {'late-sampled': 0.45, 'late-plain': 0.45, 'rebind': 0.5, 'mixed': 0.35, 'quiet': 0.3, 'same-cycle': 0.5}[profile]
    p_rebind = {'late-sampled': 0.08, 'late-plain': 0.08, 'rebind': 0.4, 'mixed': 0.2, 'quiet': 0.1, 'same-cycle': 0.3}[profile]
    p_o1 = rng.choice([0.0, 0.25, 0.5])          # how often the second output is written (0: it stays not-yet-valid)
    n_ops = 0
    kfree = list(range(k)) if kind == 'tsd' else []     # key-set inputs (TSS inputs bound to a dictionary's key set)
    while n_ops < maxops:
        if kfree and rng.random() < 0.3:
            lines.append('bindK %d %d %d' % (kfree.pop(0), rng.choice([0, 0, 1]), t))
        # ---- one cycle at time t: producer operations and (re)binds in a random order
        acts = []
        for _ in range(rng.choice([0, 0, 1, 1, 2, 3] if profile != 'quiet' else [0, 0, 0, 1, 1, 2])):
            acts.append(('m', 1 if rng.random() < p_o1 else 0))
        for i in range(k):
            if target[i] is None:
                if rng.random() < p_bind:
                    acts.append(('b', i))
            else:
                r = rng.random()
                if r < p_rebind:
                    acts.append(('r', i))
                elif r < p_rebind + 0.04:
                    acts.append(('u', i))
        if profile == 'same-cycle' and acts and rng.random() < 0.6:
            # make sure a bind and a tick of its target share the cycle
            i = rng.randrange(k)
            acts.append(('m', target[i] if target[i] is not None else 0))
            if target[i] is not None:
                acts.append(('r', i))
        rng.shuffle(acts)
        avoid = [set(), set()]
        for kind_, x in acts:
            if kind_ == 'm':
                lines.append(_mutation(rng, kind, x, t, live, None, avoid[x]))
                touched[x] = True
            elif kind_ == 'b' and target[x] is None:
                # prefer an output that is already valid (the interesting case), sometimes the not-yet-valid one
                cand = [o for o in (0, 1) if touched[o]] or [0, 1]
                o = rng.choice(cand) if rng.random() < 0.75 else rng.choice([0, 1])
                lines.append('%s %d %d %d' % ('bindS' if rng.random() < p_sampled else 'bind', x, o, t))
                target[x] = o
            elif kind_ == 'r' and target[x] is not None:
                o = target[x] if rng.random() < 0.3 else 1 - target[x]
                lines.append('%s %d %d %d' % ('rebindS' if rng.random() < p_sampled else 'rebind', x, o, t))
                target[x] = o
            elif kind_ == 'u' and target[x] is not None:
                lines.append('unbind %d %d' % (x, t))
                target[x] = None
            n_ops += 1
            if rng.random() < 0.12:
                lines.append('dump %d' % t)               # mid-cycle observation
        if rng.random() < 0.95:
            lines.append('dump %d' % t)
        # ---- quiet cycles: nothing is written, nothing is bound: every flag must fall back
        for _ in range(rng.choice([0, 1, 1, 2] if profile != 'quiet' else [1, 2, 2, 3])):
            t += rng.choice([1, 1, 2, 5])
            lines.append('dump %d' % t)
        t += rng.choice([1, 1, 1, 2, 3])
    lines.append('dump %d' % t)
    lines.append('dump %d' % (t + 3))
    return Case(lines, {'profile': 'bind:' + profile})


def gen_keyset(rng, idx, maxops):
    """dictionaries whose FIRST write changes no membership (bare touch, empty delta, empty whole value), quiet cycles, then a
    key insert; controls whose first write carries keys; key-set inputs bound at the start or later; nested dictionaries"""
    nested = rng.random() < 0.3
    kind = 'tsdn' if nested else 'tsd'
    k = rng.choice([1, 2, 2, 3])
    t = rng.randint(1, 3)
    lines = ['case %d' % idx, 'schema %s %d' % (kind, k)]
    kfree = list(range(k))
    dfree = list(range(k)) if not nested else []
    live = [set(), set()]
    inner_live = [{}, {}]
    dom = [1, 2, 3, 4]

    def first_write(o):
        r = rng.random()
        if nested:
            k1 = rng.choice(dom)
            kindw = rng.choice(['ntouch', 'nempty', 'nset', 'touch', 'empty', 'clear'])
            if kindw in ('touch', 'empty', 'clear'):
                return ['%s %d %d' % (kindw, o, t)]
            live[o].add(k1)
            inner_live[o].setdefault(k1, set())
            if kindw == 'nset':
                k2 = rng.choice(dom)
                inner_live[o][k1].add(k2)
                return ['nset %d %d %d %d %d' % (o, t, k1, k2, rng.randint(0, 99))]
            return ['%s %d %d %d' % (kindw, o, t, k1)]
        if r < 0.2:
            return ['touch %d %d' % (o, t)]
        if r < 0.4:
            return ['empty %d %d' % (o, t)]
        if r < 0.55:
            return ['setall %d %d -' % (o, t)]
        if r < 0.7:
            return ['clear %d %d' % (o, t)]
        if r < 0.8:
            key = rng.choice(dom)
            live[o].add(key)
            return ['set %d %d %d %d' % (o, t, key, rng.randint(0, 99))]
        if r < 0.88:
            keys = rng.sample(dom, rng.choice([1, 2]))
            live[o] = set(keys)
            return ['setall %d %d %s' % (o, t, ','.join('%d:%d' % (x, rng.randint(0, 99)) for x in keys))]
        return ['del %d %d %d' % (o, t, rng.choice(dom))]        # an erase of an absent key as the first write

    def later_write(o, erased):
        r = rng.random()
        if nested:
            if live[o] and r < 0.12:
                cand = sorted(live[o])
                k1 = rng.choice(cand)
                live[o].discard(k1)
                inner_live[o].pop(k1, None)
                erased.add(k1)
                return 'del %d %d %d' % (o, t, k1)
            if r < 0.17:
                return '%s %d %d' % (rng.choice(['touch', 'empty']), o, t)
            if r < 0.2:
                erased |= live[o]
                live[o].clear()
                inner_live[o].clear()
                return 'clear %d %d' % (o, t)
            cand = [x for x in dom if x not in erased]
            if not cand:
                return 'touch %d %d' % (o, t)
            k1 = rng.choice(sorted(live[o]) if (live[o] and rng.random() < 0.6) else cand)
            if k1 in erased:
                return 'touch %d %d' % (o, t)
            if r < 0.45 and k1 in live[o]:
                k2 = rng.choice(sorted(inner_live[o][k1]) if (inner_live[o].get(k1) and rng.random() < 0.7) else dom)
                inner_live[o].setdefault(k1, set()).discard(k2)
                return 'ndel %d %d %d %d' % (o, t, k1, k2)
            live[o].add(k1)
            inner_live[o].setdefault(k1, set())
            if r < 0.65:
                return '%s %d %d %d' % (rng.choice(['ntouch', 'nempty']), o, t, k1)
            k2 = rng.choice(dom)
            inner_live[o][k1].add(k2)
            return 'nset %d %d %d %d %d' % (o, t, k1, k2, rng.randint(0, 99))
        if r < 0.12:
            return 'touch %d %d' % (o, t)
        if r < 0.24:
            return 'empty %d %d' % (o, t)
        if r < 0.3:
            live[o].clear()
            return 'clear %d %d' % (o, t)
        if r < 0.4:
            keys = rng.sample(dom, rng.choice([0, 0, 1, 2]))
            if rng.random() < 0.4:
                keys = sorted(live[o])                       # the same membership: a value-only whole-value write
            live[o] = set(keys)
            return 'setall %d %d %s' % (o, t, ','.join('%d:%d' % (x, rng.randint(0, 99)) for x in keys) or '-')
        if live[o] and r < 0.6:
            key = rng.choice(sorted(live[o]))
            live[o].discard(key)
            return 'del %d %d %d' % (o, t, key)
        if live[o] and r < 0.8:
            return 'set %d %d %d %d' % (o, t, rng.choice(sorted(live[o])), rng.randint(0, 99))   # value-only
        key = rng.choice(dom)
        live[o].add(key)
        return 'set %d %d %d %d' % (o, t, key, rng.randint(0, 99))

    def maybe_bind():
        out = []
        if kfree and rng.random() < 0.6:
            out.append('bindK %d %d %d' % (kfree.pop(0), rng.choice([0, 0, 0, 1]), t))
        if dfree and rng.random() < 0.25:
            out.append('%s %d %d %d' % (rng.choice(['bind', 'bindS']), dfree.pop(0), rng.choice([0, 0, 1]), t))
        return out

    lines += maybe_bind()
    written = [False, False]
    n_ops = 0
    while n_ops < maxops:
        erased = [set(), set()]
        for _ in range(rng.choice([0, 1, 1, 2, 3]) if any(written) else 1):
            o = 0 if rng.random() < 0.75 else 1
            if not written[o]:
                lines += first_write(o)
                written[o] = True
            else:
                lines.append(later_write(o, erased[o]))
            n_ops += 1
            if rng.random() < 0.15:
                lines.append('dump %d' % t)
        lines += maybe_bind()
        lines.append('dump %d' % t)
        for _ in range(rng.choice([1, 1, 2, 3])):          # quiet cycles: the key set stays valid, unmodified
            t += rng.choice([1, 1, 2, 5])
            if rng.random() < 0.2:
                lines += maybe_bind()
            lines.append('dump %d' % t)
        t += rng.choice([1, 1, 2])
    lines.append('dump %d' % t)
    return Case(lines, {'profile': 'bind:keyset-' + ('nested' if nested else 'flat')})


def exhaustive_keyset(start):
    """every history of 3 steps over {touch, empty delta, empty whole value, clear, set 1, erase 1, erase of an absent key} on one
    dictionary, each in the current cycle or a new one, a key-set input bound before the first write, a dump after
    every step and one quiet dump"""
    import itertools
    alphabet = ['touch 0 %d', 'empty 0 %d', 'setall 0 %d -', 'clear 0 %d', 'set 0 %d 1 10', 'del 0 %d 1', 'del 0 %d 9']
    steps = [(a, new) for a in alphabet for new in (False, True)]
    cases, idx = [], start
    for seq in itertools.product(steps, repeat=3):
        if not seq[0][1]:
            continue
        t = 0
        lines = ['case %d' % idx, 'schema tsd 1', 'bindK 0 0 1']
        for a, new in seq:
            if new:
                t += 1
            lines += [a % t, 'dump %d' % t]
        lines.append('dump %d' % (t + 1))
        cases.append(Case(lines, {'profile': 'bind:keyset-exhaustive'}))
        idx += 1
    return cases


def gen_bind_malformed(rng, idx):
    kind = rng.choice(KINDS[:3])
    first = {'ts': 'w 0 1 5', 'tss': 'add 0 1 5', 'tsd': 'set 0 1 5 50'}[kind]
    lines = ['case %d' % idx, 'schema %s 2' % kind, first, 'bindS 0 0 2', 'dump 2']
    bad = ['bind 0 0 3', 'rebind 1 0 3', 'unbind 1 3', 'bindS 2 0 3', 'bindS 1 2 3', 'bindS 1 0 0', 'dump 0', 'dump', 'w 0 3',
           'add 0 x 1', 'set 0 3 1', 'frob 1 2 3', 'schema tsw 1', 'schema ts 4', 'unbind 0 0', 'rebindS 0 7 3', 'del 5 3 1']
    if kind != 'ts':
        bad.append('w 0 3 1')
    if kind != 'tss':
        bad.append('add 0 3 1')
    if kind != 'tsd':
        bad += ['set 0 3 1 1', 'del 0 3 1']
    rng.shuffle(bad)
    lines += bad[:5]
    lines += ['rebindS 0 1 3', 'dump 3', 'dump 4']
    return Case(lines, {'profile': 'bind:malformed'})


def exhaustive_bind(kind, start):
    """every history of 3 steps over {tick o0, tick o1, bind, bindS, rebind-other, rebindS-other, rebindS-same, unbind}
    for ONE input, each step in the current cycle or in a new one, a dump after every step and two quiet dumps"""
    import itertools
    alphabet = ['m0', 'm1', 'b', 'bS', 'r', 'rS', 'rSs', 'u']
    steps = [(a, new) for a in alphabet for new in (False, True)]
    cases, idx = [], start
    for seq in itertools.product(steps, repeat=3):
        if not seq[0][1]:
            continue
        t, tgt, lines, ok, n = 0, None, ['case %d' % idx, 'schema %s 1' % kind], True, 0
        lines.append({'ts': 'w 0 1 7', 'tss': 'add 0 1 7', 'tsd': 'set 0 1 7 70'}[kind])   # o0 is valid from cycle 1
        t = 1
        for a, new in seq:
            if new:
                t += 1
            n += 1
            if a[0] == 'm':
                o = int(a[1])
                lines.append({'ts': 'w %d %d %d' % (o, t, 10 * n), 'tss': 'add %d %d %d' % (o, t, n),
                              'tsd': 'set %d %d %d %d' % (o, t, n, 10 * n)}[kind])
            elif a in ('b', 'bS'):
                if tgt is not None:
                    ok = False
                    break
                tgt = 0
                lines.append('%s 0 0 %d' % ('bind' if a == 'b' else 'bindS', t))
            elif a in ('r', 'rS', 'rSs'):
                if tgt is None:
                    ok = False
                    break
                tgt = tgt if a == 'rSs' else 1 - tgt
                lines.append('%s 0 %d %d' % ('rebind' if a == 'r' else 'rebindS', tgt, t))
            else:
                if tgt is None:
                    ok = False
                    break
                tgt = None
                lines.append('unbind 0 %d' % t)
            lines.append('dump %d' % t)
        if not ok:
            continue
        lines += ['dump %d' % (t + 1), 'dump %d' % (t + 2)]
        cases.append(Case(lines, {'profile': 'bind:exhaustive'}))
        idx += 1
    return cases


# ---------------------------------------------------------------------------------------------
# monitor: the property decided on the implementation's dumps (and the op list) alone

class Res:
    def __init__(self):
        self.bad, self.feats, self.nontrivial = [], set(), False


_FL = r'([01])([01])/(\d+)'
_RE_TS = re.compile(r'^' + _FL + r'/(-|-?\d+)$')
_RE_TSS = re.compile(r'^' + _FL + r'/\[([^\]]*)\]/\+\[([^\]]*)\]/-\[([^\]]*)\]$')
_RE_TSD = re.compile(r'^' + _FL + r'/\[([^\]]*)\]/~\[([^\]]*)\]/\+\[([^\]]*)\]/-\[([^\]]*)\]$')
_RE_KID = re.compile(r'^(-?\d+)=' + _FL + r'/(-|-?\d+)$')
_RE_UNB = re.compile(r'^' + _FL + r'$')


def _ints(text):
    return [int(x) for x in text.split(',')] if text else []


_RE_KSUF = re.compile(r'^(.*)/K' + _FL + r'/\+\[([^\]]*)\]/-\[([^\]]*)\]$')
_RE_NTAIL = re.compile(r'^' + _FL + r'/\[(.*)\]/~\[([^\]]*)\]/\+\[([^\]]*)\]/-\[([^\]]*)\]$')
_RE_NKID = re.compile(r'^(-?\d+)=' + _FL + r'/K' + _FL + r'/\[([^\]]*)\]$')


def _split_top(text):
    """split at commas that are not inside brackets"""
    out, depth, cur = [], 0, ''
    for ch in text:
        if ch == '[':
            depth += 1
        elif ch == ']':
            depth -= 1
        if ch == ',' and depth == 0:
            out.append(cur)
            cur = ''
        else:
            cur += ch
    if cur:
        out.append(cur)
    return out


class KeySetView:
    """the key-set endpoint of a dictionary output: valid, modified, lmt, added, removed"""
    def __init__(self, valid, modified, lmt, added, removed):
        self.valid, self.modified, self.lmt, self.added, self.removed = valid, modified, lmt, added, removed

    def flags(self):
        return (self.valid, self.modified, self.lmt)


class View:
    """valid, modified, lmt, value (ts: str; tss: sorted list; tsd: {key: (valid, modified, lmt, value)}), added, removed, mkeys;
    a dictionary PRODUCER also has .keyset (KeySetView); a nested producer has .inner = {k1: (View-like flags, KeySetView, {k2: child})}"""
    def __init__(self, kind, body, producer=False):
        self.added, self.removed, self.mkeys, self.kids = [], [], [], {}
        self.keyset, self.inner = None, {}
        if kind in ('tsd', 'tsdn') and producer:
            km = _RE_KSUF.match(body)
            if not km:
                raise ValueError('no key-set endpoint in the dictionary view %r' % body[:60])
            body = km.group(1)
            self.keyset = KeySetView(int(km.group(2)), int(km.group(3)), int(km.group(4)), _ints(km.group(5)), _ints(km.group(6)))
        if kind == 'tsdn':
            m = _RE_NTAIL.match(body)
            if not m:
                raise ValueError('unreadable nested view %r' % body[:60])
            for item in _split_top(m.group(4)):
                nm = _RE_NKID.match(item)
                if not nm:
                    raise ValueError('unreadable nested child %r' % item)
                gk = {}
                for g in (nm.group(8).split(',') if nm.group(8) else []):
                    gm = _RE_KID.match(g)
                    if not gm:
                        raise ValueError('unreadable grandchild %r' % g)
                    gk[int(gm.group(1))] = (int(gm.group(2)), int(gm.group(3)), int(gm.group(4)), gm.group(5))
                k1 = int(nm.group(1))
                self.kids[k1] = (int(nm.group(2)), int(nm.group(3)), int(nm.group(4)), '-')
                self.inner[k1] = (KeySetView(int(nm.group(5)), int(nm.group(6)), int(nm.group(7)), [], []), gk)
            self.value = sorted(self.kids)
            self.mkeys, self.added, self.removed = _ints(m.group(5)), _ints(m.group(6)), _ints(m.group(7))
            self.valid, self.modified, self.lmt = int(m.group(1)), int(m.group(2)), int(m.group(3))
            return
        if kind == 'ts':
            m = _RE_TS.match(body)
            if not m:
                raise ValueError('unreadable ts view %r' % body)
            self.value = m.group(4)
        elif kind == 'tss':
            m = _RE_TSS.match(body)
            if not m:
                raise ValueError('unreadable tss view %r' % body)
            self.value = _ints(m.group(4))
            self.added, self.removed = _ints(m.group(5)), _ints(m.group(6))
        else:
            m = _RE_TSD.match(body)
            if not m:
                raise ValueError('unreadable tsd view %r' % body)
            for item in (m.group(4).split(',') if m.group(4) else []):
                km = _RE_KID.match(item)
                if not km:
                    raise ValueError('unreadable tsd child %r' % item)
                self.kids[int(km.group(1))] = (int(km.group(2)), int(km.group(3)), int(km.group(4)), km.group(5))
            self.value = sorted(self.kids)
            self.mkeys, self.added, self.removed = _ints(m.group(5)), _ints(m.group(6)), _ints(m.group(7))
        self.valid, self.modified, self.lmt = int(m.group(1)), int(m.group(2)), int(m.group(3))

    def delta(self):
        return (self.added, self.removed, self.mkeys, sorted(k for k, c in self.kids.items() if c[1]))

    def content(self):
        """what the consumer must read identically in EVERY cycle: value, and for tsd each child's valid / lmt / value"""
        return (self.value, sorted((k, c[0], c[2], c[3]) for k, c in self.kids.items()))


class DictRef:
    """what the write history implies for a dictionary and its key-set endpoint: the key set is written exactly when the
    dictionary is written and (the membership changes or the key set has never been valid) - whatever the write is: a key
    insert, a bare touch, an empty delta, an empty whole value, an erase of an absent key, a clear"""
    def __init__(self):
        self.keys, self.dvalid, self.dlmt, self.kvalid, self.klmt = set(), False, 0, False, 0
        self.first_write_kind = None

    def write(self, t, changed, kind):
        if not self.dvalid:
            self.first_write_kind = kind
        self.dvalid, self.dlmt = True, t
        if changed or not self.kvalid:
            self.kvalid, self.klmt = True, t

    def set(self, t, key):
        ch = key not in self.keys
        self.keys.add(key)
        self.write(t, ch, 'key')
        return ch

    def erase(self, t, key):
        ch = key in self.keys
        self.keys.discard(key)
        self.write(t, ch, 'erase' if ch else 'blind-erase')
        return ch


def mon_bind(case, out):
    res = Res()
    if len(out) != len(case.lines):
        res.bad.append('[C04-bind-trace] %d output lines for %d input lines' % (len(out), len(case.lines)))
        return res

    def bad(cls, msg):
        if len(res.bad) < 6:
            res.bad.append('[C04-bind-%s] %s' % (cls, msg))

    kind, k = None, 0
    target = []              # per input: output index or None
    binds = []               # per input: list of (op, t) in order
    last_op = [0, 0]         # per output: time of the last mutation call (every one of them ticks)
    n_ops = [0, 0]
    last_t = 0
    ktarget, kbind = [], []  # key-set inputs: output index or None, bind time
    ref = [DictRef(), DictRef()]          # tsd / tsdn: the dictionaries (outer ones for tsdn)
    inner = [{}, {}]                      # tsdn: outer key -> DictRef of the inner dictionary
    erased_now = [set(), set()]           # tsdn: outer keys erased at last_t (a re-creation in the same cycle is not judged)
    tnat = lambda s: s.isdigit() and len(s) <= 15 and int(s) > 0
    isint = lambda s: re.match(r'^-?\d{1,15}$', s) is not None

    def advance(t):
        nonlocal last_t
        if t < last_t:
            res.feats.add('time-goes-back')
            return False
        last_t = t
        return True

    for ln, o in zip(case.lines, out):
        w = ln.split()
        if not w:
            continue
        op = w[0]
        if op == 'case':
            if o != ln:
                bad('trace', 'case line not echoed: %r' % o)
            continue
        if op == 'schema' and len(w) == 3:
            if w[1] in KINDS and w[2] in ('1', '2', '3'):
                kind, k = w[1], int(w[2])
                target, binds, last_op, n_ops, last_t = [None] * k, [[] for _ in range(k)], [0, 0], [0, 0], 0
                ktarget, kbind = [None] * k, [0] * k
                ref, inner, erased_now = [DictRef(), DictRef()], [{}, {}], [set(), set()]
                if o != 'ok':
                    bad('trace', 'schema answered %r' % o)
                res.feats.add('schema:' + kind)
                res.feats.add('inputs:%d' % k)
            elif o != 'bad-op':
                bad('trace', 'malformed schema line answered %r' % o)
            continue
        if kind is None:
            if o != 'bad-op':
                bad('trace', 'op before schema answered %r' % o)
            continue
        if op in BIND_OPS and kind != 'tsdn' and len(w) == 4 and w[1].isdigit() and w[2] in ('0', '1') and tnat(w[3]) and int(w[1]) < k \
                and (target[int(w[1])] is not None) == op.startswith('r'):
            i, oo, t = int(w[1]), int(w[2]), int(w[3])
            if o != 'ok':
                bad('trace', '%r answered %r' % (ln, o))
                continue
            if not advance(t):
                return res
            late = n_ops[0] + n_ops[1] > 0
            res.feats.add('%s:%s:%s' % (op, 'late' if late else 'at-start', 'target-valid' if n_ops[oo] else 'target-not-yet-valid'))
            if op.startswith('r'):
                res.feats.add('%s:%s' % (op, 'same-output' if target[i] == oo else 'other-output'))
                if n_ops[target[i]] and not n_ops[oo]:
                    res.feats.add(op + ':valid->not-yet-valid')
            if last_op[oo] == t:
                res.feats.add(op + ':target-ticked-earlier-in-the-cycle')
            target[i] = oo
            binds[i].append((op, t))
            continue
        if op == 'bindK' and kind in ('tsd', 'tsdn') and len(w) == 4 and w[1].isdigit() and w[2] in ('0', '1') and tnat(w[3]) \
                and int(w[1]) < k and ktarget[int(w[1])] is None:
            i, oo, t = int(w[1]), int(w[2]), int(w[3])
            if o != 'ok':
                bad('trace', '%r answered %r' % (ln, o))
                continue
            if not advance(t):
                return res
            res.feats.add('bindK:%s:%s' % ('late' if (ref[0].dvalid or ref[1].dvalid) else 'at-start',
                                           'keyset-valid' if ref[oo].kvalid else 'keyset-not-yet-valid'))
            ktarget[i], kbind[i] = oo, t
            continue
        if op == 'unbind' and kind != 'tsdn' and len(w) == 3 and w[1].isdigit() and tnat(w[2]) and int(w[1]) < k and target[int(w[1])] is not None:
            i, t = int(w[1]), int(w[2])
            if o != 'ok':
                bad('trace', '%r answered %r' % (ln, o))
                continue
            if not advance(t):
                return res
            res.feats.add('unbind')
            target[i] = None
            binds[i].append((op, t))
            continue
        mut = None
        if kind == 'ts' and op == 'w' and len(w) == 4 and w[1] in ('0', '1') and tnat(w[2]) and isint(w[3]):
            mut = (int(w[1]), int(w[2]), ('ok',))
        elif kind == 'tss' and op in ('add', 'rem') and len(w) == 4 and w[1] in ('0', '1') and tnat(w[2]) and isint(w[3]):
            mut = (int(w[1]), int(w[2]), ('0', '1'))
        elif kind == 'tsd' and op == 'set' and len(w) == 5 and w[1] in ('0', '1') and tnat(w[2]) and isint(w[3]) and isint(w[4]):
            mut = (int(w[1]), int(w[2]), ('ok',))
        elif kind == 'tsd' and op == 'del' and len(w) == 4 and w[1] in ('0', '1') and tnat(w[2]) and isint(w[3]):
            mut = (int(w[1]), int(w[2]), ('0', '1'))
        dmut = None
        o01 = lambda x: x in ('0', '1')
        if kind == 'tsd' and op in ('set', 'del') and mut is not None:
            dmut, mut = (op, int(w[1]), int(w[2])), None
        elif kind in ('tsd', 'tsdn') and op in ('touch', 'empty', 'clear') and len(w) == 3 and o01(w[1]) and tnat(w[2]):
            dmut = (op, int(w[1]), int(w[2]))
        elif kind == 'tsd' and op == 'setall' and len(w) == 4 and o01(w[1]) and tnat(w[2]) and \
                (w[3] == '-' or (re.match(r'^-?\d{1,15}:-?\d{1,15}(,-?\d{1,15}:-?\d{1,15})*$', w[3])
                                 and len({x.split(':')[0] for x in w[3].split(',')}) == len(w[3].split(',')))):
            dmut = (op, int(w[1]), int(w[2]))
        elif kind == 'tsdn' and op == 'del' and len(w) == 4 and o01(w[1]) and tnat(w[2]) and isint(w[3]):
            dmut = (op, int(w[1]), int(w[2]))
        elif kind == 'tsdn' and op in ('ntouch', 'nempty') and len(w) == 4 and o01(w[1]) and tnat(w[2]) and isint(w[3]):
            dmut = (op, int(w[1]), int(w[2]))
        elif kind == 'tsdn' and op == 'ndel' and len(w) == 5 and o01(w[1]) and tnat(w[2]) and isint(w[3]) and isint(w[4]):
            dmut = (op, int(w[1]), int(w[2]))
        elif kind == 'tsdn' and op == 'nset' and len(w) == 6 and o01(w[1]) and tnat(w[2]) and all(isint(x) for x in w[3:6]):
            dmut = (op, int(w[1]), int(w[2]))
        if dmut is not None:
            op_, oo, t = dmut
            if t > last_t:
                erased_now = [set(), set()]
            if not advance(t):
                return res
            r = ref[oo]
            before = (r.dlmt, r.klmt)
            expect = 'ok'

            def outer_at(k1):
                if k1 in erased_now[oo]:
                    res.feats.add('nested-key-recreated-in-its-erase-cycle')
                    return False
                if k1 not in r.keys:
                    r.set(t, k1)
                    inner[oo][k1] = DictRef()
                return True

            def inner_wrote(d_before, inn):
                if inn.dlmt != d_before:
                    r.write(t, False, 'child')

            if op_ == 'set':
                r.set(t, int(w[3]))
            elif op_ == 'del' and kind == 'tsd':
                expect = '1' if r.erase(t, int(w[3])) else '0'
            elif op_ == 'del':
                k1 = int(w[3])
                expect = '1' if r.erase(t, k1) else '0'
                if expect == '1':
                    inner[oo].pop(k1, None)
                    erased_now[oo].add(k1)
            elif op_ == 'touch':
                r.write(t, False, 'touch')
            elif op_ == 'clear':
                ch = bool(r.keys)
                if kind == 'tsdn':
                    erased_now[oo] |= r.keys
                    inner[oo].clear()
                r.keys = set()
                r.write(t, ch, 'clear')
            elif op_ == 'empty':
                if not r.dvalid:
                    r.write(t, False, 'empty-delta')
                else:
                    res.feats.add('empty-delta-on-a-valid-dictionary')
            elif op_ == 'setall':
                new = set() if w[3] == '-' else {int(x.split(':')[0]) for x in w[3].split(',')}
                expect = '1' if r.dlmt != t else '0'
                ch = new != r.keys
                r.keys = set(new)
                r.write(t, ch, 'whole-value-empty' if not new else 'whole-value')
            elif op_ in ('ntouch', 'nempty', 'nset'):
                k1 = int(w[3])
                if not outer_at(k1):
                    return res
                inn = inner[oo][k1]
                d0 = inn.dlmt
                if op_ == 'ntouch':
                    inn.write(t, False, 'touch')
                elif op_ == 'nempty':
                    if not inn.dvalid:
                        inn.write(t, False, 'empty-delta')
                else:
                    inn.set(t, int(w[4]))
                if d0 == 0 and inn.dlmt:
                    res.feats.add('inner-dict-first-write:' + inn.first_write_kind)
                inner_wrote(d0, inn)
            elif op_ == 'ndel':
                k1 = int(w[3])
                if k1 not in r.keys:
                    expect = '-'
                else:
                    inn = inner[oo][k1]
                    d0 = inn.dlmt
                    expect = '1' if inn.erase(t, int(w[4])) else '0'
                    inner_wrote(d0, inn)
            if o != expect:
                bad('trace', '%r answered %r, the write history says %r' % (ln, o, expect))
                continue
            res.feats.add('dict-op:' + op_)
            if r.first_write_kind and before[0] == 0 and r.dlmt:
                res.feats.add('dict-first-write:' + r.first_write_kind)
            if r.dlmt == t and before[0] != t or (r.dlmt == t and r.klmt != t):
                res.feats.add('dict-write:%s' % ('keyset-stamped' if r.klmt == t and before[1] != t else
                                                 'keyset-already-stamped' if r.klmt == t else 'membership-neutral'))
            for i in range(k):
                if target[i] == oo and binds[i] and binds[i][-1][1] == t and r.dlmt == t:
                    res.feats.add('tick-after-%s-in-the-same-cycle' % binds[i][-1][0])
            last_op[oo] = r.dlmt
            n_ops[oo] = 1 if r.dvalid else 0
            continue
        if mut is not None:
            oo, t, answers = mut
            if o not in answers:
                bad('trace', '%r answered %r' % (ln, o))
                continue
            if not advance(t):
                return res
            if o == '0':
                res.feats.add('non-changing-' + op)
            for i in range(k):
                if target[i] == oo and binds[i] and binds[i][-1][1] == t:
                    res.feats.add('tick-after-%s-in-the-same-cycle' % binds[i][-1][0])
            last_op[oo] = t
            n_ops[oo] += 1
            continue
        if op == 'dump' and len(w) == 2 and tnat(w[1]):
            t = int(w[1])
            if not advance(t):
                return res
            parts = o.split(' | ')
            nk = k if kind in ('tsd', 'tsdn') else 0
            if len(parts) != 2 + k + nk:
                bad('trace', 'dump answered %r' % o[:80])
                continue
            try:
                prod = []
                for oo in range(2):
                    head = 'o%d: ' % oo
                    if not parts[oo].startswith(head):
                        raise ValueError('producer part %r' % parts[oo][:40])
                    prod.append(View(kind, parts[oo][len(head):], producer=True))
                cons = []
                for i in range(k):
                    m = re.match(r'^i%d>(-|\d): (.*)$' % i, parts[2 + i])
                    if not m:
                        raise ValueError('consumer part %r' % parts[2 + i][:40])
                    if (m.group(1) == '-') != (target[i] is None) or (target[i] is not None and int(m.group(1)) != target[i]):
                        raise ValueError('input %d reported on %s, the op list binds it to %s' % (i, m.group(1), target[i]))
                    if target[i] is None:
                        u = _RE_UNB.match(m.group(2))
                        if not u:
                            raise ValueError('unbound input part %r' % m.group(2)[:40])
                        cons.append((int(u.group(1)), int(u.group(2)), int(u.group(3))))
                    else:
                        cons.append(View(kind, m.group(2)))
                kcons = []
                for i in range(nk):
                    m = re.match(r'^k%d>(-|\d): (.*)$' % i, parts[2 + k + i])
                    if not m:
                        raise ValueError('key-set consumer part %r' % parts[2 + k + i][:40])
                    if (m.group(1) == '-') != (ktarget[i] is None) or (ktarget[i] is not None and int(m.group(1)) != ktarget[i]):
                        raise ValueError('key-set input %d reported on %s, the op list binds it to %s' % (i, m.group(1), ktarget[i]))
                    if ktarget[i] is None:
                        u = _RE_UNB.match(m.group(2))
                        if not u:
                            raise ValueError('unbound key-set input part %r' % m.group(2)[:40])
                        kcons.append((int(u.group(1)), int(u.group(2)), int(u.group(3))))
                    else:
                        kcons.append(View('tss', m.group(2)))
            except ValueError as e:
                bad('trace', str(e))
                continue
            quiet = all(last_op[oo] != t for oo in range(2)) and all(not (b and b[-1][1] == t) for b in binds)
            res.feats.add('dump:quiet-cycle' if quiet else 'dump:active-cycle')
            # ---- the producers against the op list, and on their own
            for oo, p in enumerate(prod):
                where = 'output %d at t=%d (after %r)' % (oo, t, ln)
                if p.lmt != last_op[oo] or p.valid != (1 if n_ops[oo] else 0) or p.modified != (1 if last_op[oo] == t else 0):
                    bad('producer', 'the output view disagrees with the write history: %s reads valid=%d modified=%d lmt=%d, last '
                                    'mutation at %d' % (where, p.valid, p.modified, p.lmt, last_op[oo]))
                if not p.modified and any(p.delta()):
                    bad('producer', 'a per-tick delta is readable outside its cycle: %s reads %s' % (where, p.delta()))
                for key, c in p.kids.items():
                    if c[1] != (1 if c[2] == t else 0) or c[2] > p.lmt or (c[1] and not p.modified):
                        bad('producer', 'child %d of %s reads %s under a parent with modified=%d lmt=%d' % (key, where, c, p.modified, p.lmt))
            # ---- the key-set endpoint of every dictionary (also of the inner ones) against the write history
            def check_keyset(what, dflags, ks, r, keys_read):
                """dflags = (valid, modified, lmt) of the dictionary, ks = its KeySetView, r = DictRef"""
                exp = (1 if r.kvalid else 0, 1 if (r.kvalid and r.klmt == t) else 0, r.klmt)
                if sorted(keys_read) != sorted(r.keys):
                    bad('producer', 'the keys of %s are %s, the write history says %s' % (what, sorted(keys_read), sorted(r.keys)))
                if ks.flags() != exp:
                    why = ('the dictionary is valid since its first write (%s) and the key set of a valid dictionary is valid'
                           % r.first_write_kind if (r.kvalid and not ks.valid) else
                           'the key set is written exactly when the membership changes or with the dictionary\'s first write')
                    bad('keyset', 'the KEY-SET endpoint of %s at t=%d reads valid=%d modified=%d lmt=%d, the write history says '
                                  'valid=%d modified=%d lmt=%d (%s; the dictionary itself reads valid=%d modified=%d lmt=%d)'
                        % ((what, t) + ks.flags() + exp + (why,) + tuple(dflags)))
                if ks.lmt > dflags[2] or (ks.modified and not dflags[1]) or (ks.valid and not dflags[0]):
                    bad('keyset', 'the KEY-SET endpoint of %s at t=%d reads %s above its dictionary %s' % (what, t, ks.flags(), tuple(dflags)))
                if not ks.modified and (ks.added or ks.removed):
                    bad('keyset', 'the KEY-SET endpoint of %s reads a delta in a cycle in which it is not modified: +%s -%s'
                        % (what, ks.added, ks.removed))
                if dflags[0] and not ks.valid:
                    bad('keyset', 'the KEY-SET endpoint of %s is not valid at t=%d although the dictionary is (first write: %s)'
                        % (what, t, r.first_write_kind))
                if ks.valid and not ks.modified and dflags[1]:
                    res.feats.add('observation:dict-modified-keyset-not')
                if r.first_write_kind in ('touch', 'empty-delta', 'whole-value-empty', 'blind-erase', 'clear') and r.kvalid:
                    res.feats.add('observation:keyset-after-%s-first-write:%s' % (
                        r.first_write_kind, 'first-cycle' if r.dlmt == t and not r.keys and r.klmt == t else
                        'later-quiet-cycle' if r.dlmt != t else 'later-write-cycle'))
                    if not r.keys and r.dlmt != t:
                        res.nontrivial = True

            if kind in ('tsd', 'tsdn'):
                for oo, p in enumerate(prod):
                    check_keyset('output %d' % oo, (p.valid, p.modified, p.lmt), p.keyset, ref[oo], p.value)
                    if p.keyset.modified and (sorted(p.keyset.added) != sorted(p.added) or sorted(p.keyset.removed) != sorted(p.removed)):
                        bad('keyset', 'the KEY-SET endpoint of output %d at t=%d reads the delta +%s -%s, the dictionary +%s -%s'
                            % (oo, t, p.keyset.added, p.keyset.removed, p.added, p.removed))
                    if kind == 'tsdn':
                        for k1, (iks, gk) in p.inner.items():
                            inn = inner[oo].get(k1)
                            if inn is None:
                                bad('producer', 'output %d lists the key %d that the write history does not know' % (oo, k1))
                                continue
                            iflags = p.kids[k1][:3]
                            exp_i = (1 if inn.dvalid else 0, 1 if inn.dlmt == t and inn.dvalid else 0, inn.dlmt)
                            if tuple(iflags) != exp_i:
                                bad('producer', 'the inner dictionary %d of output %d at t=%d reads %s, the write history says %s'
                                    % (k1, oo, t, tuple(iflags), exp_i))
                            check_keyset('the inner dictionary %d of output %d' % (k1, oo), iflags, iks, inn, list(gk))
                            res.feats.add('observation:inner-dictionary')
                # every key-set consumer against the producer's key-set endpoint: a plainly bound fresh TSS input
                for i in range(nk):
                    c = kcons[i]
                    if ktarget[i] is None:
                        if c != (0, 0, 0):
                            bad('keyset-io', 'the never-bound key-set input %d reads %s' % (i, c))
                        continue
                    p = prod[ktarget[i]]
                    ks = p.keyset
                    got = (c.valid, c.modified, c.lmt, sorted(c.value), sorted(c.added), sorted(c.removed))
                    exp = (ks.valid, ks.modified, ks.lmt, sorted(p.value), sorted(ks.added), sorted(ks.removed))
                    if got != exp:
                        bad('keyset-io', 'a TSS input bound to the key set reads differently from the key-set endpoint: key-set input %d '
                                         '(bound to the key set of output %d at %d) at t=%d reads (valid, modified, lmt, keys, added, '
                                         'removed) = %s, the producer %s' % (i, ktarget[i], kbind[i], t, got, exp))
                    res.feats.add('observation:keyset-consumer:%s' % ('modified' if c.modified else 'valid' if c.valid else 'not-valid'))
            # ---- every consumer against its producer
            for i in range(k):
                c = cons[i]
                hist = binds[i]
                in_bind_cycle = any(bt == t for _, bt in hist)
                if target[i] is None:
                    v, m, l = c
                    if v or (m and not in_bind_cycle) or l > t:
                        bad('unbound', 'unbound input %d reads valid=%d modified=%d lmt=%d at t=%d' % (i, v, m, l, t))
                    if hist:
                        res.feats.add('observation:unbound-after-unbind')
                    continue
                p = prod[target[i]]
                who = 'input %d (bound to output %d, %s) at t=%d' % (i, target[i], ' '.join('%s@%d' % b for b in hist[-3:]), t)
                # valid and value: in every cycle
                if c.valid != p.valid:
                    bad('valid', 'a consumer reads VALID differently from its producer: %s reads %d, the producer %d' % (who, c.valid, p.valid))
                if c.content() != p.content():
                    bad('value', 'a consumer reads another VALUE than its producer: %s reads %s, the producer %s' % (who, c.content(), p.content()))
                last_kind, last_bt = hist[-1]
                late = last_bt > 0 and (n_ops[0] + n_ops[1] > 0)
                if not in_bind_cycle:
                    if c.modified != p.modified:
                        bad('modified', 'a consumer reads MODIFIED differently from its producer outside a (re)bind cycle: %s reads %d, '
                                        'the producer %d (lmt %d)' % (who, c.modified, p.modified, p.lmt))
                    elif c.delta() != p.delta():
                        bad('delta', 'a consumer reads another per-tick delta than its producer outside a (re)bind cycle: %s reads '
                                     '(added, removed, modified keys, modified children) = %s, the producer %s' % (who, c.delta(), p.delta()))
                    if t > last_bt and p.valid:
                        res.feats.add('observation:%s-cycle-after-%s' % ('quiet' if not p.modified else 'tick', last_kind))
                        if not p.modified and last_bt > 1 and last_op[target[i]] and last_op[target[i]] <= last_bt:
                            res.feats.add('observation:quiet-cycle-after-late-%s-before-the-next-tick' % last_kind)
                            res.nontrivial = True
                else:
                    res.feats.add('observation:in-the-%s-cycle' % last_kind)
                    if last_kind.endswith('S') and p.valid:
                        # the sampled (re)bind presents the current value as this cycle's tick
                        if not c.modified:
                            bad('sample', 'a sampled (re)bind to a valid output does not read modified in its cycle: %s reads '
                                          'modified=0' % who)
                        if kind == 'tsd' and any(not ch[1] for ch in c.kids.values()):
                            bad('sample', 'a sampled (re)bind to a valid dictionary does not present every child as modified: %s '
                                          'reads %s' % (who, c.kids))
                        if kind != 'ts' and last_kind == 'bindS' and len([b for b in hist if b[1] == t]) == 1 and \
                                (sorted(c.added) != sorted(c.value) or c.removed):
                            bad('sample', 'a sampled first bind does not present the whole collection as added: %s reads added=%s '
                                          'removed=%s of %s' % (who, c.added, c.removed, c.value))
                        if kind != 'ts' and not set(c.added) <= set(c.value):
                            bad('sample', 'a sampled (re)bind reports added keys that are not in the collection: %s reads added=%s of %s'
                                % (who, c.added, c.value))
                    if len(hist) == 1 and last_kind == 'bind':
                        # a plain first bind shows the producer as it is, also in the bind cycle
                        if c.modified != p.modified or c.delta() != p.delta():
                            bad('modified', 'a plainly bound fresh input differs from its producer in the bind cycle: %s reads modified=%d '
                                            'delta=%s, the producer modified=%d delta=%s' % (who, c.modified, c.delta(), p.modified, p.delta()))
                # delta views are readable only while modified
                if not c.modified and any(c.delta()):
                    bad('delta', 'a consumer reads a per-tick delta in a cycle in which it is not modified: %s reads (added, removed, '
                                 'modified keys, modified children) = %s' % (who, c.delta()))
                # last-modified-time: never in the future, never before the producer's, = now exactly when modified, and the
                # producer's own once it ticked at / after the last (re)bind
                if c.lmt > t or c.lmt < p.lmt or (c.modified != (1 if c.lmt == t else 0)):
                    bad('lmt', 'a consumer reads an inconsistent LAST_MODIFIED_TIME: %s reads modified=%d lmt=%d, the producer lmt=%d'
                        % (who, c.modified, c.lmt, p.lmt))
                elif p.lmt >= last_bt and c.lmt != p.lmt:
                    bad('lmt', 'a consumer reads another LAST_MODIFIED_TIME than its producer although the producer ticked after '
                               'the last (re)bind: %s reads %d, the producer %d' % (who, c.lmt, p.lmt))
                elif c.lmt != p.lmt:
                    res.feats.add('observation:consumer-lmt-is-the-%s-time' % ('sampled-bind' if last_kind.endswith('S') else 'earlier-link'))
                    if STRICT_LMT:
                        bad('lmt-strict', 'a consumer reads another LAST_MODIFIED_TIME than its producer: %s reads %d, the producer %d'
                            % (who, c.lmt, p.lmt))
                if c.modified and not c.valid:
                    res.feats.add('observation:consumer-modified-but-not-valid-in-a-rebind-cycle')
            # several consumers on one output
            for oo in range(2):
                if sum(1 for i in range(k) if target[i] == oo) >= 2:
                    res.feats.add('observation:several-inputs-on-one-output')
            continue
        res.feats.add('malformed-line')
        if o != 'bad-op':
            bad('trace', 'malformed line %r answered %r' % (ln, o))
    return res


_last = [None, None, None]


def run_bind(case, out):
    if _last[0] is case and _last[1] == out:
        return _last[2]
    try:
        res = mon_bind(case, out)
    except Exception as e:      # a crashed / truncated implementation trace
        res = Res()
        res.bad.append('[C04-bind-trace] implementation trace unreadable: %s' % e)
    _last[0], _last[1], _last[2] = case, list(out), res
    return res


def features(case, out):
    res = run_bind(case, out)
    fs = set('bind:' + f for f in res.feats)
    if 'profile' in case.meta:
        fs.add('bind:profile=' + case.meta['profile'].split(':', 1)[-1])
    n = sum(1 for l in case.lines if l.split()[:1] and l.split()[0] not in ('case', 'schema', 'dump'))
    fs.add('bind:ops=%s' % ('0-4' if n <= 4 else '5-12' if n <= 12 else '13-25' if n <= 25 else '26+'))
    return sorted(fs)


def valid_case(case, impl_out, model_out):
    body = [l.split() for l in case.lines[1:] if l.strip()]
    if not body or body[0][:1] != ['schema'] or not any(w[0] == 'dump' for w in body):
        return False
    for o in (impl_out, model_out):
        if o is not None and any(('bad-op' in l) or l.startswith('err:') or l.startswith('<') for l in o):
            return False
    last = 0
    for w in body[1:]:
        try:
            if w[0] in BIND_OPS:
                t = int(w[3])
            elif w[0] in ('w', 'add', 'rem', 'set', 'del', 'unbind', 'touch', 'empty', 'clear', 'setall', 'nset', 'ntouch', 'nempty', 'ndel'):
                t = int(w[2])
            elif w[0] == 'bindK':
                t = int(w[3])
            elif w[0] == 'dump':
                t = int(w[1])
            else:
                return False
        except (ValueError, IndexError):
            return False
        if t < last or t == 0:
            return False
        last = t
    return True
