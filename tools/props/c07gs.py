"""C07 (global-state isolation stream) - runs through the GlobalState / GlobalContext / record-replay testing
layer (what testing::eval_node does) are reproducible whatever the selected state held before.

Meant to be merged into tools/props/c07.py the way c01.py merges c01rank.py:
    streams += gs.streams(...); monitor/features/nontrivial dispatch on stream.startswith("gstate-");
    LEAN_MODULES += gs.LEAN_MODULES; THEOREMS += gs.THEOREMS; CXX_TARGETS += gs.CXX_TARGETS."""
import os
import re
from vlib import Case, Stream, BUILD, VERIF, model_cmd

ID = "C07GS"
LEAN_MODULES = ["HgVerif.Props.C07GState"]
THEOREMS = [
    "HgVerif.GState.run_trace_independent_of_prior_state",
    "HgVerif.GState.run_trace_eq_fresh",
    "HgVerif.GState.run_preserves_other_keys",
    "HgVerif.GState.run_state_on_owned_keys",
    "HgVerif.GState.rerun_idempotent",
    "HgVerif.GState.rerun_state_fixpoint",
    "HgVerif.GState.history_irrelevant",
    "HgVerif.GState.reuse_same_trace",
    "HgVerif.GState.run_trace_is_spec",
    "HgVerif.GState.run_spec_general",
    "HgVerif.GState.persistent_sink_appends",
    "HgVerif.GState.sink_on_replay_key_records_nothing",
    "HgVerif.GState.fuel_enough",
]
CXX_TARGETS = ["hgv_gstate"]
RULE = ("gstate streams: sequences of 2-6 harness runs (graphs inc/mul10/acc/two/pinc, dense|sparse layout) over 1-2 named "
        "GlobalStates selected through GlobalContext (or none), with copy-back of the completed state (what eval_node does), "
        "1-3 further executors from the same builder, and seeded prior buffers (any/dense/sparse layout, under the run's own "
        "output key - longer and shorter than the new recording - and under foreign keys); every run's read-back must equal "
        "the trace computed from its inputs alone, every key a run does not own must be unchanged by it; non-trivial = >=2 "
        "runs, a later run starting from a non-empty selected state, and a non-empty trace; distinct by case text")
TRUSTED = ["the persistent :memory: sink (sparse_record_impl) appends across runs by documented contract; the check holds it "
           "to 'prior ++ fresh', not to isolation"]
ASSUMPTIONS = ["TS<Int> values only; one replay source per graph; sink keys of one graph pairwise distinct (the drivers "
               "reject two-sink graphs with equal keys)"]

GS = [os.path.join(BUILD, "hgv_gstate")]
MEM = ":memory:nodes.record."
GRAPHS = ["inc", "mul10", "acc", "two", "pinc"]


# ----------------------------------------------------------------------------- reference semantics (from the inputs alone)

def parse_items(ws):
    return [None if w == "_" else int(w) for w in ws]


def fresh(graph, items):
    """-> list (one per sink) of [(cycle, value)]: the trace of graph+inputs in a brand-new empty state"""
    ticks = [(i, v) for i, v in enumerate(items) if v is not None]
    inc = [(i, v + 1) for i, v in ticks]
    if graph in ("inc", "pinc"):
        return [inc]
    if graph == "mul10":
        return [[(i, v * 10) for i, v in ticks]]
    if graph == "acc":
        out, tot = [], 0
        for i, v in ticks:
            tot += v
            out.append((i, tot))
        return [out]
    if graph == "two":
        return [inc, [(i, v * 10) for i, v in ticks]]
    raise ValueError(graph)


def sink_keys(graph, key):
    if graph == "two":
        return key.split(",")
    if graph == "pinc":
        return [MEM + key]
    return [key]


def show(t):
    return "[" + " ".join("%d:%d" % p for p in t) + "]"


def buf_repr(layout, t):
    """what `dump` prints for a recording of trace t in the given layout (None = key absent)"""
    if not t:
        return None
    if layout == "sparse":
        return "S%d%s" % (len(t), show(t))
    return "D%d%s" % (t[-1][0] + 1, show(t))


_ITEM = re.compile(r"(\S+?)=([ADS]\d+\[[^\]]*\]|\?)")


def parse_dump(line):
    if not (line.startswith("{") and line.endswith("}")):
        return None
    return dict(_ITEM.findall(line[1:-1]))


def parse_buf(r):
    m = re.match(r"([ADS])(\d+)\[([^\]]*)\]$", r or "")
    if not m:
        return None
    t = [tuple(int(x) for x in p.split(":")) for p in m.group(3).split()]
    return m.group(1), int(m.group(2)), t


def parse_run(ws):
    """run <graph> <layout> <key> <items...> -> (graph, layout, key, items) or None"""
    if len(ws) < 4 or ws[1] not in GRAPHS or ws[2] not in ("dense", "sparse"):
        return None
    try:
        items = parse_items(ws[4:])
    except ValueError:
        return None
    keys = sink_keys(ws[1], ws[3])
    if ws[1] == "two" and (len(keys) != 2 or keys[0] == keys[1] or not all(keys)):
        return None
    if ws[1] != "two" and "," in ws[3]:
        return None
    return ws[1], ws[2], ws[3], items


def expect_run(graph, layout, key, items, pre):
    """-> (expected output line or None when undetermined, expected post-state dict or None)
    `pre` = content of the state the wiring was done under ({} without a context; None = unknown)."""
    keys = sink_keys(graph, key)
    fr = fresh(graph, items)
    in_repr = "A%d%s" % (len(items), show([(i, v) for i, v in enumerate(items) if v is not None]))
    if graph == "pinc":
        if pre is None:
            return None, None
        prior = pre.get(keys[0])
        pb = parse_buf(prior) if prior is not None else ("S", 0, [])
        if pb is None or pb[0] != "S":
            return None, None            # a foreign-typed buffer under a :memory: key: exceptions, left to the correspondence
        tot = pb[2] + fr[0]
        post = dict(pre)
        post["in"] = in_repr
        if fr[0] or prior is not None:
            post[keys[0]] = "S%d%s" % (len(tot), show(tot))
        return show(tot), post
    collide = "in" in keys               # the sink's start erases the replay buffer: nothing ever ticks
    traces = [[] for _ in keys] if collide else fr
    out = " ".join(show(t) for t in traces)
    post = None
    if pre is not None:
        post = dict(pre)
        post["in"] = in_repr
        for k, t in zip(keys, traces):
            post.pop(k, None)
            r = buf_repr(layout, t)
            if r is not None:
                post[k] = r
    return out, post


# ----------------------------------------------------------------------------- monitor

def walk(case, out):
    """Replays the case over the IMPLEMENTATION output.  -> (violations, features)"""
    bad, feats = [], set()
    sel = None                 # name of the selected state, None = no context
    names = set()
    dumps = {}                 # ctx name -> last dump (dict) still known to be current
    exp_post = None            # expected GlobalState of the last completed executor
    last_run = None            # (graph, layout, key, items, expected output line)
    last_out = None
    just_copied = False
    nruns = 0
    for ln, o in zip(case.lines[1:], out[1:]):
        ws = ln.split()
        if not ws:
            continue
        copied, just_copied = just_copied, False
        if ws[0] == "ctx":
            if o != "ok":
                continue
            if ws[1] == "none":
                sel = None
            else:
                sel = ws[2]
                if ws[1] == "new":
                    names.add(sel)
                    dumps[sel] = {}
        elif ws[0] == "seed":
            if o == "ok" and sel is not None:
                dumps.pop(sel, None)
                feats.add("seed-" + (ws[2] if len(ws) > 2 else "?"))
        elif ws[0] == "dump":
            cur = parse_dump(o)
            if sel is None:
                if o != "none":
                    bad.append("[proto] dump without a selected state printed %s" % o[:80])
                continue
            if cur is None:
                bad.append("[proto] dump printed %s" % o[:80])
                continue
            if copied and exp_post is not None:
                for k in sorted(set(cur) | set(exp_post)):
                    if cur.get(k) != exp_post.get(k):
                        owned = last_run is not None and (k == "in" or k in sink_keys(last_run[0], last_run[2]))
                        if owned:
                            bad.append("[repro] after copy-back, key %s owned by '%s' holds %s, a run on a fresh state leaves %s"
                                       % (k, " ".join(["run"] + list(last_run[:3])), cur.get(k), exp_post.get(k)))
                        else:
                            bad.append("[isolation] key %s is not owned by '%s' but changed: %s, before the run %s"
                                       % (k, " ".join(["run"] + list(last_run[:3])) if last_run else "?", cur.get(k), exp_post.get(k)))
            elif sel in dumps:
                if cur != dumps[sel]:
                    ks = [k for k in sorted(set(cur) | set(dumps[sel])) if cur.get(k) != dumps[sel].get(k)]
                    bad.append("[isolation] the selected state changed without copy-back or seed: keys %s" % ",".join(ks)[:120])
            dumps[sel] = cur
        elif ws[0] == "run":
            pr = parse_run(ws)
            if pr is None:
                continue
            graph, layout, key, items = pr
            nruns += 1
            pre = {} if sel is None else dumps.get(sel)
            exp_out, exp_post = expect_run(graph, layout, key, items, pre)
            last_run, last_out = (graph, layout, key, items, exp_out), o
            feats.add("graph-" + graph)
            feats.add("layout-" + layout if graph != "pinc" else "layout-persist")
            if o.startswith("err:"):
                exp_post = None
                feats.add("run-" + o)
                if exp_out is not None:
                    bad.append("[repro] '%s' raised %s; on a fresh state it records %s" % (ln, o, exp_out))
                continue
            if exp_out is not None and o != exp_out:
                what = "prior ++ fresh" if graph == "pinc" else "a fresh empty state"
                bad.append("[repro] '%s' recorded %s but the same graph and inputs in %s give %s (selected=%s)"
                           % (ln, o, what, exp_out, sel))
            if pre:
                own = [k for k in sink_keys(graph, key) if k in pre]
                if own:
                    pb = parse_buf(pre[own[0]])
                    if pb is not None and graph != "pinc":
                        newlen = len(fresh(graph, items)[0])
                        feats.add("prior-own-key-%s-under-%s" % (pb[0], layout))
                        feats.add("prior-own-key-longer" if len(pb[2]) > newlen else "prior-own-key-not-longer")
                    if graph == "pinc":
                        feats.add("persist-appends" if pb and pb[0] == "S" else "persist-foreign-buffer")
                feats.add("run-from-nonempty-state")
            if "in" in sink_keys(graph, key):
                feats.add("sink-key-is-replay-key")
        elif ws[0] == "reuse":
            if last_run is None or o == "bad-op":
                continue
            feats.add("reuse")
            if o.startswith("err:"):
                if not (last_out or "").startswith("err:"):
                    bad.append("[repro] a further executor from the same builder raised %s, the first recorded %s" % (o, last_out))
                continue
            for i, t in enumerate(o.split(" | ")):
                ref = last_run[4] if last_run[4] is not None else last_out
                if t != ref:
                    bad.append("[repro] executor #%d made from the same builder recorded %s, expected %s" % (i + 2, t, ref))
        elif ws[0] == "copyback":
            if o == "ok":
                just_copied = True
                feats.add("copyback")
                if sel is not None:
                    dumps.pop(sel, None)
    feats.add("runs=%d" % min(nruns, 6))
    feats.add("contexts=%d" % len(names))
    return bad, feats


def monitor(stream, case, out):
    if any(o.startswith("<") for o in out):
        return ["[crash] the implementation driver died: %s" % [o for o in out if o.startswith("<")][0][:120]]
    return walk(case, out)[0][:3]


def features(stream, case, out):
    return sorted(walk(case, out)[1])


def nontrivial(stream, case, out):
    f = walk(case, out)[1]
    runs = [o for l, o in zip(case.lines, out) if l.startswith("run ")]
    return len(runs) >= 2 and "run-from-nonempty-state" in f and any(re.search(r"\d", o) for o in runs)


# ----------------------------------------------------------------------------- generators

OUT_KEYS = ["out", "out", "out", "o2", "x"]
FOREIGN = ["zz", "o2", "x", "out", MEM + "p", MEM + "q", "in"]


def gen_items(rng, lo=1, hi=6):
    n = rng.randint(lo, hi)
    if rng.random() < 0.06:
        return ["_"] * n
    return ["_" if rng.random() < 0.35 else str(rng.randint(-9, 99)) for _ in range(n)]


def gen_buffer(rng, layout, n):
    """items of a `seed` line"""
    if layout == "sparse":
        cs = [rng.randint(0, 9) for _ in range(n)]
        if rng.random() < 0.6:
            cs.sort()
        return ["%d:%d" % (c, rng.randint(-9, 99)) for c in cs]
    return ["_" if rng.random() < 0.3 else str(rng.randint(-9, 99)) for _ in range(n)]


def gen_run(rng, memo):
    if memo and rng.random() < 0.4:
        r = list(rng.choice(memo))             # the same graph + inputs again (possibly another layout / key)
        if rng.random() < 0.3 and r[0] != "pinc":
            r[1] = rng.choice(["dense", "sparse"])
        return tuple(r)
    graph = rng.choices(GRAPHS, weights=[30, 14, 20, 22, 14])[0]
    layout = rng.choice(["dense", "sparse"])
    if graph == "two":
        k1, k2 = rng.sample(["out", "o2", "x"] + (["in"] if rng.random() < 0.08 else []), 2)
        key = k1 + "," + k2
    elif graph == "pinc":
        key = rng.choice(["p", "p", "q"])
    else:
        key = "in" if rng.random() < 0.04 else rng.choice(OUT_KEYS)
    r = (graph, layout, key, tuple(gen_items(rng)))
    memo.append(r)
    return r


def gen_history(rng, i):
    L = ["case %d" % i]
    two_ctx = rng.random() < 0.35
    no_ctx_start = rng.random() < 0.12
    L.append("ctx none" if no_ctx_start else "ctx new a")
    have = set() if no_ctx_start else {"a"}
    sel = None if no_ctx_start else "a"
    memo = []
    for _ in range(rng.randint(2, 6)):
        # context switch
        if rng.random() < (0.35 if two_ctx else 0.08):
            tgt = rng.choice(["a", "b"] if two_ctx else ["a", "none"])
            if tgt == "none":
                L.append("ctx none"); sel = None
            elif tgt in have:
                L.append("ctx sel " + tgt); sel = tgt
            else:
                L.append("ctx new " + tgt); have.add(tgt); sel = tgt
        graph, layout, key, items = gen_run(rng, memo)
        own = sink_keys(graph, key)
        newlen = len([x for x in items if x != "_"])
        # seeded prior state
        if sel is not None:
            if rng.random() < 0.45:            # a prior buffer under the run's OWN output key
                k = rng.choice(own)
                if graph == "pinc":
                    lay = "sparse" if rng.random() < 0.8 else rng.choice(["any", "dense"])
                else:
                    lay = rng.choice(["dense", "sparse", "any", layout, layout])
                n = rng.choice([0, 1, max(0, newlen - 1), newlen, newlen + 1, newlen + 3, rng.randint(0, 9)])
                L.append(" ".join(["seed", k, lay] + gen_buffer(rng, lay, n)))
            for _ in range(rng.choice([0, 0, 1, 1, 2])):
                k = rng.choice(FOREIGN)
                lay = "sparse" if k.startswith(MEM) and rng.random() < 0.8 else rng.choice(["dense", "sparse", "any"])
                L.append(" ".join(["seed", k, lay] + gen_buffer(rng, lay, rng.randint(0, 6))))
        L.append("dump")
        L.append(" ".join(["run", graph, layout, key] + list(items)))
        if rng.random() < 0.3:
            L.append("reuse %d" % rng.randint(1, 3))
        if rng.random() < 0.15:
            L.append("dump")                   # a run alone never writes the selected state
        r = rng.random()
        if r < 0.7:
            if two_ctx and rng.random() < 0.1 and "b" in have and "a" in have:   # copy back under the OTHER selection
                sel = "b" if sel == "a" else "a"
                L.append("ctx sel " + sel)
            elif rng.random() < 0.06 and sel is not None:
                L.append("seed zz dense 1 2")  # overwritten: copy_from replaces the whole store
            L.append("copyback")
            L.append("dump")
    return Case(L, {})


def directed(rng, start):
    """systematic small scenarios: every graph x layout x (prior layout, prior longer/shorter) x copy-back chain"""
    cases = []
    A, B = ["1", "_", "3"], ["_", "20", "_", "_", "40"]
    n = start
    for graph in ["inc", "mul10", "acc", "two"]:
        key = "out,o2" if graph == "two" else "out"
        for layout in ["dense", "sparse"]:
            # A, B, A under one selected state with copy-back (the eval_node pattern)
            L = ["case %d" % n, "ctx new a"]; n += 1
            for items in (A, B, A, A):
                L += ["dump", " ".join(["run", graph, layout, key] + items), "copyback", "dump"]
            cases.append(Case(L, {}))
            for prior in ["dense", "sparse", "any"]:
                for plen in [1, 3, 7]:
                    L = ["case %d" % n, "ctx new a"]; n += 1
                    L.append(" ".join(["seed", "out", prior] + gen_buffer(rng, prior, plen)))
                    L.append(" ".join(["seed", "zz", prior] + gen_buffer(rng, prior, 3)))
                    L += ["dump", " ".join(["run", graph, layout, key] + B), "reuse 2", "copyback", "dump",
                          " ".join(["run", graph, layout, key] + B), "copyback", "dump"]
                    cases.append(Case(L, {}))
            # alternate layouts under the same key
            other = "sparse" if layout == "dense" else "dense"
            L = ["case %d" % n, "ctx new a"]; n += 1
            for lay, items in ((layout, B), (other, A), (layout, A)):
                L += ["dump", " ".join(["run", graph, lay, key] + items), "copyback", "dump"]
            cases.append(Case(L, {}))
            # two contexts, results copied across
            L = ["case %d" % n, "ctx new a", "ctx new b", "seed out %s %s" % (layout, "0:5 1:6" if layout == "sparse" else "5 6"),
                 "ctx sel a", "dump", " ".join(["run", graph, layout, key] + A), "copyback", "dump", "ctx sel b", "dump",
                 " ".join(["run", graph, layout, key] + B), "copyback", "dump", "ctx sel a", "dump",
                 " ".join(["run", graph, layout, key] + B), "ctx sel b", "copyback", "dump"]
            n += 1
            cases.append(Case(L, {}))
    # the persistent backend: appends by contract
    L = ["case %d" % n, "ctx new a", "seed %sp sparse 7:7" % MEM, "dump", "run pinc dense p 1 2", "copyback", "dump",
         "run pinc sparse p 5", "reuse 2", "copyback", "dump", "run pinc dense q _ 4", "copyback", "dump"]
    cases.append(Case(L, {}))
    return cases


def exhaustive(start):
    """thorough tier: every pair of runs over a small vocabulary, with / without copy-back in between"""
    cases, n = [], start
    runs = [(g, l, k, it) for g in ("inc", "acc") for l in ("dense", "sparse") for k in ("out", "x")
            for it in (["1", "_", "3"], ["_", "7"], ["_"])]
    for r1 in runs:
        for r2 in runs:
            for cb in (True, False):
                L = ["case %d" % n, "ctx new a", "dump", " ".join(["run", r1[0], r1[1], r1[2]] + r1[3])]
                if cb:
                    L += ["copyback", "dump"]
                L += ["dump", " ".join(["run", r2[0], r2[1], r2[2]] + r2[3]), "copyback", "dump"]
                cases.append(Case(L, {})); n += 1
    return cases


def corpus():
    """corpus/C07/gstate_*.txt: shrunk failing inputs of the seeded defect s18 and of the mutation tests"""
    cdir = os.path.join(VERIF, "corpus", "C07")
    out = []
    if os.path.isdir(cdir):
        for f in sorted(os.listdir(cdir)):
            if f.startswith("gstate_") and f.endswith(".txt"):
                out.append(Case([l.rstrip("\n") for l in open(os.path.join(cdir, f)) if l.strip()], {}))
    return out


def streams(rng, tier, seed):
    n = 350 if tier == "quick" else 9000
    hist = [gen_history(rng, i) for i in range(n)]
    dire = corpus() + directed(rng, 100000)
    if tier != "quick":
        dire += exhaustive(200000)
    mc = model_cmd("C07GS")
    return [Stream("gstate-history", GS, mc, hist, timeout=1200),
            Stream("gstate-directed", GS, mc, dire, timeout=1200)]
