"""THROW-AWAY plug-in: runs the C07 global-state stream (tools/props/c07gs.py) on its own.  Delete after use."""
import c07gs as gs

ID = "C07X"
USES_EXTRACT = False
LEAN_MODULES = gs.LEAN_MODULES
THEOREMS = gs.THEOREMS
CXX_TARGETS = gs.CXX_TARGETS
RULE = gs.RULE
TRUSTED = gs.TRUSTED
ASSUMPTIONS = gs.ASSUMPTIONS
TECHNIQUE = "Lean 4 proof + differential correspondence (hgv_gstate)"
LEVEL_TEXT = "see c07gs.py"
LEVEL_NOTE = ""
streams, monitor, features, nontrivial = gs.streams, gs.monitor, gs.features, gs.nontrivial
