"""C04 - modified / valid / last-modified-time tell the truth for producers and consumers.

Three correspondence streams:
  engine-probe  scalar TS[int] graphs with probe nodes through hgv_engine (shared engine plug-in, unchanged)
  track         REAL standalone TSOutput objects of structured schemas (TS, TSB, fixed TSL, nestings) with 1-2
                REAL TSInput objects bound by bind_output, driven by hgv_track with explicit evaluation times:
                leaf writes, WHOLE-VALUE writes of a container (copy_value_from / move_value_from of a dense, sparse,
                all-unset or nested-present-but-empty bundle / list value), invalidation of a leaf / a child / a whole
                container, dumps of every position through the output view and every input view, in the write cycle and
                in later quiet cycles; the value surface of the containers (which bundle fields carry a value).
  track-bind    two REAL TSOutput objects of TS<Int> / TSS<Int> / TSD<Int,TS<Int>> and 1-3 REAL TSInput objects that are
                bound, SAMPLED-bound (bind_output_sampled: what nested-graph boundaries and REF retargets use), re-bound
                and unbound in ANY cycle, driven by hgv_trackbind: set / dict mutations, dumps of valid / modified / lmt /
                value / per-tick delta views / every TSD child through both producers and every consumer, in the bind
                cycle, in tick cycles and in the quiet cycles after them (tools/props/c04bind.py).
"""
import itertools
import os
import re

import c04bind as cb
import engine_common as ec
import engine_plugin as ep
from vlib import Case, Stream, BUILD, VERIF, model_cmd

ID = "C04"
LEAN_MODULES = ['HgVerif.Props.C04', 'HgVerif.Props.C04Whole', 'HgVerif.Props.C04Bind', 'HgVerif.Props.C04KeySet', 'HgVerif.Model.Engine',
                'HgVerif.Model.Extracted']
_P = 'HgVerif.Tracking.'
THEOREMS = [_P + n for n in [
    # writes (unchanged)
    'write_spec', 'write_coalesces', 'write_monotone', 'child_modified_parent_modified', 'modified_implies_valid',
    'invalidate_leaf_spec', 'markUp_spec',
    # observers notified once (record_modified coalesces)
    'markUpN_spec', 'write_notifies_once',
    # the general invalidate of base_view.cpp, on every tree
    'invalidateF_spec', 'invalidate_spec', 'invalidate_invalid_id', 'invalidate_leaf_eq', 'invalidate_twice',
    # every history with non-decreasing times
    'apply_spec', 'run_inv', 'run_spec_refines',
    # the consumer side (link record of a bound TSInput)
    'linkBind_inv', 'link_step_inv', 'link_inv_run', 'consumer_eq_producer_below_root', 'consumer_eq_producer_valid_root',
    'consumer_differs_after_root_invalidate',
    # whole-value writes of fixed-shape containers (fixed_copy_value_from / fixed_move_value_from as coded)
    'mem_presLeaves_iff', 'copyF_spec', 'whole_inv', 'whole_ok_pointwise', 'whole_write_modified_iff_present_leaf_below',
    'whole_write_all_unset_is_noop', 'whole_write_no_present_leaf_is_noop', 'run_writes_spec', 'whole_write_eq_leaf_writes',
    'whole_write_notifies_once', 'whole_write_error_iff_duplicate', 'whole_frame', 'whole_leaf_eq_write',
    'applyW_spec', 'runW_inv', 'runW_spec_refines', 'link_step_inv_whole', 'link_inv_runW',
    'first_for_parent_ticks_unwritten_bundle', 'first_for_parent_ticks_unwritten_bundle_general',
]] + ['HgVerif.TrackBind.' + n for n in [
    # consumers bound / sampled-bound / re-bound / unbound in any cycle (the link's structural transition)
    'step_inv', 'run_inv', 'consumer_modified_eq_producer_outside_bind_cycles', 'lastBind_ne_of_no_bind_at',
    'consumer_child_modified_eq_producer_outside_bind_cycles', 'consumer_delta_gate_eq_producer_outside_bind_cycles',
    'sampled_bind_ticks_once', 'sampled_bind_samples_children', 'plain_first_bind_agrees', 'consumer_valid_eq_producer',
    'consumer_lmt_eq_link', 'consumer_lmt_ge_producer', 'consumer_modified_iff_lmt_now',
    'consumer_lmt_eq_producer_after_tick', 'consumer_lmt_after_tick_run', 'two_consumers_agree',
]] + ['HgVerif.KeySet.' + n for n in [
    # the key-set endpoint of a dictionary (its own tracking record)
    'keyset_lmt_le_dict_lmt', 'step_kinv', 'run_kinv', 'keyset_valid_iff_dict_valid', 'keyset_valid_iff_dict_valid_fresh',
    'stamps_eq_spec', 'keyset_modified_iff_membership_changed_or_first_write', 'keyset_lmt_eq_spec',
    'prefix_blind_erase_leaves_keyset_invalid', 'prefix_not_keysetValid', 'clear_validates_keyset',
    'seeded_touch_leaves_keyset_invalid',
    'keyset_endpoint_record', 'keyset_consumer_eq_keyset_record',
]]
CXX_TARGETS = ['hgv_engine', 'hgv_track', 'hgv_trackbind']
USES_EXTRACT = True
RULE = ('engine-probe: flat graphs with 1-3 probe nodes: a probe wakes itself every smallest step and logs '
        'value/modified/valid/last-modified-time of a PASSIVE input (so it observes cycles in which the producer did not '
        'write); several consumers per output; non-trivial = the probed output is seen both modified and '
        'unmodified-but-valid; distinct by program text.  '
        'track: histories of leaf writes and invalidations (leaf / child / whole container) with explicit non-decreasing '
        'evaluation times over real TSOutput objects of TS<Int>, TSB{a,b}, TSL<TS,2>, TSB{a,b:TSB{c,d}}, TSL<TSB{a,b},2> with '
        '1-2 bound TSInputs (the second possibly bound in a later cycle); every dump lists valid/modified/lmt(/value) of '
        'EVERY position through the output view and through every bound input view.  '
        'Whole-value writes (ws = copy_value_from, wm = move_value_from of a bundle / list Value built with BundleBuilder-style '
        'field assembly / ListBuilder, at the root or at an inner container; shapes also TSL<TS,3>, 3-level TSB, '
        'TSL<TSB{a,b:TSL<TS,2>},2>, TSB{a:TSL<TS,3>,b,c:TSB{d}}): dense, sparse, ALL-UNSET ((_,_)), inner container present but '
        'empty ((_,(_,_))), one single leaf, mixes; in the cycle of direct leaf writes, after invalidations, on never '
        'written outputs, with late binds, and exhaustively (11-letter alphabet on the 2-level TSB, <= 2 ops quick / 3 '
        'thorough).  For the reference a whole-value write IS the leaf writes of its present leaves - nothing else may tick, '
        'become valid or be notified; an all-unset or nested-but-empty value writes nothing.  One explicit error is part of '
        'the reference: a present nested container that already ticked in this cycle and gets a newly written leaf makes the '
        'write fail (err:logic, "duplicate modification") after the leaves reached before that point (call order) were '
        'stored and stamped; an error in any other situation is a violation, a missing error is left to the correspondence.  '
        'A fixed-size list NESTED in the written value is dense (the native fixed-list value has no per-element validity; '
        'only the list handed to the write itself can carry unset elements).  '
        'val lines list the VALUE surface of every container (position.value() through the output view and every bound input '
        'view, rendered like a value spec): a bundle value carries exactly the fields at / below which something has ever been '
        'stored - by a leaf write or as a present leaf of a whole-value write, also one that failed later - and keeps them '
        '(code: mark_tsb_value_field_valid on the first stamp, never unset, also not by invalidate: valid = 0 is what says '
        '"do not read"); a stored leaf reads the value stored last; the elements of a list value are always there (a never '
        'stored Int element reads the type default, not judged); every bound input reads the producer\'s text.  '
        'Reference, decided from the op list '
        'alone (last write per leaf, last effective invalidation per position): a position is WIPED by the last effective '
        'invalidation of itself or of a container holding it; it is VALID iff some leaf at or below it was written after '
        'that wipe - i.e. a container is valid from the first write to any descendant until an explicit invalidation of '
        'the container itself or of a container holding it; invalidating its children one by one does NOT invalidate it '
        '(code: fixed_has_current_value = own last_modified_time != MIN_DT; the developer guide states "valid() is true '
        'when any child is valid" only for non-peered input prefixes and the user guide only says when a collection '
        'BECOMES valid); LMT = 0 when not valid, else the time of the latest write at/below it or effective '
        'invalidation strictly below it since the wipe (an invalidated child makes its parent tick); MODIFIED at t iff '
        'valid and lmt = t; an invalidation is effective iff the position was valid, and is the identity otherwise.  '
        'Relations checked on each dump alone: lmt child <= lmt parent <= t, child valid/modified => parent '
        'valid/modified, not valid => lmt = MIN_DT, a fixed-shape parent modified at t => a child modified at t or a '
        'descendant invalidated at t.  Observer notifications (a counting Notifiable subscribed at every position): a '
        'write notifies, once each, exactly the positions that become modified by it (an already modified parent is not '
        'told again); an invalidation notifies exactly the positions it invalidates and the ancestors that become modified '
        '(a container at most twice).  output view = every bound input view on all four observables; the one systematic '
        'difference (root of an invalidated target: input lmt/modified follow the link record) is reported as '
        '[C04-consumer] separately from every other message.  non-trivial = an effective invalidation observed by a later '
        'dump, or a dump in which some valid position is modified and another is not; distinct by sha1 of the op list.  '
        'track-bind: histories over two real outputs of ts / tss / tsd and 1-3 real inputs: producer mutations (w; add / rem; '
        'set / del - every call ticks, also a non-changing one), bind / bindS on an unbound input, rebind / rebindS to the same '
        'or the other output, unbind, in any cycle and in any order within a cycle; dumps in the bind cycle, in tick cycles and '
        'in quiet cycles.  Decided from the dumps and the op list alone, per consumer and cycle t: VALID and the VALUE (set '
        'members; dict keys with each child\'s valid / lmt / value) equal the producer\'s in EVERY cycle; in every cycle in '
        'which the input was not (re)bound / unbound MODIFIED, the delta views (added, removed, modified keys) and every child\'s '
        'modified equal the producer\'s; in the cycle of a sampled (re)bind whose target is valid the consumer reads modified '
        '(every TSD child too; a first sampled bind presents the whole collection as added, nothing removed; added is always a '
        'subset of the members); a plainly bound fresh input equals its producer also in the bind cycle; a consumer that is '
        'not modified reads empty delta views and no modified child; LMT is never in the future nor before the producer\'s, '
        'equals t exactly when the consumer reads modified, and equals the producer\'s once the producer ticked at / after '
        'the last (re)bind (before that it is the link record: the sampled-bind time or the earlier target\'s time - '
        'reported as feature, as a violation only with HGV_C04_STRICT_LMT=1); an unbound input reads not valid and, outside '
        'its unbind cycle, not modified.  Producers: lmt = time of the last mutation call, modified iff lmt = t, delta views '
        'empty when not modified, child modified => parent modified.  non-trivial = a quiet-cycle dump after a late (re)bind '
        'to a valid output before that output\'s next tick.  '
        'Key sets (schemas tsd and nested tsdn = TSD<Int,TSD<Int,TS<Int>>>): every dictionary dump continues with its KEY-SET '
        'endpoint (TSDOutputView::key_set(): own valid / modified / lmt / added / removed; also for every inner dictionary); '
        'bindK binds a TSS input to a key set; writes that change no membership: touch (bare touch()), empty (apply_delta of an '
        'empty delta - not applied to a valid dictionary), setall (copy_value_from, also of an empty map), value-only set; '
        'nset / ntouch / nempty / ndel on inner dictionaries.  Decided from the dumps and the op list alone: the key set is '
        'written exactly when the dictionary is written and (the membership changes or the key set has never been valid): so '
        'it is VALID from the dictionary\'s first write on whatever that write is, MODIFIED exactly in the cycles with a '
        'membership change or that first write, LMT = the latest such cycle, never above the dictionary\'s; its delta views '
        'equal the dictionary\'s added / removed keys when modified and are empty otherwise; its members are the '
        'dictionary\'s keys; a TSS input bound to it reads the same flags, members and delta views in every cycle.  The rule '
        'holds for every kind of first write: a key insert, touch, empty delta, empty whole value, clear, and an erase of an '
        'absent key (repaired in /repo 8d7f72a; before, that erase validated the dictionary and not its key set).  '
        'non-trivial (key sets) = a quiet-cycle dump of a still empty dictionary whose '
        'first write changed no membership')
TRUSTED = ['TSW positions and the producer-side delta bookkeeping of TSS/TSD (slot stores) are exercised on the real code by '
           'the C05/C20 drivers; the track stream covers TS, TSB and fixed TSL (any nesting); the track-bind stream covers TS, '
           'TSS and TSD as whole targets with the TSD children read through the link; the engine stream covers TS[int] '
           'endpoints in running graphs',
           'type-erased Value copy of Int leaves; TypeRegistry interning of the generated schemas']
ASSUMPTIONS = ["cycle times non-decreasing; a write's time is the current cycle time",
               'inputs are peered TSInputs bound at the root of the output with bind_output / bind_output_sampled (what REF '
               'retargets and nested boundaries call; the REF machinery itself is C13)',
               'track-bind: no invalidation of a bound target (that is the track stream and finding C04-consumer); the same key '
               'is not added and removed within one cycle of one output (C05)',
               'key sets: an outer key of a nested dictionary is not re-created in the cycle that erased it; key-set inputs are '
               'bound once with the plain bind']
TECHNIQUE = ('Lean 4 proof (invariant lmt child <= lmt parent <= now through arbitrary write/invalidate histories on arbitrary '
             'finite trees; the recursive invalidate of base_view.cpp refined to "subtree := MIN_DT, proper ancestors := t"; link '
             'record invariant for bound inputs; the recursive whole-value write of ts_data_fixed_structured_ops.cpp with its '
             'loop invariant (frame, upward closure of the new stamps, notification counts, duplicate-modification error) '
             'refined to "present leaves and their ancestors := t") + differential correspondence (probe nodes in graphs; standalone '
             'TSOutput/TSInput objects of structured schemas) + independent reference monitors; for consumers bound in any '
             'cycle: invariant of the link machine (bind_impl, structural transition with its lazily expiring predicate) through '
             'arbitrary mutation / bind / sampled bind / re-bind / unbind histories')
LEVEL_TEXT = ('Kernel-checked for every tree of time-series positions and every write/invalidate history with non-decreasing '
              'times: a write makes exactly the written position and its ancestors modified at the cycle time (parents modified '
              'whenever a child is, and only then) and notifies the observers of exactly the positions that become modified, once '
              'each; repeated writes in a cycle coalesce, last-modified-times never move '
              'backwards except by invalidation; invalidate(p) - modelled exactly as coded: children first, then notify, then '
              'reset - makes p and ALL its descendants invalid and unmodified, every proper ancestor modified at that time, '
              'leaves everything else untouched, keeps lmt child <= lmt parent <= now, and is the identity on an invalid '
              'position. A whole-value write of a fixed-shape container (copy_value_from / move_value_from of a possibly '
              'sparse bundle / list value, modelled as coded: recursive over the present children, a leaf answers '
              'first-for-time, a container "some child was newly modified", stamping by the enclosing loop, mark_modified only '
              'on a true answer) makes exactly the present leaves and their ancestors modified / valid and touches nothing '
              'else; a value all of whose fields are unset - or whose present containers hold no leaf - changes no record and '
              'notifies no observer; whenever no error is raised it equals the sequence of the leaf writes of its present '
              'leaves; every observer is notified at most once, exactly where a record changes; the duplicate-modification '
              'logic_error is raised exactly when a present nested container already carrying the cycle time gets a fresh '
              'leaf, and even then lmt child <= lmt parent <= now is kept; all of it for every tree, every sparse value and every '
              'history mixing leaf writes, whole-value writes and invalidations; the seeded "first for parent" answer is '
              'proved to stamp a never-written bundle. '
              'A bound input reads the producer\'s records everywhere below the target root, and at the root '
              'whenever the root is valid; after an invalidation of the whole target the input root keeps the invalidation '
              'time (proved as consumer_differs_after_root_invalidate; finding C04-consumer). On the real code, probe nodes '
              'and the hgv_track driver (real TSOutput + bound TSInputs of TS/TSB/TSL nestings) must agree with the model '
              'and with an independent reference on every position in every dumped cycle. For every history of producer '
              'mutations and of plain / sampled binds, re-binds and unbinds of an input (TS, TSS, TSD links): outside the '
              '(re)bind cycles the consumer (and every TSD child, and the delta views) reads modified exactly when the producer '
              'does; a sampled (re)bind to a valid output reads modified in its cycle and then never again before the next '
              'producer tick or (re)bind; valid and value are the producer\'s; the consumer\'s last-modified-time is the link '
              'record (>= the producer\'s, = now iff modified, = the producer\'s once it ticked after the (re)bind). The '
              'hgv_trackbind driver must agree with that model line by line. The key-set endpoint of a dictionary (own '
              'tracking record; top-level and nested): for every history of at / child write / erase / touch / empty-delta steps '
              'its last-modified-time never exceeds the dictionary\'s; after every history it is valid exactly when the dictionary is, i.e. '
              'from the dictionary\'s first write on, and it is stamped exactly when the dictionary is written and the membership '
              'changes or the key set was never valid (code = tidy rule, keyset_lmt_eq_spec); a TSS input bound to it reads that '
              'record.')
# (whole-value writes: Props/C04Whole.lean, Model/TrackingWhole.lean)
LEVEL_NOTE = ('Trusted: Lean kernel; tracking model tied to types.cpp/base_view.cpp/ts_input base_view.cpp by the two '
              'correspondence streams. The link record of a bound input is modelled from target_link.cpp (notify -> '
              'record_target_modified); the sampled bind and the structural transition from target_link.cpp bind_impl / '
              'base_view.cpp (Model/TrackBind.lean); the REF machinery above it is C13. Code, not tidy spec (modelled as coded, '
              'examples in Props/C04Bind.lean): after a sampled (re)bind the consumer\'s lmt is the bind time until the next '
              'producer tick; a plain re-bind / unbind keeps the earlier link record; a sampled re-bind valid -> not-yet-valid '
              'reads modified and not valid; TSD children read modified with an older lmt in the sampled cycle; '
              'the pre-8d7f72a rule for an erase of an absent key is kept as a named counter-witness '
              '(prefix_blind_erase_leaves_keyset_invalid, prefix_not_keysetValid). TSW children '
              'are not in the track streams. Whole-value writes: the theorems assume duplicate-free children lists '
              '(ofParents_kids_nodup: true of every tree the driver builds) and a childless position = leaf; which leaf VALUES a '
              'failing write stored is modelled (WOut.V) and compared by the correspondence, not stated as a theorem; the field '
              'validity bits of the bundle VALUE (mark_tsb_value_field_valid, val lines) are computed by the model driver as '
              '"the position has carried a time at least once" - correspondence and monitor only, no theorem.')

SCHEMAS = ['TS<Int>', 'TSB{a:TS<Int>,b:TS<Int>}', 'TSL<TS<Int>,2>',
           'TSB{a:TS<Int>,b:TSB{c:TS<Int>,d:TS<Int>}}', 'TSL<TSB{a:TS<Int>,b:TS<Int>},2>']
TSB2 = SCHEMAS[3]
# container shapes of the whole-value-write histories (depth <= 3)
WSCHEMAS = [SCHEMAS[1], SCHEMAS[2], SCHEMAS[3], SCHEMAS[4], 'TSL<TS<Int>,3>',
            'TSB{a:TS<Int>,b:TSB{c:TS<Int>,d:TSB{e:TS<Int>,f:TS<Int>}}}',
            'TSL<TSB{a:TS<Int>,b:TSL<TS<Int>,2>},2>',
            'TSB{a:TSL<TS<Int>,3>,b:TS<Int>,c:TSB{d:TS<Int>}}']


# ---------------------------------------------------------------------------------------------
# schema text -> positions (pre-order)

class Pos:
    def __init__(self, path, parent, leaf):
        self.path, self.parent, self.leaf, self.kids = path, parent, leaf, []
        self.list = False         # fixed-size TSL (its native value has no per-element validity)


def parse_schema(text):
    """returns the list of positions in pre-order (index = position), or None when malformed"""
    out = []
    i = [0]

    def eat(lit):
        if text.startswith(lit, i[0]):
            i[0] += len(lit)
            return True
        return False

    def rec(parent, path, depth):
        if depth > 4:
            raise ValueError
        me = len(out)
        p = Pos(path, parent, True)
        out.append(p)
        if parent is not None:
            out[parent].kids.append(me)
        if eat('TS<Int>'):
            return
        p.leaf = False
        sub = lambda k: (str(k) if path == '.' else path + '.' + str(k))
        if eat('TSB{'):
            k, names = 0, set()
            while True:
                m = re.match(r'[A-Za-z0-9]+', text[i[0]:])
                if not m or m.group(0) in names:
                    raise ValueError
                names.add(m.group(0))
                i[0] += len(m.group(0))
                if not eat(':'):
                    raise ValueError
                rec(me, sub(k), depth + 1)
                k += 1
                if eat(','):
                    continue
                if eat('}'):
                    return
                raise ValueError
        if eat('TSL<'):
            p.list = True
            start = i[0]
            probe = len(out)
            rec(me, sub(0), depth + 1)
            end = i[0]
            if not eat(','):
                raise ValueError
            m = re.match(r'[0-9]{1,2}', text[i[0]:])
            if not m:
                raise ValueError
            i[0] += len(m.group(0))
            n = int(m.group(0))
            if not eat('>') or n == 0 or n > 8:
                raise ValueError
            after = i[0]
            for k in range(1, n):
                i[0] = start
                rec(me, sub(k), depth + 1)
                assert i[0] == end
            i[0] = after
            return
        raise ValueError

    try:
        rec(None, '.', 0)
    except (ValueError, AssertionError):
        return None
    if i[0] != len(text) or len(out) > 64:
        return None
    return out


def _under(pos, p):
    """positions at or below p"""
    res, todo = [], [p]
    while todo:
        x = todo.pop()
        res.append(x)
        todo.extend(pos[x].kids)
    return res


def _anc_self(pos, p):
    res = []
    while p is not None:
        res.append(p)
        p = pos[p].parent
    return res


# ---------------------------------------------------------------------------------------------
# generators

def gen_track(rng, idx, maxops):
    schema = rng.choice(SCHEMAS + SCHEMAS[1:] + SCHEMAS[3:])
    pos = parse_schema(schema)
    leaves = [p for p in range(len(pos)) if pos[p].leaf]
    conts = [p for p in range(1, len(pos)) if not pos[p].leaf]
    k = rng.choice([1, 2, 2])
    t = rng.randint(1, 3)
    lines = ['case %d' % idx, 'schema %s %d' % (schema, k)]
    unbound = list(range(k))
    if rng.random() < 0.85:
        lines.append('bind 0 %d' % t)
        unbound.remove(0)
    if k == 2 and rng.random() < 0.5:
        lines.append('bind 1 %d' % t)
        unbound.remove(1)
    profile = rng.choice(['mixed', 'mixed', 'inv-heavy', 'write-heavy', 'root-inv'])
    p_inv = {'mixed': 0.3, 'inv-heavy': 0.55, 'write-heavy': 0.1, 'root-inv': 0.4}[profile]
    recent, just_invalidated = [], []
    n_ops = 0
    while n_ops < maxops:
        # one cycle at time t: 0-4 operations
        for _ in range(rng.choice([0, 1, 1, 2, 2, 3, 4])):
            if rng.random() < p_inv:
                r = rng.random()
                if profile == 'root-inv' and r < 0.6 or r < 0.25 or not (leaves and len(pos) > 1):
                    p = 0
                elif conts and r < 0.5:
                    p = rng.choice(conts)
                elif recent and r < 0.8:
                    p = rng.choice(recent[-3:])          # a leaf written recently (valid)
                else:
                    p = rng.choice(leaves)
                lines.append('inv %s %d' % (pos[p].path, t))
                just_invalidated.append(p)
            else:
                if just_invalidated and rng.random() < 0.5:   # re-write at/below a position invalidated before
                    q = rng.choice(just_invalidated[-2:])
                    cand = [x for x in _under(pos, q) if pos[x].leaf]
                    p = rng.choice(cand)
                elif recent and rng.random() < 0.4:          # several writes to one leaf in a cycle / across cycles
                    p = rng.choice(recent[-2:])
                else:
                    p = rng.choice(leaves)
                lines.append('w %s %d %d' % (pos[p].path, t, rng.randint(-9, 99)))
                recent.append(p)
            n_ops += 1
            if rng.random() < 0.15:
                lines.append('dump %d' % t)               # mid-cycle observation
        if unbound and rng.random() < 0.35:
            i = unbound.pop(0)
            lines.append('bind %d %d' % (i, t))            # an input that appears in a later cycle
        if rng.random() < 0.92:
            lines.append('dump %d' % t)
        # quiet cycles (gaps): nothing is written, the flags must fall back
        for _ in range(rng.choice([0, 0, 1, 1, 2])):
            t += rng.choice([1, 1, 2, 5])
            lines.append('dump %d' % t)
        t += rng.choice([1, 1, 1, 2, 3])
    lines.append('dump %d' % t)
    if len(pos) > 1 and rng.random() < 0.4:
        lines.append('val %d' % t)                         # which bundle fields carry a value after this history
    lines.append('dump %d' % (t + 4))
    return Case(lines, {'profile': profile})


# ---------------------------------------------------------------------------------------------
# whole-value writes: value specs

def render_spec(pos, p, present, vals):
    """text of the value of container position p: present = set of present positions strictly below p, vals = leaf -> int"""
    def rec(x):
        if pos[x].leaf:
            return str(vals[x])
        return '(' + ','.join(rec(k) if k in present else '_' for k in pos[x].kids) + ')'
    return rec(p)


def parse_spec(pos, p, text):
    """-> (present positions strictly below p in pre-order, {leaf: int}) or None when the text is not a value of p's shape
    (only the list handed to the write itself may carry unset elements: a list NESTED in the value is a native fixed list
    and must be dense - as drv_track.cpp)"""
    i = [0]
    present, vals = [], {}

    def rec(x):
        if pos[x].leaf:
            m = re.match(r'-?\d+', text[i[0]:])
            if not m or len(m.group(0).lstrip('-')) > 15:
                raise ValueError
            vals[x] = int(m.group(0))
            i[0] += len(m.group(0))
            return
        if text[i[0]:i[0] + 1] != '(':
            raise ValueError
        i[0] += 1
        for n, k in enumerate(pos[x].kids):
            if n > 0:
                if text[i[0]:i[0] + 1] != ',':
                    raise ValueError
                i[0] += 1
            if text[i[0]:i[0] + 1] == '_':
                i[0] += 1
                if pos[x].list and x != p:
                    raise ValueError
            else:
                present.append(k)
                rec(k)
        if text[i[0]:i[0] + 1] != ')':
            raise ValueError
        i[0] += 1

    try:
        if pos[p].leaf:
            raise ValueError
        rec(p)
    except ValueError:
        return None
    if i[0] != len(text):
        return None
    return present, vals


def _spec_kind(pos, p, present):
    below = [x for x in _under(pos, p) if x != p]
    leaves = [x for x in below if pos[x].leaf]
    pl = [x for x in present if pos[x].leaf]
    if not any(k in present for k in pos[p].kids):
        return 'all-unset'
    if not pl:
        return 'nested-present-but-empty'
    if len(pl) == len(leaves):
        return 'dense'
    if any((not pos[x].leaf) and not any(k in present for k in pos[x].kids) for x in present):
        return 'sparse-with-empty-inner'
    return 'sparse'


def _gen_present(rng, pos, p, kind):
    """a set of present positions strictly below p"""
    present = set()

    def fill(x, prob):
        for k in pos[x].kids:
            if rng.random() < prob or (pos[x].list and x != p):     # a nested list value is dense
                present.add(k)
                if not pos[k].leaf:
                    fill(k, prob)
    if kind == 'dense':
        fill(p, 1.1)
    elif kind == 'sparse':
        fill(p, rng.choice([0.35, 0.55, 0.75]))
    elif kind == 'all-unset':
        pass
    elif kind == 'nested-empty':
        # some inner containers present, all of THEIR children unset (at any depth), nothing else
        def empties(x):
            for k in pos[x].kids:
                if pos[k].leaf:
                    continue
                if pos[k].list:
                    # a nested list cannot be empty; present only when its elements are containers (then dense, each empty)
                    if all(not pos[e].leaf for e in pos[k].kids) and rng.random() < 0.5:
                        present.add(k)
                        for e in pos[k].kids:
                            present.add(e)
                            empties(e)
                elif rng.random() < 0.7:
                    present.add(k)
                    empties(k)
        empties(p)
    elif kind == 'one-leaf':
        leaves = [x for x in _under(pos, p) if pos[x].leaf]
        l = rng.choice(leaves)
        x = l
        while x != p:
            present.add(x)
            x = pos[x].parent
    elif kind == 'mixed-empty':
        fill(p, 0.6)
        for x in sorted(present):
            if x in present and not pos[x].leaf and not pos[x].list and rng.random() < 0.4:
                for y in _under(pos, x):
                    if y != x:
                        present.discard(y)
    # a list NESTED in the value is dense: all its elements are present (container elements may be empty)
    todo = [x for x in present if pos[x].list]
    while todo:
        x = todo.pop()
        for e in pos[x].kids:
            if e not in present:
                present.add(e)
                if pos[e].list:
                    todo.append(e)
    return present


class _Sim:
    """the generator's own picture of the flags (only used to steer: which positions ticked in this cycle)"""

    def __init__(self, pos):
        self.pos, self.lmt = pos, [0] * len(pos)

    def write(self, l, t):
        for x in _anc_self(self.pos, l):
            self.lmt[x] = t

    def inv(self, p, t):
        if self.lmt[p] == 0:
            return
        for x in _under(self.pos, p):
            self.lmt[x] = 0
        for x in _anc_self(self.pos, p)[1:]:
            self.lmt[x] = t

    def dup(self, p, present, t):
        """would the write raise 'duplicate modification'?"""
        for c in present:
            if not self.pos[c].leaf and self.lmt[c] == t:
                if any(self.pos[l].leaf and l in present and self.lmt[l] != t and c in _anc_self(self.pos, l) for l in present):
                    return True
        return False


def gen_whole(rng, idx, maxops):
    schema = rng.choice(WSCHEMAS)
    pos = parse_schema(schema)
    leaves = [p for p in range(len(pos)) if pos[p].leaf]
    conts = [p for p in range(len(pos)) if not pos[p].leaf]
    inner = [p for p in conts if p != 0]
    k = rng.choice([1, 2, 2])
    t = rng.randint(1, 3)
    lines = ['case %d' % idx, 'schema %s %d' % (schema, k)]
    unbound = list(range(k))
    if rng.random() < 0.8:
        lines.append('bind 0 %d' % t)
        unbound.remove(0)
    if k == 2 and rng.random() < 0.4:
        lines.append('bind 1 %d' % t)
        unbound.remove(1)
    profile = rng.choice(['whole', 'whole', 'empty-heavy', 'mixed', 'mixed', 'inv-mixed', 'dup'])
    kinds = {'whole': ['dense', 'sparse', 'sparse', 'one-leaf', 'all-unset', 'nested-empty', 'mixed-empty'],
             'empty-heavy': ['all-unset', 'all-unset', 'nested-empty', 'nested-empty', 'mixed-empty', 'sparse', 'one-leaf'],
             'mixed': ['dense', 'sparse', 'one-leaf', 'all-unset', 'nested-empty', 'mixed-empty'],
             'inv-mixed': ['dense', 'sparse', 'all-unset', 'nested-empty', 'one-leaf'],
             'dup': ['dense', 'sparse', 'sparse', 'mixed-empty']}[profile]
    p_ws = {'whole': 0.75, 'empty-heavy': 0.7, 'mixed': 0.45, 'inv-mixed': 0.4, 'dup': 0.5}[profile]
    p_inv = {'whole': 0.08, 'empty-heavy': 0.1, 'mixed': 0.15, 'inv-mixed': 0.35, 'dup': 0.05}[profile]
    sim = _Sim(pos)
    n_ops = 0
    while n_ops < maxops:
        for _ in range(rng.choice([0, 1, 1, 2, 2, 3, 4])):
            r = rng.random()
            if r < p_ws:
                p = 0 if (not inner or rng.random() < 0.6) else rng.choice(inner)
                for attempt in range(4):
                    present = _gen_present(rng, pos, p, rng.choice(kinds))
                    if profile == 'dup' or not sim.dup(p, present, t) or rng.random() < 0.08:
                        break
                vals = {x: rng.randint(-9, 99) for x in present if pos[x].leaf}
                lines.append('%s %s %d %s' % ('wm' if rng.random() < 0.3 else 'ws', pos[p].path, t, render_spec(pos, p, present, vals)))
                if not sim.dup(p, present, t):
                    for l in vals:
                        sim.write(l, t)
                else:
                    # which leaves a failed write reached is the monitor's and the model's business; the steering picture
                    # only needs "something below p may have ticked"
                    for l in vals:
                        sim.write(l, t)
            elif r < p_ws + p_inv:
                rr = rng.random()
                p = 0 if rr < 0.3 else rng.choice(conts) if rr < 0.6 else rng.choice(leaves)
                lines.append('inv %s %d' % (pos[p].path, t))
                sim.inv(p, t)
            else:
                l = rng.choice(leaves)
                lines.append('w %s %d %d' % (pos[l].path, t, rng.randint(-9, 99)))
                sim.write(l, t)
            n_ops += 1
            if rng.random() < 0.2:
                lines.append('dump %d' % t)
            if rng.random() < 0.15:
                lines.append('val %d' % t)                # the value surface of the containers, mid-cycle
        if unbound and rng.random() < 0.35:
            i = unbound.pop(0)
            lines.append('bind %d %d' % (i, t))            # an input that appears in a later cycle
        if rng.random() < 0.95:
            lines.append('dump %d' % t)
        if rng.random() < 0.5:
            lines.append('val %d' % t)
        for _ in range(rng.choice([0, 0, 1, 1, 2])):
            t += rng.choice([1, 1, 2, 5])
            lines.append('dump %d' % t)
        t += rng.choice([1, 1, 1, 2, 3])
    lines.append('dump %d' % t)
    lines.append('val %d' % t)
    lines.append('dump %d' % (t + 4))
    return Case(lines, {'profile': 'ws:' + profile})


def gen_whole_malformed(rng, idx):
    """value specs that are not values of the position's shape: both drivers must answer bad-op and carry on"""
    lines = ['case %d' % idx, 'schema %s 1' % TSB2, 'bind 0 1', 'ws . 1 (5,(_,7))', 'dump 1']
    bad = ['ws . 2 (1,2)', 'ws . 2 (1,(2,3),4)', 'ws . 2 (1,(2,3)', 'ws . 2 1', 'ws 0 2 1', 'ws 0 2 (1)', 'ws . 2 (1,(2,3)))',
           'ws . 2 (x,_)', 'ws . 2 (,_)', 'ws . 2 ()', 'ws 1 2 (_,_,_)', 'ws 5 2 (_,_)', 'wm . 2', 'ws . 2 (1 ,_)', 'ws . x (_,_)',
           'ws . 2 (__)', 'ws . 2 (_,(_))', 'wz . 2 (_,_)', 'ws . 2 (1234567890123456,_)']
    rng.shuffle(bad)
    lines += bad[:5]
    lines += ['ws . 0 (_,_)', 'ws 1 2 (_,-3)', 'dump 2', 'val 2', 'val', 'val x', 'dump 3']
    return Case(lines, {'profile': 'ws:malformed'})


def exhaustive_whole(max_ops, start):
    """every history of <= max_ops operations on the 2-level TSB out of: whole-value writes of the root (all-unset, only
    a, inner present but empty, only c inside the inner, dense) and of the inner bundle (all-unset, only c), leaf writes of
    a and d, invalidation of the root and of the inner bundle - each in the current cycle or in a new one; a dump
    after every operation and one in a final quiet cycle"""
    pos = parse_schema(TSB2)
    alphabet = ['ws . %d (_,_)', 'ws . %d (1,_)', 'wm . %d (_,(_,_))', 'ws . %d (_,(2,_))', 'wm . %d (1,(2,3))',
                'ws 1 %d (_,_)', 'ws 1 %d (4,_)', 'w 0 %d 5', 'w 1.1 %d 6', 'inv . %d', 'inv 1 %d']
    steps = [(a, new) for a in alphabet for new in (False, True)]
    cases = []
    idx = start
    for n in range(1, max_ops + 1):
        for seq in itertools.product(steps, repeat=n):
            if not seq[0][1]:
                continue
            t = 0
            lines = ['case %d' % idx, 'schema %s 1' % TSB2, 'bind 0 1']
            for (a, new) in seq:
                if new:
                    t += 1
                lines.append(a % t)
                lines.append('dump %d' % t)
                lines.append('val %d' % t)
            lines.append('dump %d' % (t + 1))
            cases.append(Case(lines, {'profile': 'ws:exhaustive'}))
            idx += 1
    return cases


def gen_malformed(rng, idx):
    """a short valid history with a few malformed lines: both drivers must answer bad-op / err and carry on"""
    schema = rng.choice(SCHEMAS[1:])
    lines = ['case %d' % idx, 'schema %s 1' % schema, 'bind 0 1', 'w 0 1 5' if schema != SCHEMAS[4] else 'w 0.0 1 5', 'dump 1']
    bad = ['w . 2 1', 'w 7 2 1', 'inv 9.9 2', 'frob 1', 'w 0 x 1', 'dump', 'bind 0 2', 'bind 3 2', 'inv . 0',
           'schema TSB{a:TS<Int>,a:TS<Int>} 1', 'schema TSL<TS<Int>,0> 1', 'schema TS<Int> 3', 'schema TS<Float> 1']
    rng.shuffle(bad)
    lines += bad[:4]
    lines += ['inv . 2', 'dump 2', 'dump 3']
    return Case(lines, {'profile': 'malformed'})


def exhaustive_tsb2(max_ops, start):
    """every history of <= max_ops operations on the 2-level TSB: each operation is a write to one of the three
    leaves or an invalidation of one of the five positions, in the current cycle or in a new one; a dump after every
    operation and one in a final quiet cycle"""
    pos = parse_schema(TSB2)
    leaves = [p for p in range(len(pos)) if pos[p].leaf]
    alphabet = [('w', p) for p in leaves] + [('inv', p) for p in range(len(pos))]
    steps = [(a, new) for a in alphabet for new in (False, True)]
    cases = []
    idx = start
    for n in range(1, max_ops + 1):
        for seq in itertools.product(steps, repeat=n):
            if not seq[0][1]:
                continue                                   # the first operation opens the first cycle
            t = 0
            lines = ['case %d' % idx, 'schema %s 1' % TSB2, 'bind 0 1']
            for j, ((kind, p), new) in enumerate(seq):
                if new:
                    t += 1
                if kind == 'w':
                    lines.append('w %s %d %d' % (pos[p].path, t, 10 * (j + 1) + p))
                else:
                    lines.append('inv %s %d' % (pos[p].path, t))
                lines.append('dump %d' % t)
            lines.append('dump %d' % (t + 1))
            cases.append(Case(lines, {'profile': 'exhaustive'}))
            idx += 1
    return cases


def _corpus():
    cdir = os.path.join(VERIF, 'corpus', 'C04')
    out = []
    if os.path.isdir(cdir):
        for f in sorted(os.listdir(cdir)):
            if f.startswith('bind_') or not os.path.isfile(os.path.join(cdir, f)):
                continue                                   # bind_*.txt belong to the track-bind stream
            lines = [l.rstrip('\n') for l in open(os.path.join(cdir, f)) if l.strip()]
            out.append(Case(lines, {'corpus': f, 'profile': 'corpus'}))
    return out


def _corpus_bind():
    cdir = os.path.join(VERIF, 'corpus', 'C04')
    out = []
    if os.path.isdir(cdir):
        for f in sorted(os.listdir(cdir)):
            if f.startswith('bind_') and f.endswith('.txt'):
                lines = [l.rstrip('\n') for l in open(os.path.join(cdir, f)) if l.strip()]
                out.append(Case(lines, {'corpus': f, 'profile': 'bind:corpus'}))
    return out


def streams(rng, tier, seed):
    quick = tier == 'quick'
    n = 120 if quick else 3000
    progs = [ec.gen_probe(rng) for _ in range(n)]
    nt = 420 if quick else 9000
    track = _corpus()
    track += [gen_track(rng, i, rng.choice([6, 12, 25]) if quick else rng.choice([8, 20, 45])) for i in range(nt)]
    track += [gen_malformed(rng, nt + i) for i in range(12 if quick else 120)]
    track += exhaustive_tsb2(3 if quick else 4, len(track) + 100)
    nw = 320 if quick else 7000
    base = len(track) + 100000
    track += [gen_whole(rng, base + i, rng.choice([5, 10, 20]) if quick else rng.choice([8, 20, 40])) for i in range(nw)]
    track += [gen_whole_malformed(rng, base + nw + i) for i in range(8 if quick else 80)]
    track += exhaustive_whole(2 if quick else 3, base + nw + 1000)
    nb = 420 if quick else 9000
    bind = _corpus_bind()
    bind += [cb.gen_bind(rng, i, rng.choice([6, 12, 25]) if quick else rng.choice([8, 20, 45])) for i in range(nb)]
    nk = 300 if quick else 6000
    bind += [cb.gen_keyset(rng, nb + i, rng.choice([4, 8, 16]) if quick else rng.choice([6, 14, 30])) for i in range(nk)]
    bind += [cb.gen_bind_malformed(rng, nb + nk + i) for i in range(12 if quick else 120)]
    bind += cb.exhaustive_keyset(len(bind) + 100)
    ex_kinds = ['ts', 'tss', 'tsd']        # the exhaustive bind histories exist for the flat shapes (tsdn: key-set streams)
    for kind in (ex_kinds if not quick else [rng.choice(ex_kinds[1:])]):
        bind += cb.exhaustive_bind(kind, len(bind) + 100)
    return [ec.engine_stream('engine-probe', progs),
            Stream('track', [os.path.join(BUILD, 'hgv_track')], model_cmd('C04'), track),
            Stream('track-bind', [os.path.join(BUILD, 'hgv_trackbind')], model_cmd('C04Bind'), bind)]


# ---------------------------------------------------------------------------------------------
# monitor of the track stream: the property decided on the implementation's dumps alone

class _Res:
    def __init__(self):
        self.bad, self.finding, self.feats, self.nontrivial = [], [], set(), False


_POS = re.compile(r'^([0-9.]+)=([01])([01])/(\d+)/(-|-?\d+)$')


def _parse_view(text):
    """' .=11/3/- 0=10/1/10' -> {path: (valid, modified, lmt, value)}"""
    out = {}
    for w in text.split():
        m = _POS.match(w)
        if not m:
            raise ValueError('unreadable position %r' % w)
        out[m.group(1)] = (int(m.group(2)), int(m.group(3)), int(m.group(4)), m.group(5))
    return out


def _parse_notes(text):
    """' .*1 1*2' -> {path: count}"""
    out = {}
    for w in text.split():
        m = re.match(r'^([0-9.]+)\*(\d+)$', w)
        if not m or m.group(1) in out:
            raise ValueError('unreadable notification note %r' % w)
        out[m.group(1)] = int(m.group(2))
    return out


def _parse_patterns(text):
    """' .=(5,(_,6)) 1=(_,6)' -> {path: pattern text}"""
    out = {}
    for w in text.split():
        m = re.match(r'^([0-9.]+)=([-0-9_(),]+)$', w)
        if not m or m.group(1) in out:
            raise ValueError('unreadable container value %r' % w)
        out[m.group(1)] = m.group(2)
    return out


def _pattern_mismatch(pos, x, text, stored, top):
    """None when `text` is what the value of container x may read given the leaf values stored so far, else the reason"""
    i = [0]

    def rec(y, must_be_present):
        """returns a reason or None"""
        if text[i[0]:i[0] + 1] == '_':
            i[0] += 1
            if must_be_present:
                return 'position %s has no value although %s' % (
                    pos[y].path, 'something was stored at / below it' if must_be_present == 'stored' else
                    'it is the value of the position itself' if y == x else 'a list value is dense')
            return None
        if pos[y].leaf:
            m = re.match(r'-?\d+', text[i[0]:])
            if not m:
                return 'unreadable at %d' % i[0]
            i[0] += len(m.group(0))
            if y in stored:
                if int(m.group(0)) != stored[y]:
                    return 'leaf %s reads %s, the value stored last is %d' % (pos[y].path, m.group(0), stored[y])
            elif must_be_present != 'dense':
                return 'leaf %s carries the value %s although nothing was ever stored there' % (pos[y].path, m.group(0))
            return None                     # a never stored element of a dense list: whatever the default is
        if text[i[0]:i[0] + 1] != '(':
            return 'unreadable at %d' % i[0]
        i[0] += 1
        for n, k in enumerate(pos[y].kids):
            if n > 0:
                if text[i[0]:i[0] + 1] != ',':
                    return 'unreadable at %d' % i[0]
                i[0] += 1
            below = any(l in stored for l in _under(pos, k))
            need = 'dense' if pos[y].list else ('stored' if below else None)
            if need is None and text[i[0]:i[0] + 1] != '_':
                return 'field %s carries a value although nothing was ever stored at / below it' % pos[k].path
            why = rec(k, need)
            if why:
                return why
        if text[i[0]:i[0] + 1] != ')':
            return 'unreadable at %d' % i[0]
        i[0] += 1
        return None

    why = rec(x, 'dense')                   # the position's own value() is always there
    if why is None and i[0] != len(text):
        return 'trailing text'
    return why


def _mon_track(case, out):
    res = _Res()
    if len(out) != len(case.lines):
        res.bad.append('[C04-trace] %d output lines for %d input lines' % (len(out), len(case.lines)))
        return res
    pos = None
    wr, inval = {}, {}            # leaf -> (seq, t, v) ; position -> (seq, t) of the last EFFECTIVE invalidation
    seq = 0
    bound = []
    last_t = 0
    consumer_hits = 0
    effective_seen_at = None      # time of an effective invalidation not yet followed by a later dump
    pending_empty = None          # time of a whole-value write that wrote no leaf, not yet followed by a dump
    stored = {}                   # leaf -> the value stored last (never forgotten: invalidation does not erase a value)

    def bad(cls, msg):
        if len(res.bad) < 6:
            res.bad.append('[C04-%s] %s' % (cls, msg))

    def cut(p):
        return max([inval[a][0] for a in _anc_self(pos, p) if a in inval] or [0])

    def ref(p, t):
        """(valid, modified, lmt, value) of position p when read at time t"""
        c = cut(p)
        below = _under(pos, p)
        times = [wr[l][1] for l in below if l in wr and wr[l][0] > c]
        if not times:
            return (0, 0, 0, '-')
        times += [inval[q][1] for q in below if q != p and q in inval and inval[q][0] > c]
        lmt = max(times)
        val = str(wr[p][2]) if pos[p].leaf else '-'
        return (1, 1 if (t != 0 and lmt == t) else 0, lmt, val)

    for ln, o in zip(case.lines, out):
        w = ln.split()
        if not w:
            continue
        op = w[0]
        if op == 'case':
            if o != ln:
                bad('trace', 'case line not echoed: %r' % o)
            continue
        if op == 'schema' and len(w) == 3:
            new = parse_schema(w[1])
            if new is None or w[2] not in ('1', '2'):
                if o != 'bad-op':
                    bad('trace', 'malformed schema line answered %r' % o)
                continue
            pos = new
            wr, inval, seq = {}, {}, 0
            stored = {}
            bound = [False] * int(w[2])
            if o != 'ok n=%d' % len(pos):
                bad('trace', 'schema answered %r, expected ok n=%d' % (o, len(pos)))
            res.feats.add('schema:' + w[1])
            res.feats.add('inputs:' + w[2])
            continue
        if pos is None:
            if o != 'bad-op':
                bad('trace', 'op before schema answered %r' % o)
            continue
        paths = {pos[p].path: p for p in range(len(pos))}
        wellformed_t = lambda s: s.isdigit() and len(s) <= 15
        if op == 'bind' and len(w) == 3 and w[1].isdigit() and wellformed_t(w[2]) and int(w[1]) < len(bound) and not bound[int(w[1])]:
            if o != 'ok':
                bad('trace', '%r answered %r' % (ln, o))
            else:
                bound[int(w[1])] = True
                if seq > 0:
                    res.feats.add('late-bind')
            continue
        if op == 'w' and len(w) == 4 and w[1] in paths and pos[paths[w[1]]].leaf and wellformed_t(w[2]) and re.match(r'^-?\d{1,15}$', w[3]):
            t = int(w[2])
            if t == 0:
                if o != 'err:invalid-arg':
                    bad('trace', 'write at MIN_DT answered %r' % o)
                continue
            if not (o == 'ok' or o.startswith('ok ')):
                bad('trace', '%r answered %r' % (ln, o))
                continue
            p = paths[w[1]]
            if t < last_t:
                res.feats.add('time-goes-back')
                return res                      # outside the stated assumption: not judged
            # observers: exactly the positions that BECOME modified by this write are notified, once each
            try:
                got_n = _parse_notes(o[2:])
            except ValueError as e:
                bad('trace', str(e))
                got_n = None
            if got_n is not None:
                exp_n = {pos[x].path: 1 for x in _anc_self(pos, p) if not ref(x, t)[1]}
                if got_n != exp_n:
                    again = sorted(k for k in got_n if k not in exp_n)
                    bad('notify', 'a write notified observers other than once per position that becomes modified: %r at t=%d '
                                  'notified %s, expected %s%s' % (ln, t, got_n, exp_n,
                                                                 ' (already modified in this cycle: %s)' % again if again else ''))
                if len(exp_n) < len(_anc_self(pos, p)):
                    res.feats.add('write-with-already-modified-ancestor')
            if p in wr and wr[p][1] == t and wr[p][0] > cut(p):
                res.feats.add('repeated-write-in-cycle')
            if any(a in inval for a in _anc_self(pos, p)) and not (p in wr and wr[p][0] > cut(p)):
                res.feats.add('rewrite-after-invalidate')
            last_t = t
            seq += 1
            wr[p] = (seq, t, int(w[3]))
            stored[p] = int(w[3])
            continue
        if op in ('ws', 'wm') and len(w) == 4 and w[1] in paths and not pos[paths[w[1]]].leaf and wellformed_t(w[2]) \
                and parse_spec(pos, paths[w[1]], w[3]) is not None:
            # WHOLE-VALUE write of a container.  Reference: it IS the sequence of the leaf writes of its present leaves
            # (nothing else is written, so nothing else may tick or become valid); an all-unset / nested-but-empty value
            # writes nothing.  One explicit error: a nested container that already ticked in this cycle and gets a newly
            # written leaf makes the write fail half-way (logic_error "duplicate modification"): the leaves reached
            # before that point stay written.
            t = int(w[2])
            if t == 0:
                if o != 'err:invalid-arg':
                    bad('trace', 'whole-value write at MIN_DT answered %r' % o)
                continue
            p = paths[w[1]]
            if t < last_t:
                res.feats.add('time-goes-back')
                return res
            present, vals = parse_spec(pos, p, w[3])
            pset = set(present)
            before = {x: ref(x, t) for x in _anc_self(pos, p) + present}
            pleaves = [l for l in present if pos[l].leaf]                       # pre-order
            fresh = [l for l in pleaves if not before[l][1]]                     # not yet written in this cycle
            end = lambda c: max(_under(pos, c)) + 1
            dups = [c for c in present if not pos[c].leaf and before[c][1]
                    and any(c in _anc_self(pos, l) for l in fresh)]
            kind = _spec_kind(pos, p, pset)
            res.feats.add('ws:%s' % kind)
            res.feats.add('ws:via-%s' % ('move' if op == 'wm' else 'copy'))
            res.feats.add('ws:at-%s' % ('root' if p == 0 else 'inner-container'))
            if not fresh:
                res.feats.add('ws:writes-nothing-new:%s' % ('never-written' if not before[p][0] else
                                                            'already-ticked' if before[p][1] else 'valid-quiet'))
            is_ok = o == 'ok' or o.startswith('ok ')
            is_err = o == 'err:logic' or o.startswith('err:logic ')
            if not (is_ok or is_err):
                bad('trace', '%r answered %r' % (ln, o))
                continue
            if is_err and not dups:
                bad('trace', 'a whole-value write failed although no nested container that already ticked in this cycle '
                             'gets a newly written leaf: %r at t=%d answered %r' % (ln, t, o))
                continue
            written, stamped = pleaves, None
            if is_err:
                # the first failing container in call order (children before their parent, earlier siblings first)
                cstar = min(dups, key=lambda c: (end(c), -c))
                written = [l for l in pleaves if l < end(cstar)]
                done = [x for x in present if (end(x), -x) < (end(cstar), -cstar)]
                stamped = {pos[x].path for x in done if not before[x][1] and any(x in _anc_self(pos, l) for l in fresh if l in written)}
                res.feats.add('ws:duplicate-modification-error')
            elif dups:
                res.feats.add('ws:duplicate-modification-expected-but-ok')     # left to the correspondence
            else:
                up = set()
                for l in fresh:
                    up |= {x for x in _anc_self(pos, l)}
                stamped = {pos[x].path for x in up if not ref(x, t)[1]}
            try:
                got_n = _parse_notes(o[2:] if is_ok else o[len('err:logic'):])
            except ValueError as e:
                bad('trace', str(e))
                got_n = None
            if got_n is not None and stamped is not None:
                exp_n = {k: 1 for k in stamped}
                if got_n != exp_n:
                    bad('notify', 'a whole-value write notified observers other than once per position that becomes modified: '
                                  '%r at t=%d notified %s, expected %s' % (ln, t, got_n, exp_n))
            last_t = t
            for l in written:
                seq += 1
                wr[l] = (seq, t, vals[l])
                stored[l] = vals[l]
            if not written:
                pending_empty = t
            continue
        if op == 'inv' and len(w) == 3 and w[1] in paths and wellformed_t(w[2]):
            t = int(w[2])
            if t == 0:
                if o != 'err:invalid-arg':
                    bad('trace', 'invalidate at MIN_DT answered %r' % o)
                continue
            p = paths[w[1]]
            if t < last_t:
                res.feats.add('time-goes-back')
                return res
            last_t = t
            was_valid = ref(p, t)[0]
            kind = 'root' if p == 0 else 'leaf' if pos[p].leaf else 'child-container'
            if p != 0 and pos[p].leaf is False:
                pass
            if o[:1] != str(was_valid) or not (len(o) == 1 or o[1] == ' '):
                bad('inv-result', 'invalidate() result differs from the history: %r on a%s valid position answered %r'
                    % (ln, '' if was_valid else ' not', o))
            # observers: every position that is invalidated and every ancestor that becomes modified is told (an
            # invalidated container may be told twice: by its first child's cascade and by its own invalidate), nobody else
            try:
                got_n = _parse_notes(o[1:])
            except ValueError as e:
                bad('trace', str(e))
                got_n = None
            if got_n is not None:
                exp_set = set()
                if was_valid:
                    exp_set = {pos[x].path for x in _under(pos, p) if ref(x, t)[0]}
                    exp_set |= {pos[y].path for y in _anc_self(pos, p)[1:] if not ref(y, t)[1]}
                above = {pos[y].path for y in _anc_self(pos, p)[1:]}
                if set(got_n) != exp_set or any(c > 2 for c in got_n.values()) or any(got_n[k] != 1 for k in got_n if k in above):
                    bad('notify', 'an invalidation notified the wrong observers: %r at t=%d notified %s, expected the positions %s'
                        % (ln, t, got_n, sorted(exp_set)))
            if was_valid:
                res.feats.add('invalidate:' + kind + ('' if pos[p].leaf else
                                                   ':with-valid-children' if any(ref(c, t)[0] for c in pos[p].kids) else ':children-invalid'))
                seq += 1
                inval[p] = (seq, t)
                effective_seen_at = t
            else:
                res.feats.add('invalidate-noop:' + kind)
            continue
        if op == 'dump' and len(w) == 2 and wellformed_t(w[1]):
            t = int(w[1])
            if t < last_t:
                res.feats.add('time-goes-back')
                return res
            parts = [x.strip() for x in o.split('|')]
            if len(parts) != 1 + len(bound) or not parts[0].startswith('o:'):
                bad('trace', 'dump answered %r' % o[:80])
                continue
            try:
                ov = _parse_view(parts[0][2:])
            except ValueError as e:
                bad('trace', str(e))
                continue
            if sorted(ov) != sorted(paths):
                bad('trace', 'dump lists positions %s' % sorted(ov))
                continue
            quiet = t > last_t
            res.feats.add('dump:quiet-cycle' if quiet else 'dump:write-cycle')
            if pending_empty is not None:
                if t == pending_empty:
                    res.nontrivial = True
                    res.feats.add('empty-whole-value-write-observed-in-its-cycle')
                pending_empty = None
            if effective_seen_at is not None and t > effective_seen_at:
                res.nontrivial = True
                res.feats.add('invalidation-observed-in-later-cycle')
            mods = [p for p in range(len(pos)) if ov[pos[p].path][1]]
            vals = [p for p in range(len(pos)) if ov[pos[p].path][0]]
            if mods and len(mods) < len(vals):
                res.nontrivial = True
                res.feats.add('dump:some-valid-positions-unmodified')
            # --- producer side against the reference
            for p in range(len(pos)):
                got, exp = ov[pos[p].path], ref(p, t)
                where = 'position %s at t=%d (after %r)' % (pos[p].path, t, ln)
                if got[0] != exp[0]:
                    bad('valid', 'output view disagrees with the write/invalidate history on VALID: %s reads %d, expected %d' % (where, got[0], exp[0]))
                if got[1] != exp[1]:
                    bad('modified', 'output view disagrees with the write/invalidate history on MODIFIED: %s reads %d, expected %d' % (where, got[1], exp[1]))
                if got[2] != exp[2]:
                    bad('lmt', 'output view disagrees with the write/invalidate history on LAST_MODIFIED_TIME: %s reads %d, expected %d' % (where, got[2], exp[2]))
                if got[3] != exp[3]:
                    bad('value', 'output view disagrees with the write/invalidate history on VALUE: %s reads %s, expected %s' % (where, got[3], exp[3]))
                if not pos[p].leaf and exp[0] and not any(ref(c, t)[0] for c in pos[p].kids):
                    res.feats.add('observation:valid-container-without-valid-child')
            # --- relations on the dump alone
            for p in range(len(pos)):
                v, m, l, _ = ov[pos[p].path]
                if l > t and t >= last_t:
                    bad('parent', 'position %s carries lmt=%d in the future of t=%d' % (pos[p].path, l, t))
                if m and not v:
                    bad('parent', 'position %s modified but not valid at t=%d' % (pos[p].path, t))
                if not v and l != 0:
                    bad('parent', 'position %s not valid but lmt=%d at t=%d' % (pos[p].path, l, t))
                if t != 0 and v and m != (1 if l == t else 0):
                    bad('parent', 'position %s modified=%d with lmt=%d at t=%d' % (pos[p].path, m, l, t))
                q = pos[p].parent
                if q is not None:
                    qv, qm, ql, _ = ov[pos[q].path]
                    if l > ql or (v and not qv) or (m and not qm):
                        bad('parent', 'child %s (%d%d/%d) above its parent %s (%d%d/%d) at t=%d'
                            % (pos[p].path, v, m, l, pos[q].path, qv, qm, ql, t))
                if not pos[p].leaf and m:
                    c = cut(p)
                    child_mod = any(ov[pos[k].path][1] for k in pos[p].kids)
                    desc_inv = any(x != p and x in inval and inval[x][1] == t and inval[x][0] > c for x in _under(pos, p))
                    if not child_mod and not desc_inv:
                        bad('parent', 'fixed-shape parent %s modified at t=%d although no child is and nothing below it '
                                      'was invalidated in this cycle' % (pos[p].path, t))
            # --- consumers
            for i, b in enumerate(bound):
                part = parts[1 + i]
                if not part.startswith('i%d:' % i):
                    bad('trace', 'input %d part unreadable: %r' % (i, part[:40]))
                    continue
                body = part[len('i%d:' % i):].strip()
                if not b:
                    if body != 'unbound':
                        bad('trace', 'unbound input %d dumped as %r' % (i, body[:40]))
                    continue
                try:
                    iv = _parse_view(body)
                except ValueError as e:
                    bad('trace', str(e))
                    continue
                for p in range(len(pos)):
                    a, c = ov.get(pos[p].path), iv.get(pos[p].path)
                    if a == c:
                        continue
                    root_inv_t = inval[0][1] if 0 in inval else None
                    if (p == 0 and c is not None and a[0] == 0 and c[0] == 0 and a[3] == c[3] and root_inv_t is not None
                            and c[2] == root_inv_t and c[1] == (1 if (t != 0 and root_inv_t == t) else 0)):
                        consumer_hits += 1
                        if not res.finding:
                            res.finding.append(
                                '[C04-consumer] a bound input reads the root of an invalidated target differently from the '
                                'producer: input %d reads modified=%d lmt=%d at t=%d, the producer modified=%d lmt=%d (the link '
                                'record keeps the invalidation time: target_link.cpp notify -> record_target_modified, '
                                'ts_input/base_view.cpp last_modified_time = max(link, data))' % (i, c[1], c[2], t, a[1], a[2]))
                        continue
                    bad('io', 'a bound input view differs from the output view: input %d position %s at t=%d reads %s, the producer reads %s' % (i, pos[p].path, t, c, a))
            continue
        if op == 'val' and len(w) == 2 and wellformed_t(w[1]):
            # the VALUE surface of the containers: a bundle value carries exactly the fields at / below which something
            # has ever been stored (a field is never unset again, also not by an invalidation: valid = 0 says "do not
            # read"); a stored leaf reads the value stored last; consumers read what the producer reads
            parts = [x.strip() for x in o.split('|')]
            if len(parts) != 1 + len(bound) or not parts[0].startswith('o:'):
                bad('trace', 'val answered %r' % o[:80])
                continue
            conts_ = [x for x in range(len(pos)) if not pos[x].leaf]
            try:
                got = _parse_patterns(parts[0][2:])
            except ValueError as e:
                bad('trace', str(e))
                continue
            if sorted(got) != sorted(pos[x].path for x in conts_):
                bad('trace', 'val lists positions %s' % sorted(got))
                continue
            res.feats.add('val:observed')
            for x in conts_:
                why = _pattern_mismatch(pos, x, got[pos[x].path], stored, True)
                if why:
                    bad('value', 'the value of container %s at t=%s reads %s: %s (stored so far: %s)'
                        % (pos[x].path, w[1], got[pos[x].path], why, {pos[l].path: v for l, v in sorted(stored.items())}))
                if stored and any(pos[l].leaf and l not in stored for l in _under(pos, x)):
                    res.feats.add('val:partly-stored-container')
            for i, b in enumerate(bound):
                part = parts[1 + i]
                body = part[len('i%d:' % i):].strip() if part.startswith('i%d:' % i) else None
                if body is None:
                    bad('trace', 'input %d part unreadable: %r' % (i, part[:40]))
                elif not b:
                    if body != 'unbound':
                        bad('trace', 'unbound input %d listed as %r' % (i, body[:40]))
                elif body != parts[0][2:].strip():
                    bad('io', 'a bound input reads container values differently from the producer at t=%s: input %d reads %s, '
                              'the producer %s' % (w[1], i, body, parts[0][2:].strip()))
            continue
        # anything else is malformed: both drivers must refuse it
        res.feats.add('malformed-line')
        if o != 'bad-op':
            bad('trace', 'malformed line %r answered %r' % (ln, o))
    if consumer_hits:
        res.feats.add('consumer-root-differs')
    return res


_last = [None, None, None]      # monitor / features / nontrivial are asked about the same (case, trace) in a row


def _run_track(case, out):
    if _last[0] is case and _last[1] == out:
        return _last[2]
    try:
        res = _mon_track(case, out)
    except Exception as e:      # a crashed / truncated implementation trace
        res = _Res()
        res.bad.append('[C04-trace] implementation trace unreadable: %s' % e)
    _last[0], _last[1], _last[2] = case, list(out), res
    return res


_engine_monitor = ep.monitor_for(ID)


def monitor(stream, case, out):
    if stream == 'track-bind':
        return cb.run_bind(case, out).bad[:3]
    if stream != 'track':
        return _engine_monitor(stream, case, out)
    res = _run_track(case, out)
    # ordinary violations first; the candidate finding [C04-consumer] is listed LAST and is the first message only
    # when nothing else is wrong, so a known-finding fingerprint anchored at the start can never mask a new violation
    return res.bad[:3] + res.finding[:1]


def features(stream, case, out):
    if stream == 'track-bind':
        return cb.features(case, out)
    if stream != 'track':
        return ep.features(stream, case, out)
    res = _run_track(case, out)
    fs = set('track:' + f for f in res.feats)
    if 'profile' in case.meta:
        fs.add('track:profile=' + case.meta['profile'])
    n = sum(1 for l in case.lines if l.split()[:1] in (['w'], ['inv'], ['ws'], ['wm']))
    fs.add('track:ops=%s' % ('0-4' if n <= 4 else '5-12' if n <= 12 else '13-25' if n <= 25 else '26+'))
    return sorted(fs)


def nontrivial(stream, case, out):
    if stream == 'track-bind':
        return cb.run_bind(case, out).nontrivial
    if stream != 'track':
        t = ec.trace_of(out)
        return " P " in " " + t and ("a=11" in t) and ("a=10" in t)
    return _run_track(case, out).nontrivial


def alarm_filter(stream, case, impl_out, model_out):
    if stream == 'track-bind':
        return True, []         # every column of a dump is an observable
    if stream != 'track':
        return ep.alarm_filter(stream, case, impl_out, model_out)
    return True, []             # every column of a dump is an observable


def valid_case(stream, case, impl_out, model_out):
    if stream == 'track-bind':
        return cb.valid_case(case, impl_out, model_out)
    if stream != 'track':
        return ep.valid_case(stream, case, impl_out, model_out)
    body = [l.split() for l in case.lines[1:] if l.strip()]
    if not body or body[0][:1] != ['schema'] or not any(w[0] == 'dump' for w in body):
        return False
    for o in (impl_out, model_out):
        if o is not None and any(('bad-op' in l) or l.startswith('err:') or l.startswith('<') for l in o):
            return False
    last = 0
    for w in body[1:]:
        if w[0] in ('w', 'ws', 'wm', 'inv', 'dump', 'val', 'bind'):
            try:
                t = int(w[2] if w[0] in ('w', 'ws', 'wm', 'inv', 'bind') else w[1])
            except (ValueError, IndexError):
                return False
            if t < last:
                return False
            last = t
    return True
