"""C04 - modified / valid / last-modified-time tell the truth for producers and consumers."""
import engine_common as ec
import engine_plugin as ep

ID = "C04"
LEAN_MODULES = ['HgVerif.Props.C04', 'HgVerif.Model.Engine', 'HgVerif.Model.Extracted']
THEOREMS = ['HgVerif.Tracking.write_spec', 'HgVerif.Tracking.write_coalesces', 'HgVerif.Tracking.write_monotone', 'HgVerif.Tracking.child_modified_parent_modified', 'HgVerif.Tracking.modified_implies_valid', 'HgVerif.Tracking.invalidate_leaf_spec', 'HgVerif.Tracking.markUp_spec']
CXX_TARGETS = ['hgv_engine']
USES_EXTRACT = True
RULE = 'flat graphs with 1-3 probe nodes: a probe wakes itself every smallest step and logs value/modified/valid/last-modified-time of a PASSIVE input (so it observes cycles in which the producer did not write); several consumers per output; non-trivial = the probed output is seen both modified and unmodified-but-valid; distinct by program text'
TRUSTED = ['collection-shaped positions (TSB/TSL/TSD children) are exercised on the real code by the C05/C20 drivers; the engine stream covers TS[int] endpoints']
ASSUMPTIONS = ["cycle times non-decreasing; a write's time is the current cycle time"]
TECHNIQUE = 'Lean 4 proof (invariant lmt child <= lmt parent <= now through arbitrary write/invalidate histories on arbitrary trees) + differential correspondence with probe nodes + dataflow reference monitor'
LEVEL_TEXT = 'Kernel-checked for every tree of time-series positions and every write history: a write makes exactly the written position and its ancestors modified at the cycle time (parents modified whenever a child is, and only then), repeated writes in a cycle coalesce, last-modified-times never move backwards, invalidation makes the position invalid and unmodified while its ancestors are modified. On the real code, probe nodes log the four observables of bound inputs in every cycle and must agree with the model and with the dataflow reading.'
LEVEL_NOTE = 'Trusted: Lean kernel; tracking model tied to types.cpp/base_view.cpp by the probe correspondence; inputs-as-projections is checked, not proved.'


def streams(rng, tier, seed):
    n = 120 if tier == "quick" else 3000
    progs = [ec.gen_probe(rng) for _ in range(n)]
    return [ec.engine_stream("engine-probe", progs)]


monitor = ep.monitor_for(ID)
features = ep.features
alarm_filter = ep.alarm_filter


def nontrivial(stream, case, out):
    t = ec.trace_of(out)
    return " P " in " " + t and ("a=11" in t) and ("a=10" in t)

valid_case = ep.valid_case
