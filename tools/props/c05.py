"""C05 - collection deltas are coherent with collection values at every tick (TSS / TSD / tick TSW / duration TSW).

TSS / TSD histories run over four KEY types: i64 (tagged-pointer slot table) and i32 / date / f32 (alignment < 8: the
BITMAP slot table with its two planes constructed / live); the case header names the type (`tss:date`), keys are
written and read back as integers through a fixed bijection, the Lean model is key-type independent."""
import itertools
import os
from vlib import Case, Stream, BUILD, VERIF, model_cmd

ID = "C05"
LEAN_MODULES = ["HgVerif.Props.C05", "HgVerif.Props.C05Window", "HgVerif.Props.C05Grow"]
_P = "HgVerif.Slots."
_W = "HgVerif.TimeWindow."
_TW_THEOREMS = [_W + n for n in [
    # duration (time-span) window: cyclic buffer -> list refinement
    "reserve_preserves_content", "ensure_preserves_content", "prune_content", "append_content", "dropped_eq",
    "push_content", "push_removed", "wf_reachable", "capacity_shape",
    "window_refines_spec", "window_tick_delta", "window_all_valid", "window_size", "GTW.run_w",
    "reservePhysical_counterexample",
]]
THEOREMS = [_P + n for n in [
    # TSS
    "tss_inv_reachable", "tss_slot_inv_reachable", "tss_delta_canonical", "tss_delta_coherent",
    "tss_add_remove_no_trace", "tss_remove_add_no_trace", "tss_times", "tss_ghost_is_cycle_start",
    "tss_window_is_cycle", "tss_ghost_eq_fold", "tss_value_eq_fold", "GSet.run_x",
    # TSD (key level) + ceiling items
    "tsd_inv_reachable", "tsd_slot_inv_reachable", "tsd_delta_canonical", "tsd_delta_coherent",
    "tsd_modified_subset_value", "tsd_removed_readable", "tsd_set_erase_no_trace", "tsd_erase_set_no_trace",
    "tsd_times", "tsd_window_is_cycle", "tsd_ghost_eq_fold", "tsd_value_eq_fold", "GDict.run_x",
    # TSD value level: the full statement (code with the F-C05-1 repair), what it is built on, the pre-fix
    # counterexample, and the key_set() counterexample (known finding F-C05-2)
    "tsd_value_delta_coherent", "tsd_vinv_reachable", "tsd_vghost_is_cycle_start", "tsd_value_delta_mem",
    "tsd_value_delta_partial", "tsd_value_delta_incoherent_prefix", "tsd_keyset_incoherent",
    "GDictV.run_x", "GDictV.run_keys",
    # tick window
    "window_last_n", "window_evicted", "GWin.run_w",
    # fixed TSL / TSB (ceiling)
    "fixed_cycle_coherent", "fixed_cycle_aux", "fixed_wf_reachable",
]] + _TW_THEOREMS + [_P + n for n in [
    # growth of the slot table at any point of a cycle; the two planes of the bitmap representation (narrow key types)
    "resizedBitmapCopy_test", "resizedBitmapCopy_wf", "planes_growth_preserves_states",
    "planes_growth_preserves_live_and_pending", "planes_growth_refines", "planes_growth_at_any_point",
    "Planes.markPending_abs", "Planes.markLive_abs", "Planes.construct_abs", "Planes.markFree_abs", "Planes.Abs_ofSlots",
    "planes_growth_s83_states", "planes_growth_s83_refines", "planes_growth_s83_resurrects",
    "TSS.reserve_observables", "TSS.reserve_inv", "TSD.reserve_observables", "TSD.reserve_inv", "TSD.reserve_vinv",
    "tssg_inv_reachable", "tsdg_inv_reachable", "tss_size_contains", "tsd_size_contains",
    "tssg_tick_coherent", "tsd_value_delta_state", "tsdg_tick_coherent",
    "tss_s83_incoherent", "s83_history_coherent_as_coded", "GSetG.run_x", "GDictG.run_x",
]]
CXX_TARGETS = ["hgv_slots", "hgv_twindow"]
RULE = ("mutation histories over real standalone TSOutput objects of TSS<K>, TSD<K,TS<Int>> (K in int64 | int32 | date | float: "
        "tagged-pointer and bitmap slot tables), tick TSW<Int>, duration "
        "TSW<Int> and fixed TSL<TS<Int>,n> with an explicit evaluation time per op; a case is non-trivial when one cycle "
        "mutates the same key at least twice (cancel / remove+re-insert), or a slot is reused after a physical erase, or "
        "the slot capacity grows past 8/16/32 (by an insert at constructed keys = capacity or by reserve, in particular "
        "while removals of the same cycle are pending erase), or a window evicts, or a duration window lets a value expire, holds more "
        "than 4 values (its buffer was regrown) or is regrown while wrapped, or a list cycle leaves some children "
        "unmodified; distinct by sha1 of the op list")
TRUSTED = ["ankerl::unordered_dense key index modelled as first constructed slot holding the key",
           "sul::dynamic_bitset delta bits modelled per slot (sizes are kept equal to the capacity by ensure_delta_capacity)",
           "type-erased Value copy/equality/hash of keys and values (int64, int32, date, float keys are written and read back "
           "through a fixed bijection with the model's integers)",
           "SlotBitmap words modelled as their physical bits, 64 per word (set / reset / test by index instead of shift and mask)",
           "the choice of slot-table representation by payload alignment (StableSlotStore) is not modelled: the planes model "
           "is proved to implement the one-state-per-slot model, and both representations are driven",
           "duration window: the two parallel heap arrays (values, times) of TSWindowStorageCore modelled as one list of "
           "(value, time) slots; the signed cut-off `time < modified_time - range` modelled as `time + range < modified_time`"]
ASSUMPTIONS = ["evaluation times of successive mutations are non-decreasing (the engine's clock); decreasing times are "
               "exercised for correspondence only",
               "TSD children are TS<Int> written through TSDDataMutationView::set; child invalidation and REF children are out of scope",
               "key types exercised: int64, int32, date, float (narrow keys |n| < 2^24); value type Int only; str / bool / nested "
               "keys are not exercised (the slot operations are type-erased)",
               "duration windows: one mutation view per op (push / clear / clear+push); copy_value_from / move_value_from of a "
               "whole list and copy / move of the window storage are not exercised"]

# ---------------------------------------------------------------------------------------------
# generators


class _Clock:
    """evaluation time of the current cycle; `tick` starts a new cycle"""

    def __init__(self, rng):
        self.rng = rng
        self.t = rng.randint(1, 3)

    def tick(self):
        self.t += self.rng.choice([1, 1, 1, 2, 3])
        return self.t


def _pick_key(rng, pool, recent):
    if recent and rng.random() < 0.55:
        return rng.choice(recent[-3:])
    return rng.choice(pool)


KEY_TYPES = ["i64", "i32", "date", "f32"]


def _pick_kt(rng):
    """half of the random histories stay on int64 keys (tagged-pointer table), the rest use the bitmap table"""
    return rng.choice(["i64", "i64", "i64", "i32", "date", "f32"])


def _header(kind, kt, rng=None):
    if kt == "i64" and (rng is None or rng.random() < 0.8):
        return kind                 # the plain header is the int64 one
    return "%s:%s" % (kind, kt)


def gen_tss(rng, idx, maxops, profile=None, kt=None):
    kt = kt or _pick_kt(rng)
    lines = ["case %d" % idx, _header("tss", kt, rng)]
    clk = _Clock(rng)
    profile = profile or rng.choice(["small", "small", "churn", "growth", "growth", "odd"])
    pool = list(range(rng.choice([3, 4, 6]))) if profile in ("small", "odd") else list(range(rng.choice([10, 20, 40])))
    recent = []
    nops = rng.randint(4, maxops)
    i = 0
    if rng.random() < 0.3:
        lines.append("dump %d" % clk.t)
    while i < nops:
        r = rng.random()
        if profile == "growth" and r < 0.25:
            # burst of distinct inserts across a capacity boundary (8, 16, 32), in one or two cycles
            n = rng.choice([7, 8, 9, 15, 16, 17, 31, 33])
            base = rng.choice([0, 0, 100, 200])
            split = rng.randint(0, n) if rng.random() < 0.4 else None
            for j in range(n):
                if split is not None and j == split:
                    lines.append("dump %d" % clk.t)
                    clk.tick()
                lines.append("add %d %d" % (clk.t, base + j))
            recent.append(base + n - 1)
            i += 3
            if rng.random() < 0.5:
                lines.append("slots")
        elif r < 0.47:
            k = _pick_key(rng, pool, recent)
            lines.append("add %d %d" % (clk.t, k)); recent.append(k)
        elif r < 0.80:
            k = _pick_key(rng, pool, recent)
            lines.append("rem %d %d" % (clk.t, k)); recent.append(k)
        elif r < 0.86:
            lines.append("clear %d" % clk.t)
        elif r < 0.875:
            lines.append("touch %d" % clk.t)
        elif r < 0.885:
            lines.append("has %d %d" % (clk.t, _pick_key(rng, pool, recent)))
        elif r < 0.89:
            # explicit growth of the slot table (possibly while removals of this cycle are pending erase)
            lines.append("reserve %d %d" % (clk.t, rng.choice([0, 3, 8, 9, 16, 17, 24, 33, 64, 65, 70])))
        elif r < 0.90 and profile == "odd":
            lines.append(rng.choice(["add 0 %d" % rng.choice(pool), "reserve 0 20"]))          # MIN_DT is refused
        elif r < 0.92 and profile == "odd" and clk.t > 2:
            # an older time joins the current delta window (correspondence only)
            lines.append("%s %d %d" % (rng.choice(["add", "rem"]), clk.t - rng.randint(1, 2), rng.choice(pool)))
        else:
            lines.append("slots")
        i += 1
        if rng.random() < 0.25:
            lines.append("dump %d" % clk.t)
        if rng.random() < 0.30:
            lines.append("dump %d" % clk.t)          # end-of-cycle observation
            clk.tick()
            if rng.random() < 0.3:
                lines.append("dump %d" % clk.t)      # before anything happened in the new cycle: no delta
    lines.append("dump %d" % clk.t)
    lines.append("slots")
    return Case(lines, {"profile": profile, "key": kt})


def gen_tsd(rng, idx, maxops, mode="plain", kt=None):
    """mode 'plain': set / erase / clear / touch histories; 'rewrite' adds dense write + erase + re-insert of one key
    within a cycle (regression for the repaired finding F-C05-1); 'late' creates keys without a value (`at`), the
    pattern of the known finding F-C05-2 about the key_set() projection."""
    kt = kt or _pick_kt(rng)
    lines = ["case %d" % idx, _header("tsd", kt, rng)]
    clk = _Clock(rng)
    profile = rng.choice(["small", "small", "churn", "growth"])
    pool = list(range(rng.choice([3, 4, 6]))) if profile == "small" else list(range(rng.choice([10, 20, 40])))
    recent = []
    written, erased_after_write = set(), set()   # per cycle
    nops = rng.randint(4, maxops)
    i = 0

    def new_cycle():
        written.clear(); erased_after_write.clear()
        clk.tick()

    def emit_set(k):
        lines.append("set %d %d %d" % (clk.t, k, rng.randint(-3, 9)))
        written.add(k); recent.append(k)
        return True

    def emit_erase(k):
        lines.append("erase %d %d" % (clk.t, k))
        if k in written:
            erased_after_write.add(k)
        recent.append(k)

    while i < nops:
        r = rng.random()
        if mode == "rewrite" and r < 0.3:
            k = _pick_key(rng, pool, recent)
            if rng.random() < 0.5:
                lines.append("set %d %d %d" % (clk.t, k, rng.randint(0, 9)))
                if rng.random() < 0.5:
                    lines.append("dump %d" % clk.t); new_cycle()
            lines.append("set %d %d %d" % (clk.t, k, rng.randint(10, 19)))
            lines.append("erase %d %d" % (clk.t, k))
            if rng.random() < 0.7:
                lines.append("set %d %d %d" % (clk.t, k, rng.randint(20, 29)))
            else:
                lines.append("at %d %d" % (clk.t, k))
            recent.append(k)
        elif mode == "late" and r < 0.3:
            k = _pick_key(rng, pool, recent)
            lines.append("at %d %d" % (clk.t, k))
            if rng.random() < 0.7:
                lines.append("dump %d" % clk.t); new_cycle()
                lines.append("set %d %d %d" % (clk.t, k, rng.randint(0, 9)))
            recent.append(k)
        elif profile == "growth" and r < 0.2:
            n = rng.choice([7, 8, 9, 15, 16, 17, 31, 33])
            base = rng.choice([0, 0, 100, 200])
            for j in range(n):
                emit_set(base + j)
            i += 3
            if rng.random() < 0.5:
                lines.append("slots")
        elif r < 0.52:
            emit_set(_pick_key(rng, pool, recent))
        elif r < 0.84:
            emit_erase(_pick_key(rng, pool, recent))
        elif r < 0.89:
            lines.append("clear %d" % clk.t)
            erased_after_write.update(written)
        elif r < 0.91:
            lines.append("touch %d" % clk.t)
        elif r < 0.92:
            lines.append("has %d %d" % (clk.t, _pick_key(rng, pool, recent)))
        elif r < 0.93:
            lines.append("reserve %d %d" % (clk.t, rng.choice([0, 3, 8, 9, 16, 17, 24, 33, 64, 65, 70])))
        else:
            lines.append("slots")
        i += 1
        if rng.random() < 0.25:
            lines.append("dump %d" % clk.t)
        if rng.random() < 0.30:
            lines.append("dump %d" % clk.t)
            new_cycle()
            if rng.random() < 0.3:
                lines.append("dump %d" % clk.t)
    lines.append("dump %d" % clk.t)
    lines.append("slots")
    return Case(lines, {"mode": mode, "profile": profile, "key": kt})


BOUNDARY_SCENARIOS = ["remove-insert", "remove-insert", "remove-several-insert-several", "reserve-while-pending",
                      "clear-refill", "many-growths", "resurrect-then-grow", "growth-only", "separate-cycles",
                      "reserved-capacity"]


def gen_boundary(rng, idx, kind, kt, scenario=None, cap=None):
    """histories that bring the slot table to EXACTLY its capacity (constructed keys = 8 / 16 / 32, or a capacity chosen
    by `reserve`, including the 64-bit word boundaries of the bitmap planes) and then remove and insert inside ONE cycle,
    so that the table has to grow while removals are still pending erase; growth without removals and removal / growth
    in separate cycles are the controls.  `kind` is tss or tsd, `kt` the key type."""
    scenario = scenario or rng.choice(BOUNDARY_SCENARIOS)
    lines = ["case %d" % idx, _header(kind, kt, rng)]
    t = [rng.randint(1, 3)]
    nxt = [1000]                                  # fresh keys
    val = [0]

    def tick():
        lines.append("dump %d" % t[0])
        t[0] += rng.choice([1, 1, 2])

    def ins(k):
        if kind == "tss":
            lines.append("add %d %d" % (t[0], k))
        else:
            val[0] += 1
            if rng.random() < 0.08:
                lines.append("at %d %d" % (t[0], k))
            lines.append("set %d %d %d" % (t[0], k, val[0]))

    def rem(k):
        lines.append("%s %d %d" % ("rem" if kind == "tss" else "erase", t[0], k))

    def fresh():
        nxt[0] += 1
        return nxt[0]

    def probe(keys):
        for k in keys:
            lines.append("has %d %d" % (t[0], k))

    # --- fill to the capacity boundary
    if scenario == "reserved-capacity":
        cap = cap or rng.choice([1, 3, 5, 12, 20, 63, 64, 65])
        lines.append("reserve %d %d" % (t[0], cap))
    else:
        cap = cap or rng.choice([8, 8, 8, 16, 16, 32])
    base = rng.choice([0, 1, -5, 100])
    keys = [base + j for j in range(cap)]
    cut = rng.randint(1, cap) if rng.random() < 0.4 else None          # fill in one or two cycles
    for j, k in enumerate(keys):
        if cut is not None and j == cut:
            tick()
        ins(k)
    if rng.random() < 0.6:
        lines.append("slots")
    tick()
    live = list(keys)
    # --- the cycle at the boundary
    removed, added = [], []
    if scenario in ("remove-insert", "reserved-capacity"):
        removed = [rng.choice(live)]
        rem(removed[0]); live.remove(removed[0])
        if rng.random() < 0.3:
            lines.append("dump %d" % t[0])
        k = fresh(); ins(k); added.append(k)
    elif scenario == "remove-several-insert-several":
        for k in rng.sample(live, min(len(live), rng.randint(2, 4))):
            rem(k); live.remove(k); removed.append(k)
        for _ in range(rng.randint(2, 5)):
            k = fresh(); ins(k); added.append(k)
            if rng.random() < 0.3 and removed:          # interleave: re-insert a removed key (resurrects its slot)
                k2 = removed.pop(rng.randrange(len(removed))); ins(k2); live.append(k2)
    elif scenario == "reserve-while-pending":
        for k in rng.sample(live, min(len(live), rng.randint(1, 3))):
            rem(k); live.remove(k); removed.append(k)
        lines.append("reserve %d %d" % (t[0], rng.choice([cap + 1, 2 * cap, 2 * cap + 1, 64, 65, 130])))
        if rng.random() < 0.5:
            k = fresh(); ins(k); added.append(k)
    elif scenario == "clear-refill":
        lines.append("clear %d" % t[0]); removed = list(live); live = []
        for _ in range(rng.choice([1, 2, cap, cap + 1])):
            k = fresh(); ins(k); added.append(k)
    elif scenario == "many-growths":
        for k in rng.sample(live, 2 if len(live) >= 2 else 1):
            rem(k); live.remove(k); removed.append(k)
        for _ in range(rng.choice([cap + 1, 2 * cap + 1, 3 * cap + 2])):
            k = fresh(); ins(k); added.append(k)
    elif scenario == "resurrect-then-grow":
        k0 = rng.choice(live)
        rem(k0); ins(k0)                                  # cancels: no pending slot when the table grows
        k = fresh(); ins(k); added.append(k)
    elif scenario == "growth-only":
        for _ in range(rng.randint(1, cap + 2)):
            k = fresh(); ins(k); added.append(k)
    elif scenario == "separate-cycles":
        removed = [rng.choice(live)]
        rem(removed[0]); live.remove(removed[0])
        probe(removed)
        tick()
        removed_earlier, removed = removed, []
        for _ in range(rng.randint(1, 3)):                # the first one reuses the erased slot, the next ones grow
            k = fresh(); ins(k); added.append(k)
        if rng.random() < 0.5:
            probe(removed_earlier)
    live += added
    probe(removed + added[:2])
    lines.append("slots")
    tick()
    # --- afterwards: a ghost member would stay; re-adding a removed key must be reported as added
    for _ in range(rng.randint(1, 4)):
        r = rng.random()
        if removed and r < 0.4:
            k = removed.pop(rng.randrange(len(removed))); ins(k); live.append(k)
        elif live and r < 0.7:
            k = live.pop(rng.randrange(len(live))); rem(k); removed.append(k)
        else:
            k = fresh(); ins(k); live.append(k)
        if rng.random() < 0.6:
            probe(removed[:2])
            tick()
    lines.append("dump %d" % t[0])
    lines.append("slots")
    return Case(lines, {"profile": "boundary", "scenario": scenario, "key": kt, "cap": cap})


def boundary_matrix(kind, start):
    """the core pattern for every key type x capacity 8 / 16 / 32 x position of the removed key: fill, then in one cycle
    remove one key and insert a new one"""
    out = []
    j = start
    for kt in KEY_TYPES:
        for cap in (8, 16, 32):
            for pos in (0, cap // 2, cap - 1):
                lines = ["case %d" % j, _header(kind, kt)]
                for k in range(cap):
                    lines.append("add 1 %d" % k if kind == "tss" else "set 1 %d %d" % (k, 10 + k))
                lines += ["dump 1", "slots"]
                lines.append(("rem 2 %d" if kind == "tss" else "erase 2 %d") % pos)
                lines.append("add 2 500" if kind == "tss" else "set 2 500 7")
                lines += ["dump 2", "slots", "has 2 %d" % pos, "has 2 500"]
                lines.append(("add 3 %d" if kind == "tss" else "set 3 %d 9") % pos)
                lines += ["dump 3", ("rem 4 0" if kind == "tss" else "erase 4 0") if pos != 0 else ("rem 4 1" if kind == "tss" else "erase 4 1"),
                          "dump 4", "slots"]
                out.append(Case(lines, {"profile": "boundary", "scenario": "matrix", "key": kt, "cap": cap}))
                j += 1
        # the planes are copied in whole 64-bit words: a table of 65 slots (two words, one bit used in the second) grows
        # to 130 while a removal is pending erase; a live key sits in the second word
        lines = ["case %d" % j, _header(kind, kt), "reserve 1 65"]
        for k in range(65):
            lines.append("add 1 %d" % k if kind == "tss" else "set 1 %d %d" % (k, 10 + k))
        lines += ["dump 1", "slots", ("rem 2 3" if kind == "tss" else "erase 2 3"), ("add 2 500" if kind == "tss" else "set 2 500 7"),
                  "dump 2", "slots", "has 2 3", "has 2 64", "has 2 500", ("add 3 3" if kind == "tss" else "set 3 3 9"),
                  ("rem 3 64" if kind == "tss" else "erase 3 64"), "dump 3", "slots"]
        out.append(Case(lines, {"profile": "boundary", "scenario": "matrix-word-boundary", "key": kt, "cap": 65}))
        j += 1
    return out


def gen_tsw(rng, idx, maxops):
    period = rng.choice([1, 2, 3, 3, 4, 5, 8])
    minp = rng.choice([0, 1, period, max(1, period - 1), period + 1, rng.randint(0, period)])
    lines = ["case %d" % idx, "tsw %d %d" % (period, minp)]
    clk = _Clock(rng)
    if rng.random() < 0.3:
        lines.append("dump %d" % clk.t)
    for _ in range(rng.randint(3, maxops)):
        r = rng.random()
        if r < 0.78:
            lines.append("push %d %d" % (clk.t, rng.randint(-5, 20)))
        elif r < 0.84:
            lines.append("wclear %d" % clk.t)
        elif r < 0.90:
            lines.append("wclearpush %d %d" % (clk.t, rng.randint(-5, 20)))
        elif r < 0.92:
            lines.append("push 0 1")
        else:
            lines.append("dump %d" % (clk.t + 1))      # a later time at which nothing happened
        lines.append("dump %d" % clk.t)
        if rng.random() < 0.85:
            clk.tick()                                  # otherwise: a second tick in the same cycle is refused
    lines.append("dump %d" % clk.t)
    return Case(lines, {"period": period, "min": minp})


def gen_tsl(rng, idx, maxops):
    n = rng.choice([1, 2, 3, 4, 8])
    lines = ["case %d" % idx, "tsl %d" % n]
    clk = _Clock(rng)
    if rng.random() < 0.3:
        lines.append("dump %d" % clk.t)
    for _ in range(rng.randint(3, maxops)):
        r = rng.random()
        if r < 0.86:
            lines.append("lset %d %d %d" % (clk.t, rng.randrange(n), rng.randint(-5, 20)))
        elif r < 0.90:
            lines.append("lset %d %d 1" % (clk.t, n + rng.randint(0, 2)))     # index out of range
        elif r < 0.93:
            lines.append("lset 0 %d 1" % rng.randrange(n))                     # MIN_DT
        else:
            lines.append("dump %d" % (clk.t + 1))
        if rng.random() < 0.3:
            lines.append("dump %d" % clk.t)
        if rng.random() < 0.35:
            lines.append("dump %d" % clk.t)
            clk.tick()
    lines.append("dump %d" % clk.t)
    return Case(lines, {"size": n})


def exhaustive_tss(n_ops, start):
    """every sequence of `n_ops` symbols over {add k, rem k | k<3} + {tick}: all cancel patterns"""
    syms = [("add", k) for k in range(3)] + [("rem", k) for k in range(3)] + [("tick", 0)]
    out = []
    for j, seq in enumerate(itertools.product(syms, repeat=n_ops)):
        t = 1
        lines = ["case %d" % (start + j), "tss"]
        for op, k in seq:
            if op == "tick":
                lines.append("dump %d" % t); t += 1
            else:
                lines.append("%s %d %d" % (op, t, k))
        lines.append("dump %d" % t)
        out.append(Case(lines, {"profile": "exhaustive"}))
    return out


def exhaustive_tsd(n_ops, start):
    syms = [("set", k) for k in range(2)] + [("erase", k) for k in range(2)] + [("tick", 0)]
    out = []
    for j, seq in enumerate(itertools.product(syms, repeat=n_ops)):
        t, v = 1, 0
        written, bad = set(), set()
        ok = True
        lines = ["case %d" % (start + j), "tsd"]
        for op, k in seq:
            if op == "tick":
                lines.append("dump %d" % t); t += 1; written, bad = set(), set()
            elif op == "set":
                v += 1; lines.append("set %d %d %d" % (t, k, v)); written.add(k)
            else:
                lines.append("erase %d %d" % (t, k))
                if k in written:
                    bad.add(k)
        lines.append("dump %d" % t)
        out.append(Case(lines, {"mode": "plain", "profile": "exhaustive"}))
    return out


# ---------------------------------------------------------------------------------------------
# duration (time-span) windows: TimeTSWindowStorage, a cyclic buffer that is regrown (4, 8, 16, ...)


class _TwEmit:
    """op lines of one duration-window case; every push is followed by a dump at the same time"""

    def __init__(self, rng, idx, span, minspan, t0=None):
        self.rng = rng
        self.lines = ["case %d" % idx, "twin %d %d" % (span, minspan)]
        self.span = span
        self.t = rng.randint(1, 5) if t0 is None else t0
        self.n = 0
        self.first = True

    def val(self):
        self.n += 1
        return self.n if self.rng.random() < 0.8 else self.rng.randint(-9, 99)

    def push_at(self, t):
        self.t = t
        self.first = False
        self.lines.append("push %d %d" % (t, self.val()))
        self.lines.append("dump %d" % t)
        r = self.rng.random()
        if r < 0.06:
            self.lines.append("cap")
        elif r < 0.10:
            self.lines.append("dump %d" % (t + 1))     # a later time at which nothing happened

    def push(self, step):
        if self.first:
            self.first = False
            self.push_at(self.t)
        else:
            self.push_at(self.t + max(1, step))

    def done(self, meta):
        self.lines.append("cap")
        self.lines.append("dump %d" % self.t)
        return Case(self.lines, meta)


def _tw_minspan(rng, span):
    return rng.choice([0, 0, 0, 0, 1, max(1, span // 4), max(1, span // 2), span, span + 3])


def gen_tw_growth(rng, idx):
    """the buffer has to grow while it is wrapped: a sparse group A (k values) and a later group B fill the buffer to
    its capacity c; A expires (head moves to k); k more values refill it to c; then more values arrive within the span"""
    c = rng.choice([4, 4, 8, 8, 16, 32])
    k = rng.randint(1, c - 1)
    span = rng.choice([4 * c, 6 * c, 10 * c, 100 * c])
    e = _TwEmit(rng, idx, span, _tw_minspan(rng, span))
    t0 = e.t
    for i in range(k):                       # A: t0 .. t0+k-1
        e.push_at(t0 + i)
    g = rng.randint(k + 1, max(k + 1, span - 2 * c))
    tb = t0 + k - 1 + g
    for i in range(c - k):                   # B: tb .. (all of A still inside the span at the end of B, or nearly)
        e.push_at(tb + i)
    tc = max(t0 + k + span, tb + c - k)      # first time at which all of A has left the span
    if rng.random() < 0.25:
        tc = max(tb + c - k, tc - rng.randint(1, k))   # ... or only a part of A
    for i in range(k):                       # C: refill
        e.push_at(tc + i)
    for i in range(rng.randint(1, c + 2)):   # D: growth (wrapped when head != 0)
        e.push(1)
    for _ in range(rng.randint(0, 6)):       # E: thin out again, look at the order of what leaves
        e.push(rng.choice([1, span // 3, span // 2, span - 1, span, span + 1]))
    if rng.random() < 0.4:                   # a second round on the grown buffer
        for _ in range(rng.randint(2, 2 * c)):
            e.push(rng.choice([1, 1, 2, span // 4]))
    return e.done({"profile": "growth"})


def gen_tw_rates(rng, idx, maxpush, profile):
    """piecewise constant tick rates (rising and falling), bursts separated by gaps, random steps"""
    span = rng.choice([6, 10, 20, 50, 100, 100, 1000])
    e = _TwEmit(rng, idx, span, _tw_minspan(rng, span))
    budget = rng.randint(8, maxpush)
    steps_of = [1, 1, 2, 3, 5, max(1, span // 10), max(1, span // 5), max(1, span // 4), max(1, span // 2), span, span + 1]
    while budget > 0:
        if profile == "rates":
            step, cnt = rng.choice(steps_of), rng.randint(2, 18)
            for _ in range(min(cnt, budget)):
                e.push(step)
            budget -= cnt
        elif profile == "bursts":
            cnt = rng.randint(2, 20)
            for _ in range(min(cnt, budget)):
                e.push(rng.choice([1, 1, 1, 2]))
            budget -= cnt
            e.t += rng.choice([span - 2, span, span + 1, 2 * span, 3 * span + 7])      # the window (nearly) empties
        else:
            r = rng.random()
            e.push(rng.randint(1, 3) if r < 0.6 else rng.randint(max(1, span // 8), max(2, span // 2)) if r < 0.9
                   else span + rng.randint(-1, 5))
            budget -= 1
    return e.done({"profile": profile})


def gen_tw_odd(rng, idx, maxpush):
    """refused ticks (MIN_DT, second tick of a cycle), clear, clear+push, span 0/1, time decrease (correspondence only)"""
    span = rng.choice([0, 1, 2, 5, 10, 30])
    e = _TwEmit(rng, idx, span, rng.choice([0, 0, 1, 3, span]))
    if rng.random() < 0.3:
        e.lines.append("dump %d" % e.t)
    for _ in range(rng.randint(4, maxpush)):
        r = rng.random()
        if r < 0.70:
            e.push(rng.choice([1, 1, 1, 2, 3, max(1, span), span + 1, span + 2]))
        elif r < 0.76:
            e.lines.append("push %d %d" % (e.t, e.val()))           # second tick in the cycle is refused
            e.lines.append("dump %d" % e.t)
        elif r < 0.80:
            e.lines.append("push 0 1")
        elif r < 0.87:
            e.t += rng.randint(1, 3); e.first = False
            e.lines.append("wclear %d" % e.t); e.lines.append("dump %d" % e.t)
        elif r < 0.95:
            e.t += rng.randint(1, 3); e.first = False
            e.lines.append("wclearpush %d %d" % (e.t, e.val())); e.lines.append("dump %d" % e.t)
        elif e.t > 3:
            e.lines.append("push %d %d" % (e.t - rng.randint(1, 3), e.val()))     # older time
            e.lines.append("dump %d" % e.t)
    return e.done({"profile": "odd"})


def exhaustive_tw(steps, n_push, span, start):
    """every sequence of `n_push` pushes whose time steps come from `steps` (small scope: first buffer of 4 slots)"""
    out = []
    for j, seq in enumerate(itertools.product(steps, repeat=n_push - 1)):
        t = 1
        lines = ["case %d" % (start + j), "twin %d 0" % span, "push 1 1", "dump 1"]
        for i, d in enumerate(seq):
            t += d
            lines.append("push %d %d" % (t, i + 2)); lines.append("dump %d" % t)
        out.append(Case(lines, {"profile": "exhaustive"}))
    return out


def _corpus():
    cdir = os.path.join(VERIF, "corpus", "C05")
    out = {}
    if os.path.isdir(cdir):
        for f in sorted(os.listdir(cdir)):
            lines = [l.rstrip("\n") for l in open(os.path.join(cdir, f)) if l.strip()]
            kind = f.split("_")[0]
            out.setdefault(kind, []).append(Case(lines, {"corpus": f}))
    return out


def streams(rng, tier, seed):
    quick = tier == "quick"
    n = 220 if quick else 8000
    mo = 40 if quick else 90
    impl = [os.path.join(BUILD, "hgv_slots")]
    model = model_cmd("C05")
    corpus = _corpus()
    tss = [gen_tss(rng, i, mo) for i in range(n)]
    tsw = [gen_tsw(rng, i, 30 if quick else 60) for i in range(n // 2)]
    tsl = [gen_tsl(rng, i, 25 if quick else 50) for i in range(n // 3)]
    tsd = [gen_tsd(rng, i, mo, "plain") for i in range(n)]
    tsd += [gen_tsd(rng, n + i, 14 if quick else 30, "rewrite") for i in range(40 if quick else 600)]
    late = [gen_tsd(rng, i, 14 if quick else 30, "late") for i in range(30 if quick else 400)]
    if quick:
        tss += exhaustive_tss(3, len(tss))
        tsd += exhaustive_tsd(3, len(tsd))
    else:
        tss += exhaustive_tss(5, len(tss))
        tsd += exhaustive_tsd(6, len(tsd))
    # duration windows (hgv_twindow / Drivers/C05W.lean)
    impl_tw = [os.path.join(BUILD, "hgv_twindow")]
    model_tw = model_cmd("C05W")
    mp = 40 if quick else 160
    tw = [gen_tw_growth(rng, i) for i in range(60 if quick else 2500)]
    k = len(tw)
    for prof, cnt in (("rates", 50), ("bursts", 25), ("random", 25)):
        c = cnt if quick else cnt * 40
        tw += [gen_tw_rates(rng, k + i, mp, prof) for i in range(c)]
        k += c
    tw += [gen_tw_rates(rng, k + i, 150 if quick else 500, "rates") for i in range(4 if quick else 100)]     # long runs
    k = len(tw)
    tw += [gen_tw_odd(rng, k + i, 25 if quick else 60) for i in range(30 if quick else 1200)]
    if quick:
        twx = exhaustive_tw([1, 3], 9, 6, 0)                       # 256 cases; wrapped growth needs >= 7 pushes
    else:
        twx = exhaustive_tw([1, 2, 3, 4], 8, 6, 0) + exhaustive_tw([1, 3, 7], 10, 6, 20000)
    # capacity boundaries of the slot table, both representations (tagged-pointer: i64; bitmap planes: i32 / date / f32)
    nb = 24 if quick else 900
    tssb, tsdb = boundary_matrix("tss", 0), boundary_matrix("tsd", 0)
    for kt in KEY_TYPES:
        tssb += [gen_boundary(rng, len(tssb) + i, "tss", kt) for i in range(nb)]
        tsdb += [gen_boundary(rng, len(tsdb) + i, "tsd", kt) for i in range(nb)]
    return [
        Stream("tss-boundary", impl, model, corpus.get("tssboundary", []) + tssb),
        Stream("tsd-boundary", impl, model, corpus.get("tsdboundary", []) + tsdb),
        Stream("twindow", impl_tw, model_tw, corpus.get("twindow", []) + tw),
        Stream("twindow-exhaustive", impl_tw, model_tw, twx),
        Stream("tss", impl, model, corpus.get("tss", []) + tss),
        Stream("tsw", impl, model, corpus.get("tsw", []) + tsw),
        Stream("tsl", impl, model, corpus.get("tsl", []) + tsl),
        Stream("tsd", impl, model, corpus.get("tsd", []) + tsd),
        # keys created without a value (`at`): the known finding F-C05-2 about the key_set() projection
        Stream("tsd-defects", impl, model, corpus.get("tsddefects", []) + late),
    ]


# ---------------------------------------------------------------------------------------------
# monitor: the coherence relations, decided on the implementation's dumps


def _parse_list(s):
    s = s.strip()
    if not (s.startswith("[") and s.endswith("]")):
        raise ValueError("not a list: %r" % s)
    body = s[1:-1]
    return [x for x in body.split(",") if x != ""]


def _ints(s):
    return [int(x) for x in _parse_list(s)]


def _items(s):
    out = {}
    for x in _parse_list(s):
        k, v = x.split(":")
        out[int(k)] = None if v == "-" else int(v)
    return out


def _fields(line):
    d = {}
    for tok in line.split():
        if "=" not in tok:
            raise ValueError("bad dump token %r" % tok)
        k, v = tok.split("=", 1)
        d[k] = v
    return d


def _delta_tss(s):
    if s == "none":
        return None
    assert s.startswith("a[")
    i = s.index("]r[")
    return set(_ints(s[1:i + 1])), set(_ints(s[i + 2:]))


def _delta_tsd(s):
    if s == "none":
        return None
    assert s.startswith("r[")
    i = s.index("]m[")
    return set(_ints(s[1:i + 1])), _items(s[i + 2:])


class _Res:
    def __init__(self):
        self.bad = []          # ordinary violations
        self.finding = []      # violations of the two classes recorded as defects of the real code
        self.feats = set()
        self.nontrivial = False


def _coherence(res, t, prev, cur, added, removed, what):
    """the relations of the property between the value at the previous tick and this tick's value + delta"""
    if added & removed:
        res.bad.append("%s t=%d: added and removed overlap: %s" % (what, t, sorted(added & removed)))
    if not added <= cur:
        res.bad.append("%s t=%d: added element not present afterwards: %s" % (what, t, sorted(added - cur)))
    if removed & cur:
        res.bad.append("%s t=%d: removed element still present: %s" % (what, t, sorted(removed & cur)))
    if not removed <= prev:
        res.bad.append("%s t=%d: removed element was not present before: %s" % (what, t, sorted(removed - prev)))
    if cur != (prev - removed) | added:
        res.bad.append("%s t=%d: value %s != previous value %s with delta (+%s -%s) applied"
                       % (what, t, sorted(cur), sorted(prev), sorted(added), sorted(removed)))
    if added & prev:
        res.bad.append("%s t=%d: element reported added was already present (cancelled mutation left a trace): %s"
                       % (what, t, sorted(added & prev)))


class _SlotShadow:
    """what the key slot store does with its capacity (free list empty -> grow to max(size+1, max(8, 2*capacity));
    a slot removed in this cycle stays constructed until the next cycle's first mutation), for the input-distribution
    histogram ONLY: the verdicts of the monitor never look at it"""

    def __init__(self, res, kt):
        self.res, self.kt = res, kt
        self.cap = 0
        self.pending = set()        # keys removed in this cycle whose slot is still constructed

    def new_cycle(self):
        self.pending = set()

    def _feat(self, what):
        rep = "tagged-pointer" if self.kt == "i64" else "BITMAP"
        self.res.feats.add("%s[%s]" % (what, rep))
        self.res.feats.add("%s[key=%s]" % (what, self.kt))

    def insert(self, k, live_before):
        """k was absent; live_before = number of live keys before the insert"""
        if k in self.pending:
            self.pending.discard(k)             # its slot is resurrected
            return
        if live_before + len(self.pending) >= self.cap:
            new = max(live_before + 1, max(8, 2 * self.cap))
            if self.cap:
                self.res.nontrivial = True
                if self.pending:
                    self._feat("GROW-%d->%d-WITH-PENDING-ERASE" % (self.cap, new) if self.cap in (8, 16, 32) else "GROW-WITH-PENDING-ERASE(other-capacity)")
                    self._feat("GROW-WITH-PENDING-ERASE")
                    if len(self.pending) > 1:
                        self._feat("GROW-WITH-SEVERAL-PENDING-ERASE")
                else:
                    self._feat("grow-%d->%d-no-pending" % (self.cap, new) if self.cap in (8, 16, 32) else "grow-no-pending(other-capacity)")
            self.cap = new

    def remove(self, k):
        self.pending.add(k)

    def reserve(self, cap):
        if cap > self.cap:
            if self.pending:
                self._feat("RESERVE-WITH-PENDING-ERASE"); self.res.nontrivial = True
            else:
                self._feat("reserve-no-pending")
            if self.cap // 64 != cap // 64 or (self.cap <= 64 < cap):
                self._feat("growth-crosses-a-64-bit-word-of-the-planes")
            self.cap = cap

    def check(self, o):
        if o.startswith("cap=") and int(o.split()[0][4:]) != self.cap:
            self.res.feats.add("shadow-capacity-differs(histogram-only)")


def _key_type(case):
    w = case.lines[1].split()[0] if len(case.lines) > 1 else ""
    return w.split(":")[1] if ":" in w else "i64"


def _mon_tss(case, out):
    res = _Res()
    kt = _key_type(case)
    res.feats.add("key=" + kt)
    shadow = _SlotShadow(res, kt)
    S, prev = set(), set()
    cur_t = 0
    touched = {}            # key -> list of ops in this cycle
    ever_removed_before_cycle = False
    removed_in_earlier_cycle = False
    removed_this_cycle = False
    # purely relational check between consecutive end-of-cycle dumps (no reference to the membership history):
    chain = {"last": set(), "fold": set(), "fold_ok": True}      # value at the previous observed tick; fold of all deltas
    tick = {"obs": None}    # latest dump of the current cycle taken after its last mutation: (t, v, a, r)

    def close_cycle():
        if tick["obs"] is not None:
            pt, pv, pa, pr = tick["obs"]
            if chain["last"] is not None:
                _coherence(res, pt, chain["last"], pv, pa, pr, "tss(tick-to-tick)")
            chain["last"] = pv
            if chain["fold_ok"]:
                chain["fold"] = (chain["fold"] - pr) | pa
                if chain["fold"] != pv:
                    res.bad.append("tss t=%d: value %s != fold of all deltas from empty %s" % (pt, sorted(pv), sorted(chain["fold"])))
                else:
                    res.feats.add("fold-of-deltas-checked")
            tick["obs"] = None
        elif cur_t != 0:
            chain["last"] = None; chain["fold_ok"] = False     # this cycle was not observed at its end

    for ln, o in zip(case.lines, out + ["<none>"] * len(case.lines)):
        w = ln.split()
        op = w[0]
        if op == "case" or op.split(":")[0] == "tss":
            continue
        if op == "slots":
            if o.startswith("cap="):
                cap = int(o.split()[0][4:])
                shadow.check(o)
                if cap >= 16:
                    res.feats.add("capacity>=%d" % (32 if cap >= 32 else 16)); res.nontrivial = True
            continue
        if op == "has":
            k = int(w[2])
            res.feats.add("contains-probe-" + ("present" if k in S else "removed-this-cycle" if k in prev else "absent"))
            if o != ("1" if k in S else "0"):
                res.bad.append("tss-contains: contains(%d) answered %s at t=%s but the membership history says %d (value %s)"
                               % (k, o, w[1], k in S, sorted(S)))
            continue
        if op == "reserve":
            if int(w[1]) == 0:
                res.feats.add("min-dt-refused")
                if o != "err:invalid-arg":
                    res.bad.append("mutation at MIN_DT returned %r" % o)
            else:
                if o != "ok":
                    res.bad.append("%s returned %r" % (ln, o))
                shadow.reserve(int(w[2]))
            continue
        if op in ("add", "rem", "clear", "touch"):
            t = int(w[1])
            if t == 0:
                res.feats.add("min-dt-refused")
                if o != "err:invalid-arg":
                    res.bad.append("mutation at MIN_DT returned %r" % o)
                continue
            if t < cur_t:
                res.feats.add("time-decrease(out-of-hypothesis)")
                return res      # hypothesis of the property not met from here on
            if t > cur_t:
                close_cycle()
                prev = set(S); cur_t = t
                shadow.new_cycle()
                res.feats.add("cycle-boundary")
                touched = {}
                removed_in_earlier_cycle = removed_in_earlier_cycle or removed_this_cycle
                removed_this_cycle = False
            tick["obs"] = None
            if op == "add":
                k = int(w[2]); ch = k not in S
                if ch and removed_in_earlier_cycle:
                    res.feats.add("insert-after-physical-erase(slot-reuse)"); res.nontrivial = True
                if ch:
                    shadow.insert(k, len(S))
                S.add(k)
                if o != ("1" if ch else "0"):
                    res.bad.append("add %d at t=%d returned %s, membership says %d" % (k, t, o, ch))
                touched.setdefault(k, []).append("a" if ch else "a0")
            elif op == "rem":
                k = int(w[2]); ch = k in S
                S.discard(k)
                if ch:
                    removed_this_cycle = True
                    shadow.remove(k)
                if o != ("1" if ch else "0"):
                    res.bad.append("remove %d at t=%d returned %s, membership says %d" % (k, t, o, ch))
                touched.setdefault(k, []).append("r" if ch else "r0")
            elif op == "clear":
                res.feats.add("clear" if S else "clear-empty")
                for k in S:
                    touched.setdefault(k, []).append("r")
                    shadow.remove(k)
                if S:
                    removed_this_cycle = True
                S = set()
            else:
                res.feats.add("touch")
            if op in ("add", "rem"):
                h = "".join(x[0] for x in touched[k] if len(x) == 1)
                if len(touched[k]) >= 2:
                    res.feats.add("same-cycle-repeat"); res.nontrivial = True
                if "ar" in h:
                    res.feats.add("add-then-remove-in-cycle")
                if "ra" in h:
                    res.feats.add("remove-then-add-in-cycle")
            continue
        if op == "dump":
            t = int(w[1])
            try:
                f = _fields(o)
                vl = _ints(f["v"])
                v, a, r = set(vl), set(_ints(f["a"])), set(_ints(f["r"]))
                vv = set(_ints(f["vv"])); d = _delta_tss(f["d"])
                c = set(_ints(f["c"]))
                lmt, mod, valid, n = int(f["lmt"]), f["mod"] == "1", f["valid"] == "1", int(f["n"])
            except Exception as e:      # noqa
                if o.startswith("err:"):
                    res.bad.append("reading the output at t=%d threw (%s): value / delta not readable" % (t, o))
                else:
                    res.bad.append("unreadable dump %r (%s)" % (o, e))
                return res
            if t < cur_t:
                continue
            late = []       # reported after the coherence relations of the tick
            if n != len(vl) or len(vl) != len(v):
                late.append("tss-size: size() disagrees with the elements that can be iterated: t=%d size()=%d, iterated %s"
                            % (t, n, sorted(vl)))
            if c != v:
                late.append("tss-contains: contains() disagrees with the iterated value: t=%d value %s, of the keys named by value / "
                            "added / removed those passing contains() are %s" % (t, sorted(v), sorted(c)))
            if v != S or vv != S or n != len(S):
                late.append("tss t=%d: value %s (value() %s, size %d) but membership history says %s" % (t, sorted(v), sorted(vv), n, sorted(S)))
            if valid != (cur_t != 0):
                res.bad.append("tss t=%d: valid=%d" % (t, valid))
            if t == cur_t and cur_t != 0:
                if not mod or lmt != t:
                    res.bad.append("tss t=%d: mutated in this cycle but modified=%d lmt=%d" % (t, mod, lmt))
                _coherence(res, t, prev, v, a, r, "tss")
                if d is None or d[0] != a or d[1] != r:
                    res.bad.append("tss t=%d: delta_value %s differs from added()/removed() +%s -%s" % (t, f["d"], sorted(a), sorted(r)))
                tick["obs"] = (t, v, a, r)
                if a:
                    res.feats.add("delta-added")
                if r:
                    res.feats.add("delta-removed")
                if not a and not r and touched:
                    res.feats.add("delta-empty-after-mutations")
            else:
                res.feats.add("dump-unmodified-time")
                if mod or a or r or d is not None:
                    res.bad.append("tss t=%d: nothing happened at this time but modified=%d added=%s removed=%s delta=%s"
                                   % (t, mod, sorted(a), sorted(r), f["d"]))
            res.bad.extend(late)
            continue
        if o != "bad-op":
            res.bad.append("unknown op %r answered %r" % (ln, o))
    close_cycle()
    return res


def _mon_tsd(case, out):
    res = _Res()
    kt = _key_type(case)
    res.feats.add("key=" + kt)
    shadow = _SlotShadow(res, kt)
    D = {}                  # key -> value | None (created by `at`, no value yet)
    prev_pub, prev_live = {}, set()
    cur_t = 0
    last_removed_value = {}
    touched = {}
    removed_in_earlier_cycle = removed_this_cycle = False
    grave = {}              # keys erased in this cycle: the slot (and its child) stay constructed until the cycle ends,
                            # so creating the key again in the same cycle finds the child as it was left
    marked_t = 0            # time of the last operation that has to tick the dictionary
    for ln, o in zip(case.lines, out + ["<none>"] * len(case.lines)):
        w = ln.split()
        op = w[0]
        if op == "case" or op.split(":")[0] == "tsd":
            continue
        if op == "slots":
            if o.startswith("cap="):
                cap = int(o.split()[0][4:])
                shadow.check(o)
                if cap >= 16:
                    res.feats.add("capacity>=%d" % (32 if cap >= 32 else 16)); res.nontrivial = True
            continue
        if op == "has":
            k = int(w[2])
            res.feats.add("contains-probe-" + ("present" if k in D else "removed-this-cycle" if k in prev_live else "absent"))
            if o != ("1" if k in D else "0"):
                res.bad.append("tsd-contains: contains(%d) answered %s at t=%s but the membership history says %d (keys %s)"
                               % (k, o, w[1], k in D, sorted(D)))
            continue
        if op == "reserve":
            if int(w[1]) == 0:
                res.feats.add("min-dt-refused")
                if o != "err:invalid-arg":
                    res.bad.append("mutation at MIN_DT returned %r" % o)
            else:
                if o != "ok":
                    res.bad.append("%s returned %r" % (ln, o))
                shadow.reserve(int(w[2]))
            continue
        if op in ("set", "at", "erase", "clear", "touch"):
            t = int(w[1])
            if t == 0:
                res.feats.add("min-dt-refused")
                if o != "err:invalid-arg":
                    res.bad.append("mutation at MIN_DT returned %r" % o)
                continue
            if t < cur_t:
                res.feats.add("time-decrease(out-of-hypothesis)")
                return res
            if t > cur_t:
                prev_pub = {k: v for k, v in D.items() if v is not None}
                prev_live = set(D)
                cur_t = t
                last_removed_value = {}
                touched = {}
                grave = {}
                shadow.new_cycle()
                res.feats.add("cycle-boundary")
                removed_in_earlier_cycle = removed_in_earlier_cycle or removed_this_cycle
                removed_this_cycle = False
            if not (op == "at" and int(w[2]) in D):
                marked_t = t        # `at` of a key that is already there is a plain lookup
            if op in ("set", "at"):
                k = int(w[2])
                if k not in D and removed_in_earlier_cycle:
                    res.feats.add("insert-after-physical-erase(slot-reuse)"); res.nontrivial = True
                if k not in D:
                    shadow.insert(k, len(D))
                if op == "set":
                    h = touched.get(k, [])
                    if "w" in h and "e" in h[h.index("w"):]:
                        res.feats.add("rewrite-after-erase-in-cycle")
                    D[k] = int(w[3]); touched.setdefault(k, []).append("w")
                else:
                    h = touched.get(k, [])
                    if k not in D and "w" in h:
                        res.feats.add("rewrite-after-erase-in-cycle")
                    if k not in D:
                        D[k] = grave.pop(k, None)
                        if D[k] is None:
                            res.feats.add("key-created-without-value")
                        else:
                            res.feats.add("erased-key-recreated-with-its-old-value")
                    touched.setdefault(k, []).append("c")
                if o != "ok":
                    res.bad.append("%s returned %r" % (ln, o))
            elif op == "erase":
                k = int(w[2]); ch = k in D
                if ch:
                    if D[k] is not None:
                        last_removed_value[k] = D[k]
                    grave[k] = D[k]
                    del D[k]; removed_this_cycle = True
                    shadow.remove(k)
                if o != ("1" if ch else "0"):
                    res.bad.append("erase %d at t=%d returned %s, membership says %d" % (k, t, o, ch))
                touched.setdefault(k, []).append("e" if ch else "e0")
            elif op == "clear":
                res.feats.add("clear" if D else "clear-empty")
                for k, v in D.items():
                    if v is not None:
                        last_removed_value[k] = v
                    grave[k] = v
                    touched.setdefault(k, []).append("e")
                    shadow.remove(k)
                if D:
                    removed_this_cycle = True
                D = {}
            else:
                res.feats.add("touch")
            if op in ("set", "at", "erase"):
                h = "".join(x for x in touched[k] if len(x) == 1)
                if len(touched[k]) >= 2:
                    res.feats.add("same-cycle-repeat"); res.nontrivial = True
                if "we" in h:
                    res.feats.add("set-then-erase-in-cycle")
                if "ew" in h or "ec" in h:
                    res.feats.add("erase-then-set-in-cycle")
                if "ww" in h:
                    res.feats.add("update-twice-in-cycle")
            continue
        if op == "dump":
            t = int(w[1])
            try:
                f = _fields(o)
                v, inv = _items(f["v"]), set(_ints(f["inv"]))
                a, r, m = set(_ints(f["a"])), set(_ints(f["r"])), set(_ints(f["m"]))
                mi, ri = _items(f["mi"]), _items(f["ri"])
                kv, ka, kr, klmt = set(_ints(f["kv"])), set(_ints(f["ka"])), set(_ints(f["kr"])), int(f["klmt"])
                vv = _items(f["vv"]); d = _delta_tsd(f["d"])
                c = set(_ints(f["c"]))
                n_iter = len(_parse_list(f["v"])) + len(_parse_list(f["inv"]))
                lmt, mod, n = int(f["lmt"]), f["mod"] == "1", int(f["n"])
            except Exception as e:      # noqa
                if o.startswith("err:"):
                    res.bad.append("reading the output at t=%d threw (%s): value / delta not readable" % (t, o))
                else:
                    res.bad.append("unreadable dump %r (%s)" % (o, e))
                return res
            if t < cur_t:
                continue
            pub = {k: x for k, x in D.items() if x is not None}
            late = []
            if n != n_iter or n_iter != len(v) + len(inv):
                late.append("tsd-size: size() disagrees with the items that can be iterated: t=%d size()=%d, iterated keys %s"
                            % (t, n, sorted(list(v) + list(inv))))
            if c != set(v) | inv:
                late.append("tsd-contains: contains() disagrees with the iterated keys: t=%d keys %s, of the keys named by items / "
                            "added / removed those passing contains() are %s" % (t, sorted(set(v) | inv), sorted(c)))
            if v != pub or inv != set(k for k, x in D.items() if x is None) or n != len(D) or set(vv) != set(D) or kv != set(D):
                late.append("tsd t=%d: items %s invalid-keys %s size %d key-set %s but history says %s" % (t, v, sorted(inv), n, sorted(kv), D))
            if t == cur_t and cur_t != 0:
                if mod != (marked_t == t) or lmt != marked_t:
                    res.bad.append("tsd t=%d: last ticking mutation at %d but modified=%d lmt=%d" % (t, marked_t, mod, lmt))
                _coherence(res, t, set(prev_pub), set(v), a, r, "tsd(keys)")
                if not m <= set(v):
                    res.bad.append("tsd t=%d: modified keys %s not all present in the value %s" % (t, sorted(m), sorted(v)))
                if set(mi) != m or any(mi[k] != v.get(k) for k in mi):
                    res.bad.append("tsd t=%d: modified_items %s disagree with modified_keys %s / values %s" % (t, mi, sorted(m), v))
                if set(ri) != r:
                    res.bad.append("tsd t=%d: removed_items %s disagree with removed_keys %s" % (t, ri, sorted(r)))
                for k in ri:
                    if k in last_removed_value and ri[k] != last_removed_value[k]:
                        res.bad.append("tsd t=%d: removed key %d reads %s, its last value was %s" % (t, k, ri[k], last_removed_value[k]))
                    if k not in last_removed_value and k in prev_pub and ri[k] != prev_pub[k]:
                        res.bad.append("tsd t=%d: removed key %d reads %s, its last value was %s" % (t, k, ri[k], prev_pub[k]))
                if d is None:
                    if marked_t == t:
                        res.bad.append("tsd t=%d: modified but delta_value is empty" % t)
                    elif prev_pub != v:
                        res.bad.append("tsd t=%d: value changed from %s to %s without a tick" % (t, prev_pub, v))
                else:
                    if d[0] != r or d[1] != {k: mi[k] for k in mi}:
                        res.bad.append("tsd t=%d: delta_value %s differs from removed_keys %s / modified_items %s" % (t, f["d"], sorted(r), mi))
                    applied = {k: x for k, x in prev_pub.items() if k not in d[0]}
                    applied.update(d[1])
                    if applied != v:
                        res.bad.append("tsd-delta: value differs from the previous value with the tick's delta applied: t=%d value %s, "
                                           "previous %s, delta (removed %s, modified %s) gives %s"
                                           % (t, v, prev_pub, sorted(d[0]), d[1], applied))
                # the key_set() projection read as a TSS
                if (a or r) and (klmt != t or ka != a or kr != r):
                    res.finding.append("tsd-keyset: key_set() projection is not coherent with the dictionary delta: t=%d dictionary delta +%s -%s but key_set() "
                                       "lmt=%d added=%s removed=%s" % (t, sorted(a), sorted(r), klmt, sorted(ka), sorted(kr)))
                elif klmt == t and kv != (prev_live - kr) | ka:
                    res.finding.append("tsd-keyset: key_set() projection is not coherent with the dictionary delta: t=%d key_set() value %s != previous %s "
                                       "with its delta (+%s -%s) applied" % (t, sorted(kv), sorted(prev_live), sorted(ka), sorted(kr)))
                if a:
                    res.feats.add("delta-added")
                if r:
                    res.feats.add("delta-removed")
                if m:
                    res.feats.add("delta-modified")
            else:
                res.feats.add("dump-unmodified-time")
                if mod or a or r or m or d is not None:
                    res.bad.append("tsd t=%d: nothing happened at this time but modified=%d added=%s removed=%s modified_keys=%s delta=%s"
                                   % (t, mod, sorted(a), sorted(r), sorted(m), f["d"]))
            res.bad.extend(late)
            continue
        if o != "bad-op":
            res.bad.append("unknown op %r answered %r" % (ln, o))
    return res


def _mon_tsw(case, out):
    res = _Res()
    period = minp = None
    xs, ts = [], []         # pushes since the last clear, with their times
    lmt = 0
    ev = None               # (time, value) of the last eviction
    clr = None              # time of the last clear (until something is evicted)
    for ln, o in zip(case.lines, out + ["<none>"] * len(case.lines)):
        w = ln.split()
        op = w[0]
        if op == "case":
            continue
        if op == "tsw":
            period, minp = int(w[1]), int(w[2])
            res.feats.add("period=%d" % period)
            res.feats.add("min_period" + ("=0" if minp == 0 else "<=period" if minp <= period else ">period"))
            continue
        if op in ("push", "wclear", "wclearpush"):
            t = int(w[1])
            if t == 0:
                res.feats.add("min-dt-refused")
                if o != "err:invalid-arg":
                    res.bad.append("window mutation at MIN_DT returned %r" % o)
                continue
            if t < lmt:
                res.feats.add("time-decrease(out-of-hypothesis)")
                return res
            if t == lmt:
                res.feats.add("second-tick-in-cycle-refused")
                if o != "err:logic":
                    res.bad.append("second window tick at t=%d returned %r" % (t, o))
                continue
            if o != "ok":
                res.bad.append("%s returned %r" % (ln, o))
            lmt = t
            if op in ("wclear", "wclearpush"):
                xs, ts = [], []; ev = None; clr = t
                res.feats.add("clear")
            if op in ("push", "wclearpush"):
                xs.append(int(w[2])); ts.append(t)
                if len(xs) > period:
                    ev = (t, xs[len(xs) - period - 1]); clr = None
                    res.feats.add("evict"); res.nontrivial = True
                    if len(xs) > 2 * period:
                        res.feats.add("wrapped-twice")
            continue
        if op == "dump":
            t = int(w[1])
            try:
                f = _fields(o)
                v, times = _ints(f["v"]), _ints(f["times"])
                n, full, valid, allvalid = int(f["n"]), f["full"] == "1", f["valid"] == "1", f["allvalid"] == "1"
                mod, dl = f["mod"] == "1", int(f["lmt"])
            except Exception as e:      # noqa
                if o.startswith("err:"):
                    res.bad.append("reading the output at t=%d threw (%s): value / delta not readable" % (t, o))
                else:
                    res.bad.append("unreadable dump %r (%s)" % (o, e))
                return res
            if t < lmt:
                continue
            k = len(xs)
            want = xs[max(0, k - period):]
            if v != want or n != min(k, period) or times != ts[max(0, k - period):]:
                res.bad.append("tsw t=%d: window %s (times %s, n=%d) but the last min(k,N)=%d of %d pushes are %s"
                               % (t, v, times, n, min(k, period), k, want))
            if full != (min(k, period) == period):
                res.bad.append("tsw t=%d: full=%d with %d of %d" % (t, full, n, period))
            if valid != (lmt != 0) or allvalid != (lmt != 0 and min(k, period) >= minp):
                res.bad.append("tsw t=%d: valid=%d all_valid=%d with size %d, min_period %d, ticked=%d" % (t, valid, allvalid, n, minp, lmt != 0))
            if allvalid:
                res.feats.add("all-valid")
            elif lmt != 0:
                res.feats.add("below-min-period")
            want_ev = str(ev[1]) if ev is not None and ev[0] == t else "-"
            if f["ev"] != want_ev:
                res.bad.append("tsw t=%d: evicted element %s, expected %s" % (t, f["ev"], want_ev))
            if mod != (t == lmt and lmt != 0) or dl != lmt:
                res.bad.append("tsw t=%d: modified=%d lmt=%d, last tick was %d" % (t, mod, dl, lmt))
            want_d = (str(xs[-1]) if xs else "none") if (t == lmt and lmt != 0) else "none"
            if f["d"] != want_d:
                res.bad.append("tsw t=%d: delta %s, expected %s" % (t, f["d"], want_d))
            if (f["clr"] == "1") != (clr is not None and clr == t):
                res.bad.append("tsw t=%d: cleared=%s, last clear at %s" % (t, f["clr"], clr))
            continue
        if o != "bad-op":
            res.bad.append("unknown op %r answered %r" % (ln, o))
    return res


def _mon_tsl(case, out):
    """fixed TSL<TS<Int>, n>: value' = value with this tick's modified children replaced"""
    res = _Res()
    n = 0
    vals, prev = {}, {}     # index -> value (children that have a value)
    written = {}            # index -> value, this cycle
    cur_t = 0
    for ln, o in zip(case.lines, out + ["<none>"] * len(case.lines)):
        w = ln.split()
        op = w[0]
        if op == "case":
            continue
        if op == "tsl":
            n = int(w[1]); res.feats.add("size=%d" % n)
            continue
        if op == "lset":
            t, i = int(w[1]), int(w[2])
            if i >= n:
                res.feats.add("index-out-of-range")
                if o != "err:range":
                    res.bad.append("write to child %d of %d returned %r" % (i, n, o))
                continue
            if t == 0:
                res.feats.add("min-dt-refused")
                if o != "err:invalid-arg":
                    res.bad.append("child write at MIN_DT returned %r" % o)
                continue
            if t < cur_t:
                res.feats.add("time-decrease(out-of-hypothesis)")
                return res
            if t > cur_t:
                prev = dict(vals); written = {}; cur_t = t
                res.feats.add("cycle-boundary")
            if i in written:
                res.feats.add("same-child-twice-in-cycle"); res.nontrivial = True
            vals[i] = written[i] = int(w[3])
            if o != "ok":
                res.bad.append("%s returned %r" % (ln, o))
            continue
        if op == "dump":
            t = int(w[1])
            try:
                f = _fields(o)
                v, m = _items(f["v"]), _items(f["m"])
                vv = _ints(f["vv"])
                d = None if f["d"] == "none" else _items(f["d"])
                lmt, mod, valid, allvalid = int(f["lmt"]), f["mod"] == "1", f["valid"] == "1", f["allvalid"] == "1"
            except Exception as e:      # noqa
                if o.startswith("err:"):
                    res.bad.append("reading the output at t=%d threw (%s): value / delta not readable" % (t, o))
                else:
                    res.bad.append("unreadable dump %r (%s)" % (o, e))
                return res
            if t < cur_t:
                continue
            if v != vals or len(vv) != n or any(vv[i] != x for i, x in vals.items()):
                res.bad.append("tsl t=%d: children %s (all %s) but the write history says %s" % (t, v, vv, vals))
            if valid != (cur_t != 0) or allvalid != (cur_t != 0 and len(vals) == n) or lmt != cur_t:
                res.bad.append("tsl t=%d: valid=%d all_valid=%d lmt=%d with %d of %d children written, last write at %d"
                               % (t, valid, allvalid, lmt, len(vals), n, cur_t))
            if t == cur_t and cur_t != 0:
                if not mod:
                    res.bad.append("tsl t=%d: written in this cycle but not modified" % t)
                applied = dict(prev); applied.update(m)
                if applied != v:
                    res.bad.append("tsl t=%d: value %s != previous value %s with the modified children %s replaced" % (t, v, prev, m))
                if m != written:
                    res.bad.append("tsl t=%d: modified children %s but children written this cycle are %s" % (t, m, written))
                if d != m:
                    res.bad.append("tsl t=%d: delta_value %s differs from modified_items %s" % (t, d, m))
                if len(m) > 1:
                    res.feats.add("several-children-modified")
                if len(m) < len(vals):
                    res.feats.add("some-children-unmodified"); res.nontrivial = True
            else:
                res.feats.add("dump-unmodified-time")
                if mod or m or d is not None:
                    res.bad.append("tsl t=%d: nothing happened at this time but modified=%d modified children %s delta %s" % (t, mod, m, f["d"]))
            continue
        if o != "bad-op":
            res.bad.append("unknown op %r answered %r" % (ln, o))
    return res


def _pairs(s):
    out = []
    for x in _parse_list(s):
        v, t = x.split("@")
        out.append((int(v), int(t)))
    return out


class _TwShadow:
    """what the cyclic buffer does (head / capacity), for the input-distribution histogram ONLY: the verdicts of the
    monitor never look at it"""

    def __init__(self):
        self.cap = self.head = self.size = 0

    def push(self, k, feats):
        if k:
            self.head = (self.head + k) % self.cap
            self.size -= k
            if self.size == 0:
                self.head = 0
        if self.size + 1 > self.cap:
            new = max(self.size + 1, 4) if self.cap == 0 else max(self.size + 1, 2 * self.cap)
            if self.cap:
                feats.add("grow-%d->%d-%s" % (self.cap, new, "WRAPPED(head!=0)" if self.head else "head=0"))
            wrapped = self.head != 0
            self.cap, self.head = new, 0
            self.size += 1
            return wrapped
        if self.head + self.size >= self.cap and self.head:
            feats.add("append-wraps-around")
        self.size += 1
        return False

    def clear(self):
        self.head = self.size = 0


def _mon_tw(case, out):
    """duration window.  Reference (independent of the buffer): the window after a push at time t holds the pushes since
    the last clear whose time is >= t - span, in push order; the tick's delta is the pushed value, its removed value
    the last element that left; and, from the implementation's own consecutive dumps, window' = window minus the
    expired prefix plus the pushed element."""
    res = _Res()
    span = minspan = None
    hist = []               # (value, time) pushed since the last clear
    ref = []                # reference window
    lmt = 0
    ev = None               # (time, value) of the last element that left the span
    clr = None
    last_obs = None         # window of the latest dump, when no operation was applied since
    pending = None          # (t, v, observed window before the push)
    shadow = _TwShadow()
    for ln, o in zip(case.lines, out + ["<none>"] * len(case.lines)):
        w = ln.split()
        op = w[0]
        if op == "case":
            continue
        if op == "twin":
            span, minspan = int(w[1]), int(w[2])
            res.feats.add("span=%s" % (span if span <= 2 else "3..20" if span <= 20 else "21..200" if span <= 200 else ">200"))
            res.feats.add("min_span" + ("=0" if minspan == 0 else "<=span" if minspan <= span else ">span"))
            continue
        if op == "cap":
            if o.startswith("cap=") and o[4:].isdigit():
                c = int(o[4:])
                if c >= 8:
                    res.feats.add("capacity>=%d" % (64 if c >= 64 else 32 if c >= 32 else 16 if c >= 16 else 8))
            continue
        if op in ("push", "wclear", "wclearpush"):
            t = int(w[1])
            if t == 0:
                res.feats.add("min-dt-refused")
                if o != "err:invalid-arg":
                    res.bad.append("window mutation at MIN_DT returned %r" % o)
                continue
            if t < lmt:
                res.feats.add("time-decrease(out-of-hypothesis)")
                return res
            if t == lmt:
                res.feats.add("second-tick-in-cycle-refused")
                if o != "err:logic":
                    res.bad.append("second window tick at t=%d returned %r" % (t, o))
                continue
            if o != "ok":
                res.bad.append("twindow-op: a window operation that has to succeed was refused or failed: %s returned %r" % (ln, o))
            lmt = t
            pending = None
            if op in ("wclear", "wclearpush"):
                hist, ref = [], []; ev = None; clr = t
                shadow.clear()
                res.feats.add("clear")
                last_obs = [] if last_obs is not None else None
            if op in ("push", "wclearpush"):
                v = int(w[2])
                left = [x for x in ref if x[1] < t - span]
                if left:
                    ev = (t, left[-1][0]); clr = None
                    res.feats.add("expire-1" if len(left) == 1 else "expire-several" if len(left) < len(ref) else "expire-all")
                    res.nontrivial = True
                if any(x[1] == t - span for x in ref):
                    res.feats.add("boundary(time == t - span is kept)")
                hist.append((v, t))
                ref = [x for x in hist if x[1] >= t - span]
                if shadow.push(len(left), res.feats):
                    res.feats.add("GROW-WHILE-WRAPPED"); res.nontrivial = True
                if len(ref) > 4:
                    res.nontrivial = True
                pending = (t, v, last_obs)
            last_obs = None
            continue
        if op == "dump":
            t = int(w[1])
            try:
                f = _fields(o)
                win, vv, vr = _pairs(f["w"]), _ints(f["vv"]), _pairs(f["vr"])
                n, valid, allvalid = int(f["n"]), f["valid"] == "1", f["allvalid"] == "1"
                mod, dl, fmt = f["mod"] == "1", int(f["lmt"]), int(f["fmt"])
            except Exception as e:      # noqa
                if o.startswith("err:"):
                    res.bad.append("reading the window at t=%d threw (%s): value / delta not readable" % (t, o))
                else:
                    res.bad.append("unreadable dump %r (%s)" % (o, e))
                return res
            if t < lmt:
                continue
            show = lambda l: "[" + " ".join("%d@%d" % x for x in l) + "]"       # noqa
            if win != ref or n != len(ref):
                res.bad.append("twindow-content: the window is not the list of pushes within the span of the latest push: t=%d window %s (n=%d), "
                               "span %d, expected %s" % (t, show(win), n, span, show(ref)))
            if vv != [x[0] for x in win] or vr != win:
                res.bad.append("twindow-surfaces: value() / values()+value_times() disagree with the indexed readers at()/time_at(): t=%d "
                               "value() %s, ranges %s, indexed %s" % (t, vv, show(vr), show(win)))
            if any(a[1] > b[1] for a, b in zip(win, win[1:])):
                res.bad.append("twindow-order: the times in the window are not ascending (the push order is lost): t=%d %s" % (t, show(win)))
            if any(x[1] < lmt - span for x in win):
                res.bad.append("twindow-expiry: the window holds a value that is older than the span of the latest push: t=%d %s" % (t, show(win)))
            if pending is not None and pending[0] == t:
                pt, pv, before = pending
                if before is not None:
                    k = next((i for i, x in enumerate(before) if x[1] >= pt - span), len(before))     # expired prefix
                    if True:
                        if win != before[k:] + [(pv, pt)]:
                            res.bad.append("twindow-tick: the window is not the previous window with the tick's delta applied (expired prefix dropped, "
                                           "pushed value appended): t=%d window %s, previous window %s, %d expired, pushed %d"
                                           % (t, show(win), show(before), k, pv))
                        want = str(before[k - 1][0]) if k else "-"
                        if f["ev"] != want:
                            res.bad.append("twindow-removed: the removed value is not the last element that left the previous window: t=%d removed "
                                           "value %s, previous window %s, expected %s" % (t, f["ev"], show(before), want))
                        res.feats.add("tick-to-tick-checked")
            want_ev = str(ev[1]) if ev is not None and ev[0] == t else "-"
            if f["ev"] != want_ev:
                res.bad.append("twindow-removed-value: the removed value is not the last push that left the span at this tick: t=%d removed "
                               "value %s, expected %s" % (t, f["ev"], want_ev))
            if fmt != (win[0][1] if win else 0):
                res.bad.append("twindow-first-modified-time: first_modified_time is not the time of the oldest element: t=%d fmt %d, window %s"
                               % (t, fmt, show(win)))
            want_all = lmt != 0 and len(ref) > 0 and (minspan == 0 or ref[-1][1] - ref[0][1] >= minspan)
            if valid != (lmt != 0) or allvalid != want_all:
                res.bad.append("twindow-validity: valid / all_valid disagree with the window and the minimum span: t=%d valid=%d all_valid=%d "
                               "with window %s, min span %d, ticked=%d"
                               % (t, valid, allvalid, show(ref), minspan, lmt != 0))
            if lmt != 0:
                res.feats.add("all-valid" if want_all else "below-min-span")
            if mod != (t == lmt and lmt != 0) or dl != lmt:
                res.bad.append("twindow-modified: modified / last_modified_time disagree with the last tick of the window: t=%d modified=%d "
                               "lmt=%d, last tick was %d" % (t, mod, dl, lmt))
            want_d = (str(ref[-1][0]) if ref else "none") if (t == lmt and lmt != 0) else "none"
            if f["d"] != want_d:
                res.bad.append("twindow-delta: delta_value is not the value pushed at this tick (none when nothing was pushed): t=%d delta %s, "
                               "expected %s" % (t, f["d"], want_d))
            if (f["clr"] == "1") != (clr is not None and clr == t):
                res.bad.append("twindow-cleared: cleared() disagrees with the time of the last clear operation: t=%d cleared=%s, last clear "
                               "at %s" % (t, f["clr"], clr))
            if t != lmt:
                res.feats.add("dump-unmodified-time")
            last_obs = win
            pending = None
            continue
        if o != "bad-op":
            res.bad.append("unknown op %r answered %r" % (ln, o))
    return res


def _run(stream, case, out):
    try:
        if stream.startswith("tss"):
            return _mon_tss(case, out)
        if stream == "tsl":
            return _mon_tsl(case, out)
        if stream == "tsw":
            return _mon_tsw(case, out)
        if stream.startswith("twindow"):
            return _mon_tw(case, out)
        return _mon_tsd(case, out)
    except Exception as e:      # a crashed / truncated implementation trace
        res = _Res()
        res.bad.append("implementation trace unreadable: %s" % e)
        return res


def monitor(stream, case, out):
    res = _run(stream, case, out)
    # ordinary violations first; the known-finding class (tsd-keyset) is reported only when nothing else is wrong,
    # so that a known finding can never mask a new violation in the same case
    return (res.bad or res.finding)[:3]


def features(stream, case, out):
    res = _run(stream, case, out)
    fs = set(stream + ":" + f for f in res.feats)
    for k in ("profile", "mode", "scenario"):
        if k in case.meta:
            fs.add("%s:%s=%s" % (stream, k, case.meta[k]))
    return sorted(fs)


def nontrivial(stream, case, out):
    return _run(stream, case, out).nontrivial


def alarm_filter(stream, case, impl_out, model_out):
    """slot numbers / capacities (`slots` lines) are internal: a difference there alone is drift, not an alarm"""
    notes, alarm = [], False
    if len(impl_out) != len(model_out):
        return True, ["different number of output lines"]
    for ln, a, b in zip(case.lines, impl_out, model_out):
        if a == b:
            continue
        if ln.split()[:1] in (["slots"], ["cap"]):
            notes.append("%s: impl %s / model %s" % (ln.split()[0], a, b))
        else:
            alarm = True
    return alarm, notes


TECHNIQUE = ("Lean 4 proof (slot-store representation invariant + refinement of the TSS/TSD delta bits to "
             "`added = value \\ value-at-cycle-start`, `removed = value-at-cycle-start \\ value`, by induction over all "
             "mutation histories; ring-buffer refinement to `last min(k,N) pushes`; growing cyclic buffer of the duration "
             "window refined to `pushes within the span of the latest push`) with differential correspondence "
             "against real TSOutput objects and an independent trace monitor")
LEVEL_TEXT = ("Kernel-checked theorems over ALL mutation histories of the modelled KeySlotStore / TSSSlotStorage / "
              "TSDSlotStorage / SizeTSWindowStorage / fixed-TSL code: slot-store representation invariant, delta bits = "
              "(value \\ value-at-cycle-start, value-at-cycle-start \\ value) for TSS and for TSD keys (hence all five "
              "coherence relations, no trace of cancelled mutations, value = fold of all deltas from empty), window = last "
              "min(k,N) pushes with all_valid <-> size >= min_period and the evicted element, fixed-list modified children = "
              "children written in the cycle. Duration windows (TimeTSWindowStorage): for ALL histories with non-decreasing "
              "times the logical content of the cyclic buffer (head/size/capacity, regrown 4,8,16,.. by reserve_exact) = the "
              "pushes since the last clear whose time is within the span of the latest push, in push order "
              "(`window_refines_spec`); growth keeps the logical content for every well-formed buffer, wrapped or not "
              "(`reserve_preserves_content`; `reservePhysical_counterexample` shows the copy in physical slot order does not); "
              "per tick: new content = old content minus the expired prefix plus the pushed value, removed value = last "
              "element that left, delta = pushed value (`window_tick_delta`); all_valid / size / first_modified_time through "
              "the spec list; size <= capacity and head inside the buffer after ANY history. The model is tied to the code by running real TSOutput objects on generated "
              "histories and comparing every observation; an independent trace monitor decides the relations on the "
              "implementation's dumps. Growth of the slot table (Props/C05Grow.lean): the two planes (constructed, live) of the "
              "bitmap representation used for narrow key types are modelled with their word-wise copy; growth preserves the "
              "state of every slot for EVERY well-formed state (`planes_growth_preserves_states`) and implements the growth step "
              "of the one-state-per-slot model (`planes_growth_refines`), as do the other lifecycle primitives; for EVERY history "
              "of operations and reserve calls — growth at any point of any cycle, also with removals pending erase — "
              "value(t) = value(t-1) - removed + added with all coherence relations, size() = iterated elements and "
              "contains() <-> iterated (`tssg_tick_coherent`, `tsdg_tick_coherent` incl. the TSD value level); "
              "`tss_s83_incoherent` / `planes_growth_s83_resurrects` are kernel-checked counter-witnesses for the rule "
              "'live plane := constructed plane' (seed s83). Streams `tss-boundary` / `tsd-boundary` drive both "
              "representations to constructed keys = capacity (8 / 16 / 32, reserved capacities incl. the 64-bit word "
              "boundaries of the planes) and remove + insert in one cycle.")
LEVEL_NOTE = ("Full at TSD value level for the code with the repair of finding F-C05-1 (fixes/c05_f1.patch, "
              "`restore_modified_mark`): `tsd_value_delta_coherent` proves value' = previous value with the tick's removed keys "
              "and modified items applied for every history with non-decreasing times; `tsd_value_delta_incoherent_prefix` is "
              "the kernel-checked counterexample for the pre-fix insert path (a key written, erased and written again within "
              "one cycle was missing from modified_items()/delta_value) and the monitor reports that pattern as `tsd-delta:` "
              "if it returns. Known finding F-C05-2 (not repaired): the key_set() projection of a TSD is not coherent when a "
              "key is created by at() without a value (`tsd_keyset_incoherent`; monitor message `tsd-keyset:` on the stream "
              "`tsd-defects`). Trusted: Lean kernel; axioms propext/Classical.choice/Quot.sound; the hand-written model (hash "
              "index as first constructed slot, bitsets per slot, bitmap words as bit lists); the correspondence harness. Key types "
              "other than int64 / int32 / date / float, value types other than Int, "
              "nested TSD/TSS/TSB values, dynamic TSL and child invalidation are not exercised; duration windows are exercised "
              "through push / clear only (streams `twindow*`, driver hgv_twindow, model Drivers/C05W.lean), not through "
              "whole-list assignment or copies of the storage.")
