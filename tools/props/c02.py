"""C02 - simulation honours every scheduled wake-up at exactly its time, in order."""
import engine_common as ec
import engine_plugin as ep

ID = "C02"
LEAN_MODULES = ['HgVerif.Props.NestFlowCor', 'HgVerif.Props.C02', 'HgVerif.Props.C02Fail', 'HgVerif.Props.C02Reach', 'HgVerif.Model.Engine', 'HgVerif.Model.Extracted', 'HgVerif.Model.TieC02']
THEOREMS = ['HgVerif.NestFlow.nested_wakeup_reached', 'HgVerif.NestFlow.firstRunT_eq_firstEval', 'HgVerif.NestFlow.ownFuture_beh', 'HgVerif.Sched.scan_next_lower', 'HgVerif.Sched.scan_next_is_slot', 'HgVerif.Sched.due_node_evaluated', 'HgVerif.Sched.cycle_next_gt', 'HgVerif.Sched.sim_times_strict', 'HgVerif.Sched.sim_times_window', 'HgVerif.Sched.armed_wakeup_honoured', 'HgVerif.Sched.cinv_scanFrom_any', 'HgVerif.Sched.failed_cycle_next_lower', 'HgVerif.Sched.failed_cycle_next_is_slot', 'HgVerif.Sched.armed_wakeup_survives_failure', 'HgVerif.Sched.cycle_keeps_or_evaluates', 'HgVerif.Sched.wakeup_reached', 'HgVerif.Flow.disc_beh', 'HgVerif.Tie.tie_simNextIsMinOfPendingAndEnd', 'HgVerif.Tie.tie_runEndsWhenNext', 'HgVerif.Tie.tie_runEndsWhenTime', 'HgVerif.Tie.tie_failKeepsWakeups', 'HgVerif.Tie.tie_keepFuture', 'HgVerif.Tie.tie_keepEarlier', 'HgVerif.Tie.tie_slotConsumed', 'HgVerif.Tie.tie_slotEarlier', 'HgVerif.Tie.tie_cacheFuture', 'HgVerif.Tie.tie_cacheEarlier', 'HgVerif.Tie.tie_startFoldFrom', 'HgVerif.Tie.tie_scanRunsWhen', 'HgVerif.Tie.tie_scanFoldFuture']
CXX_TARGETS = ['hgv_engine']
USES_EXTRACT = True
RULE = 'generated graphs with script nodes issuing random scheduler requests (relative/absolute/tagged, cancels, start-phase requests, requests for the current time, equal times from different nodes, consecutive smallest steps) mixed with input-driven evaluation and self-scheduling nodes inside nested graphs; random start/end (requests at/after end); non-trivial = at least 2 cycles with user code; distinct by program text'
TRUSTED = ['graph schedule array / cache modelled as List Nat / Option Nat (none = MAX_DT)']
ASSUMPTIONS = ['caller discipline Disc (same-cycle requests target later nodes, future requests target the node itself or earlier nodes) - proved for notifications by the rank theorems (C01) and for the node scheduler by C18', 'times stay below MAX_DT (no overflow)']
TECHNIQUE = 'Lean 4 proof (invariants of schedule_node / scan / run loop for arbitrary node behaviours) + translator ties on every comparison in schedule_node_impl/start/scan + differential correspondence + reference monitor of pending wake-ups'
LEVEL_TEXT = ('Kernel-checked for arbitrary node behaviours under the stated caller discipline: after every cycle the cached next time is a lower bound of every future slot and is itself a slot (no wake-up skipped, no cycle at a never-requested time), a node due at the cycle time is evaluated in that cycle, cycle times strictly increase inside [start, end); run level (wakeup_reached): an armed slot s of a node whose future wake-ups only it requests is followed, within s-now cycles, by an evaluation of that node at some time t1 <= s (at s unless an input evaluates it earlier) or by a failing cycle; the loop neither ends nor passes s; the invariant also holds after a cycle ended by a captured exception (fix F5). The executable engine model built on the same definitions is compared trace-for-trace with the compiled runtime; every implementation trace is checked against an independent pending-wake-up reading.'
              " Through nested graphs (Props/NestFlowCor.lean, from nested = inlined of C09Flow): a wake-up a node at ANY nesting level of a chain of nested flat dataflows asked for itself is reached - the root runs a cycle no later than that time in which the node's user code runs (nested_wakeup_reached), for arbitrary node functions, any ranks, any depth.")
LEVEL_NOTE = 'Trusted: Lean kernel + standard axioms; engine model tied by correspondence; Python monitor; real-time mode is C17.'


def streams(rng, tier, seed):
    n = 150 if tier == "quick" else 4000
    progs = [ec.gen_flat(rng, sched=True) for _ in range(n)] + [ec.gen_nested(rng, both=False) for _ in range(n // 3)]
    progs += [ec.gen_nscript(rng) for _ in range(n // 4)]       # wake-ups of a node the readiness gate holds back
    progs += [ec.gen_try_sched(rng) for _ in range(n // 3)]     # wake-ups pending in a child whose cycle an exception ends
    progs += [ec.gen_sched_capture(rng) for _ in range(n // 3)]  # wake-ups of a scheduler node whose own evaluation throws and is captured
    return [ec.engine_stream("engine-sched", progs)]


monitor = ep.monitor_for(ID)
features = ep.features
alarm_filter = ep.alarm_filter
nontrivial = ep.nontrivial

valid_case = ep.valid_case
