"""C14 - every started node is stopped exactly once, in reverse order, whatever fails."""
import engine_common as ec
import engine_plugin as ep
import c14dyn as dyn

ID = "C14"
LEAN_MODULES = ['HgVerif.Props.C14', 'HgVerif.Model.Engine', 'HgVerif.Model.Extracted'] + list(dyn.LEAN_MODULES)
THEOREMS = ['HgVerif.Lifecycle.start_prefix', 'HgVerif.Lifecycle.stop_reverse_all', 'HgVerif.Lifecycle.started_stopped_once', 'HgVerif.Lifecycle.failed_start_rollback', 'HgVerif.Lifecycle.stop_faults_do_not_block', 'HgVerif.Lifecycle.first_error_wins', 'HgVerif.Lifecycle.stopLoop_no_error'] + list(dyn.THEOREMS)
CXX_TARGETS = ['hgv_engine'] + list(dyn.CXX_TARGETS)
USES_EXTRACT = True
RULE = 'flat graphs with 1-2 thrower nodes faulting at start / k-th evaluate / stop (incl. evaluate-fault followed by stop-fault), cleanup_on_error on/off; lifecycle observer log + in-node counters + caught exception text; non-trivial = a fault fired; distinct by program text' + ' ' + dyn.RULE
TRUSTED = ['UnwindCleanupGuard / FirstExceptionRecorder (util/scope.h) modelled as first-error-wins folds'] + list(dyn.TRUSTED)
ASSUMPTIONS = ['faults are std::runtime_error thrown by harness nodes'] + list(dyn.ASSUMPTIONS)
TECHNIQUE = 'Lean 4 proof (start/stop as folds with rollback and first-exception recording, for every fault assignment) + differential correspondence with fault injection + lifecycle monitor'
LEVEL_TEXT = ('Kernel-checked for every graph size and every assignment of start/stop faults: nodes start in order and exactly a prefix starts; stop visits every started node exactly once in reverse order even when stops throw; a failed start stops exactly the started prefix in reverse; the first error is the one reported. The engine model is compared with the runtime under injected faults, and every implementation trace passes the lifecycle monitor.'
              " Dynamic children (Props/C14Dyn.lean, stream dynlife; map_, switch_ and reduce_ as coded after fixes F7/F8): for every key history and every assignment of start / evaluate / stop faults no lifecycle violation occurs, nothing is left started at the return of run() (clean-up on) and at release, every node's hook sequence is start, evaluate*, stop, the first error is the one reported, a failing child start leaves no started sibling behind, and a combiner stop error at the parent's stop reaches the caller (reduce_stop_error_reaches_caller)."
              " reduce_ with an explicit zero (Props/C14DynZ.lean, kind reducez): rebuild_structure as coded - pointer table over two banks, capacity growth with bank swap, phase 1 sets the no longer needed combiners aside (still started), phase 2 binds and starts the created ones, phase 3 stops the set-aside ones, the unwind guard discards the created and restores the set-aside combiners - for every history of live counts (incl. the 1->2 and 2->1 transitions that create one combiner and retire another in ONE rebuild), every fault assignment, zero on/off: no lifecycle violation, nothing started at the return (clean-up on) / at release, per-node hook language, first error wins, a throwing rebuild restores table, size, capacity and bank and leaves every set-aside combiner started and reachable (rz_failed_rebuild_restores_table, rz_failed_rebuild_then_stop_clean); a guard that returns early when combiners were created provably leaks one (rz_guard_early_leaks).")
LEVEL_NOTE = 'Trusted: Lean kernel; model tied by correspondence; nested/dynamic children are exercised by the nested programs of C09/C15.'


def streams(rng, tier, seed):
    n = 200 if tier == "quick" else 5000
    progs = [ec.gen_fault(rng) for _ in range(n)]
    return [ec.engine_stream("engine-faults", progs)] + dyn.streams(rng, tier, seed)


_mon = ep.monitor_for(ID)


def monitor(stream, case, out):
    return dyn.monitor(stream, case, out) if stream.startswith("dynlife-") else _mon(stream, case, out)


def features(stream, case, out):
    return dyn.features(stream, case, out) if stream.startswith("dynlife-") else ep.features(stream, case, out)


def alarm_filter(stream, case, impl_out, model_out):
    if stream.startswith("dynlife-"):
        return True, []
    return ep.alarm_filter(stream, case, impl_out, model_out)


def nontrivial(stream, case, out):
    if stream.startswith("dynlife-"):
        return dyn.nontrivial(stream, case, out)
    t = ec.trace_of(out)
    return "run-err" in t or "nx!" in t or "ns!" in t


def valid_case(stream, case, impl_out, model_out):
    if stream.startswith("dynlife-"):
        return dyn.valid_case(stream, case, impl_out, model_out)
    return ep.valid_case(stream, case, impl_out, model_out)
