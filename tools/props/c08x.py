"""throw-away wrapper: runs the structured-feedback stream of C08 (tools/props/c08shape.py) on its own."""
import c08shape as fs

ID = "C08X"
USES_EXTRACT = False
LEAN_MODULES = fs.LEAN_MODULES
THEOREMS = fs.THEOREMS
CXX_TARGETS = fs.CXX_TARGETS
RULE = fs.RULE
TRUSTED = fs.TRUSTED
ASSUMPTIONS = fs.ASSUMPTIONS
TECHNIQUE = "Lean 4 proof + differential correspondence + reference monitor"
LEVEL_TEXT = "structured-feedback stream of C08"
LEVEL_NOTE = ""
streams = fs.streams
monitor = fs.monitor
features = fs.features
nontrivial = fs.nontrivial
valid_case = fs.valid_case
