"""C08 (structured-feedback stream) - feedback over TS / TSB (flat + nested) / TSL / TSS / TSD shapes delivers exactly
the DELTA that was written, one smallest step later: no position re-ticks that nobody wrote, nothing is lost.

Meant to be merged into tools/props/c08.py the way c01.py merges c01rank.py / c07.py merges c07gs.py:
    streams += fs.streams(...); monitor/features/nontrivial/valid_case dispatch on stream.startswith("fbshape-");
    LEAN_MODULES += fs.LEAN_MODULES; THEOREMS += fs.THEOREMS; CXX_TARGETS += fs.CXX_TARGETS; RULE/TRUSTED/ASSUMPTIONS appended.

Protocol (harness/drv_fbshape.cpp, lean/Drivers/C08Shape.lean):
    case <n> / shape <s> [init <writes>|{}] [loop] [probe <t>] / c <writes>|-  (one line per consecutive smallest step
    from MIN_ST) / run
    every `c` line answers  t=<time> cyc=<0|1> w=<producer delta|-> r=<reader delta|-> v=<reader value|invalid|->
    init {} = the declared initial delta is the canonical EMPTY delta; loop = self loop through a validity-gated body
    (x : TS<Int> scripted, w = the body's delta); probe t = the reader recorder is also evaluated at t (validity).

Stream fbshape-ref (lean/Drivers/C08Ref.lean, Model/FeedbackRef.lean, Props/C08Ref.lean): the feedback's producer port
is a REF-SELECTED output - if_then_else(cond, A, B) (`sel`) or switch_(key, {pass-A, pass-B}, A, B) (`swc`) over two
independently scripted collections A, B:
    case <n> / shape <tss|tsd|tsb2|tsl2> sel|swc / c [s=a|s=b] [a=<writes>] [b=<writes>] | c - / run
    every `c` line answers  t=.. cyc=.. w=<producer-PORT tick|-> r=<reader delta|-> v=<reader value|-> pv=<port value|->
    w / pv are read through added()/removed()/modified_items()/modified() per child, never delta_value() (finding C13-A)."""
import itertools
import os
from vlib import Case, Stream, BUILD, model_cmd

ID = "C08S"
LEAN_MODULES = ["HgVerif.Props.C08Shape", "HgVerif.Props.C08Init", "HgVerif.Props.C08Ref"]
THEOREMS = [
    "HgVerif.FeedbackShape.shape_feedback_delay",
    "HgVerif.FeedbackShape.shape_initial_value",
    "HgVerif.FeedbackShape.shape_never_same_cycle",
    "HgVerif.FeedbackShape.observed_sub_written",
    "HgVerif.FeedbackShape.observed_eq_written",
    "HgVerif.FeedbackShape.no_spurious_field_tick",
    "HgVerif.FeedbackShape.no_spurious_tick_any_kind",
    "HgVerif.FeedbackShape.value_is_fold_of_deltas",
    "HgVerif.FeedbackShape.fix_value_lookup",
    "HgVerif.FeedbackShape.shape_quiescent",
    "HgVerif.FeedbackShape.source_due_iff_written",
    "HgVerif.FeedbackShape.state_not_cleared_harmless",
    "HgVerif.FeedbackShape.initial_then_shifted",
    "HgVerif.FeedbackShape.no_initial_shifted",
    "HgVerif.FeedbackShape.init_ticks_iff",
    "HgVerif.FeedbackShape.init_ticksB_iff",
    "HgVerif.FeedbackShape.empty_initial_per_kind",
    "HgVerif.FeedbackShape.empty_initial_bundle",
    "HgVerif.FeedbackShape.valid_from_start",
    "HgVerif.FeedbackShape.valid_from_startB",
    "HgVerif.FeedbackShape.gated_loop_is_fold",
    "HgVerif.FeedbackShape.gated_loop_runs_on_every_tick",
    "HgVerif.FeedbackShape.gated_loop_without_valid_prev_silent",
    "HgVerif.FeedbackShape.s94_reader_not_validated",
    "HgVerif.FeedbackShape.s94_loop_never_starts",
    # producer port = REF-selected collection (Model/FeedbackRef.lean, Props/C08Ref.lean)
    "HgVerif.FeedbackRef.reader_delta_eq_port_delta_shifted",
    "HgVerif.FeedbackRef.reader_tick_is_port_tick",
    "HgVerif.FeedbackRef.reader_value_eq_selected_value_shifted",
    "HgVerif.FeedbackRef.reader_value_is_fold",
    "HgVerif.FeedbackRef.first_cycle_silent",
    "HgVerif.FeedbackRef.step_inv",
    "HgVerif.FeedbackRef.diff_replay",
    "HgVerif.FeedbackRef.applyCore_replay",
    "HgVerif.FeedbackRef.difference_faithful",
    "HgVerif.FeedbackRef.asBuilt_faithful",
    "HgVerif.FeedbackRef.ref_feedback_exact_difference",
    "HgVerif.FeedbackRef.ref_feedback_exact_asBuilt",
    "HgVerif.FeedbackRef.current_value_capture_keeps_stale",
    "HgVerif.FeedbackRef.copy_path_loses_difference",
    "HgVerif.FeedbackRef.bundle_copy_loses_flip",
]
CXX_TARGETS = ["hgv_fbshape"]
RULE = ("fbshape streams: one feedback edge of shape TS<Int> | TSB{a,b} | TSB{a,b,c} | TSB{a,n:TSB{x,y}} | TSL<TS<Int>,2> | "
        "TSS<Int> | TSD<Int,TS<Int>> (real stdlib::feedback operators), with/without a declared initial delta, driven by a "
        "scripted producer over 3-14 consecutive smallest steps: strict subsets of fields after others are valid, fields "
        "becoming valid one after the other, all fields every cycle, one field only, equal repeated values, TSS/TSD "
        "add/remove/re-add incl. no-op operations, writes in the start cycle, in consecutive cycles, with gaps and in the last "
        "cycle before the end time; recorders on the producer and on the feedback port log per cycle the delta (which "
        "positions ticked with which values, added/removed) and the full value; thorough adds every TSB{a,b} history of 4 "
        "cycles x every initial delta and every TSS history of 4 cycles over 2 elements (without / with content / EMPTY initial "
        "delta) and every 5-cycle history of x for the gated loops. Start time: shape TSB{a:TS,s:TSS} (a bundle WITH a collection "
        "field) is added; the declared initial delta is absent | has content | is the canonical EMPTY delta of the schema "
        "(init {}: TSS/TSD/TSL/TSB; TS uses 0) | (TSS/TSD/TSB.s) carries removals; `probe t` evaluates the recorder on the "
        "feedback port at t without a tick so the port's VALIDITY is logged (70% at the start time); `loop` (TS/TSS/TSD) closes "
        "a self loop acc = body(x, passive(fb())) whose body has the default validity gate (prev + x | prev U {x} | prev (+) "
        "{x%3: x}), x scripted; `late` spacing leaves the start cycle to the initial delta alone; first producer write = the "
        "EMPTY delta (remove / erase of an absent element); a directed block runs every shape x initial kind x probe x "
        "{late first write, write in the start cycle, loop}. A case is non-trivial when the reader "
        "ticked in >=2 cycles; distinct by case text. "
        "Stream fbshape-ref: the feedback's producer port is a REF-SELECTED output - stdlib::if_then_else(cond, A, B) (`sel`: TSS / TSD / "
        "TSL<TS<Int>,2> / TSB{a,b}) or stdlib::switch_(key, {pass-A, pass-B}, A, B) (`swc`: TSS / TSD, both arguments valid, effective "
        "writes only) over two independently scripted writers A, B and a scripted condition, 4-13 consecutive smallest steps; per cycle any "
        "combination of {write A, write B, tick cond}: B starts as a superset / subset / disjoint / overlapping / equal / random relative of "
        "A; flips while the new target is silent (60% `clean` profile), while it ticks (`coincide`), while the old one ticks, flip back, "
        "flips in consecutive cycles, cond re-ticking with its value, selection before anything is valid, first selection with one valid "
        "target, flip onto a not-valid target (port loses its value: value clause off, deltas still compared); recorders on the producer "
        "PORT (added()/removed()/modified_items()/modified() per child and the value - never delta_value(), finding C13-A) and on the "
        "reader; a directed block runs every shape x mode x {superset, subset, disjoint, overlap, equal} x {flip + flip back, consecutive "
        "flips, old target ticks in the flip cycle, new target ticks in the flip cycle} and the three start orders; thorough adds every "
        "4-cycle history over {idle, flip, write A, write B, flip+write A, flip+write B} for TSS and TSD")
TRUSTED = ["fbshape-ref: which sink rule the model driver uses (`asbuilt`: in-place copy of delta_value() when it has a value, else "
           "capture_delta; `difference`: always the link-aware tick) is read from the source under test (the helper "
           "observed_delta_is_link_aware of fix fixes/c08_ref_feedback.patch present or not); the monitor does not depend on it",
           "the recorders read modified()/valid()/value() per position (TSS added()/removed(), TSD modified_items()/"
           "removed_keys()) of the feedback port; values are Int; capture/apply of deltas in depth is C20's subject",
           "the producer model (Out<S> mutations always tick; TSS/TSD deltas list only effective changes) is part of the "
           "correspondence, not of the theorems, which quantify over arbitrary producer deltas"]
ASSUMPTIONS = ["REF-selected producer (fbshape-ref): what the port 'writes' in a cycle is what its consumers see through the keyed "
               "accessors (property C13: own delta of the bound target, old-vs-new difference in a flip cycle); exactness of the reader's "
               "VALUE needs what a delta can express: flips select valid targets, and for TSB / TSL the new target has every child valid "
               "that the old one had (hypotheses selValid / covers of Props/C08Ref.lean)",
               "one producer write set per position and cycle; no same-cycle set+erase of one TSD key (C05 covers those)",
               "gated loop: the body is a compute node with the default validity gate (all inputs valid) and the feedback "
               "input passive (node readiness is C03's subject); its arithmetic is part of the harness and of `bodyOps`",
               "the source ranks before its readers and the sink after the producer (C01); the sink's request for t+1 is "
               "honoured unless the end time cuts it off (C02)"]

FB = [os.path.join(BUILD, "hgv_fbshape")]
SHAPES = {"ts": ("fix", 1), "tsb2": ("fix", 2), "tsb3": ("fix", 3), "tsbn": ("fix", 3), "tsl2": ("fix", 2),
          "tss": ("set", 0), "tsd": ("dict", 0), "tsbs": ("bset", 1)}
LOOP_SHAPES = ("ts", "tss", "tsd")


# ----------------------------------------------------------------------------- text <-> structures
# flat kinds: a delta is (mods {pos: val}, rems set)
# bset (TSB{a : TS, s : TSS}): a delta is dict(a=None|int, s=None|(adds set, rems set))

def parse_writes(text):
    """-> (mods {pos: val}, rems set) or None"""
    mods, rems = {}, set()
    for tok in text.split(","):
        try:
            if tok[:1] == "+":
                p = int(tok[1:]); v = 0
            elif tok[:1] == "-":
                p = int(tok[1:]); v = None
            else:
                a, b = tok.split("=")
                p, v = int(a), int(b)
        except Exception:
            return None
        if p in mods or p in rems:
            return None
        if v is None:
            rems.add(p)
        else:
            mods[p] = v
    return mods, rems


def parse_writes_b(text, authored):
    """tsbs: 0=v (field a), +e / -e (field s).  authored deltas default the entry of s to the empty set delta"""
    a, adds, rems = None, set(), set()
    for tok in text.split(","):
        try:
            if tok[:1] == "+":
                e = int(tok[1:])
                if e in adds or e in rems:
                    return None
                adds.add(e)
            elif tok[:1] == "-":
                e = int(tok[1:])
                if e in adds or e in rems:
                    return None
                rems.add(e)
            else:
                p, v = tok.split("=")
                if int(p) != 0 or a is not None:
                    return None
                a = int(v)
        except Exception:
            return None
    return dict(a=a, s=(adds, rems) if (authored or adds or rems) else None)


def parse_braces(text):
    """delta / value token list '{...}' -> (mods, rems) ; '-' -> None"""
    if text == "-":
        return None
    if not (text.startswith("{") and text.endswith("}")):
        raise ValueError(text)
    body = text[1:-1]
    if body == "":
        return {}, set()
    mods, rems = {}, set()
    for tok in body.split(","):
        if tok[:1] == "+":
            p, v = int(tok[1:]), 0
        elif tok[:1] == "-":
            p, v = int(tok[1:]), None
        elif "=" in tok:
            a, b = tok.split("=")
            p, v = int(a), int(b)
        else:
            p, v = int(tok), 0
        if p in mods or p in rems:
            raise ValueError("duplicate position " + text)
        if v is None:
            rems.add(p)
        else:
            mods[p] = v
    return mods, rems


def parse_braces_b(text):
    """tsbs delta or value: '{[0=v][,s[,+e|-e|e ...]]}' -> dict(a, s) ; '-' -> None ; 'invalid' -> 'invalid'"""
    if text in ("-", "invalid"):
        return None if text == "-" else "invalid"
    if not (text.startswith("{") and text.endswith("}")):
        raise ValueError(text)
    a, s = None, None
    for tok in ([] if text == "{}" else text[1:-1].split(",")):
        if tok == "s":
            if s is not None:
                raise ValueError(text)
            s = (set(), set())
        elif "=" in tok:
            p, v = tok.split("=")
            if int(p) != 0 or a is not None or s is not None:
                raise ValueError(text)
            a = int(v)
        else:
            if s is None:
                raise ValueError(text)
            e = int(tok[1:]) if tok[:1] in "+-" else int(tok)
            if e in s[0] or e in s[1]:
                raise ValueError(text)
            (s[1] if tok[:1] == "-" else s[0]).add(e)
    return dict(a=a, s=s)


def parse_case(case):
    """-> dict(shape, kind, npos, init, loop, probe, script=[(line_index, writes|None)], run_index) or None"""
    if len(case.lines) < 4:
        return None
    w = case.lines[1].split()
    if len(w) < 2 or w[0] != "shape" or w[1] not in SHAPES:
        return None
    kind, npos = SHAPES[w[1]]
    init, loop, probe, i = None, False, None, 2
    if i + 1 < len(w) and w[i] == "init":
        if w[i + 1] == "{}":
            if w[1] == "ts":
                return None
            init = dict(a=None, s=(set(), set())) if kind == "bset" else ({}, set())
        else:
            init = parse_writes_b(w[i + 1], True) if kind == "bset" else parse_writes(w[i + 1])
            if init is None:
                return None
            if kind == "fix" and (init[1] or any(q >= npos for q in init[0])):
                return None
        i += 2
    if i < len(w) and w[i] == "loop":
        if w[1] not in LOOP_SHAPES:
            return None
        loop = True
        i += 1
    if i + 1 < len(w) and w[i] == "probe":
        try:
            probe = int(w[i + 1])
        except ValueError:
            return None
        if not 1 <= probe < 1000:
            return None
        i += 2
    if i != len(w):
        return None
    script = []
    for li, ln in enumerate(case.lines[2:-1], start=2):
        t = ln.split()
        if len(t) != 2 or t[0] != "c":
            return None
        if t[1] == "-":
            script.append((li, None))
        elif loop:
            ws = parse_writes(t[1])
            if ws is None or ws[1] or list(ws[0]) != [0] or ws[0][0] < 0:
                return None
            script.append((li, ws[0][0]))
        else:
            ws = parse_writes_b(t[1], False) if kind == "bset" else parse_writes(t[1])
            if ws is None:
                return None
            script.append((li, ws))
    if case.lines[-1].strip() != "run" or not script:
        return None
    return dict(shape=w[1], kind=kind, npos=npos, init=init, loop=loop, probe=probe, script=script,
                run_index=len(case.lines) - 1)


class Acc:
    """An output value of one kind, mutated by deltas the way a time-series output is (reference semantics written
    independently of the Lean model: python dict/set)."""

    def __init__(self, kind):
        self.kind, self.valid, self.items = kind, False, {}

    def mutate(self, mods, rems, gated):
        """apply a delta; gated = through apply_delta (has-effect gate) rather than by a node's own mutations.
        -> None (no tick) or (observed_mods, observed_rems)"""
        if self.kind == "fix":
            if gated and not mods:
                return None
            self.items.update(mods)
            self.valid = True
            return dict(mods), set()
        if gated:
            if self.kind == "set":
                effect = bool(mods) or bool(rems) or not self.valid
            else:
                effect = bool(mods) or (any(p in self.items for p in rems) if rems else not self.valid)
            if not effect:
                return None
        orem = {p for p in rems if p in self.items}
        for p in orem:
            del self.items[p]
        if self.kind == "set":
            omod = {p: 0 for p in mods if p not in self.items}
        else:
            omod = dict(mods)
        self.items.update(omod)
        self.valid = True
        return omod, orem

    def value(self):
        return (dict(self.items), set()) if self.valid else "invalid"


class AccB:
    """TSB{a : TS, s : TSS}: a bundle delta is applied child by child, each child behind its own gate; the bundle
    ticks iff a child does"""

    def __init__(self):
        self.a, self.s = Acc("fix"), Acc("set")

    def mutate(self, d, gated):
        oa = self.a.mutate({0: d["a"]}, set(), gated) if d["a"] is not None else None
        os_ = self.s.mutate({e: 0 for e in d["s"][0]}, set(d["s"][1]), gated) if d["s"] is not None else None
        if oa is None and os_ is None:
            return None
        return dict(a=oa[0][0] if oa is not None else None, s=(set(os_[0]), set(os_[1])) if os_ is not None else None)

    def value(self):
        if not (self.a.valid or self.s.valid):
            return "invalid"
        return dict(a=self.a.items.get(0), s=(set(self.s.items), set()) if self.s.valid else None)


def fmt(kind, d):
    if d is None:
        return "-"
    if d == "invalid":
        return "invalid"
    if kind == "bset":
        toks = ["0=%d" % d["a"]] if d["a"] is not None else []
        if d["s"] is not None:
            toks.append("s")
            toks += [t for _, t in sorted([(e, "+%d" % e) for e in d["s"][0]] + [(e, "-%d" % e) for e in d["s"][1]])]
        return "{" + ",".join(toks) + "}"
    mods, rems = d
    toks = [(p, ("+%d" % p) if kind == "set" else "%d=%d" % (p, v)) for p, v in mods.items()] + [(p, "-%d" % p) for p in rems]
    return "{" + ",".join(t for _, t in sorted(toks)) + "}"


def fmt_val(kind, v):
    """a VALUE (members / valid positions) in a canonical text, for comparison only"""
    if v is None or v == "invalid":
        return "-" if v is None else "invalid"
    if kind == "bset":
        return fmt("bset", v)
    return fmt("dict" if kind != "set" else "set", v)


def parse_out_line(line, kind):
    f = line.split(" ")
    if len(f) != 5 or not (f[0].startswith("t=") and f[1].startswith("cyc=") and f[2].startswith("w=")
                           and f[3].startswith("r=") and f[4].startswith("v=")):
        raise ValueError(line)
    pb = parse_braces_b if kind == "bset" else (lambda x: "invalid" if x == "invalid" else parse_braces(x))
    return int(f[0][2:]), f[1][4:] == "1", pb(f[2][2:]), pb(f[3][2:]), pb(f[4][2:])


def body_ops(kind, prev_items, x):
    """what the validity-gated body of the loop writes (drv_fbshape.cpp Body<S>)"""
    if kind == "fix":
        return {0: prev_items.get(0, 0) + x}, set()
    if kind == "set":
        m = {p: 0 for p in prev_items}
        m[x] = 0
        return m, set()
    m = dict(prev_items)
    m[x % 3] = x
    return m, set()


def init_has_effect(kind, init):
    """does a declared initial delta tick the FRESH output (and, for the collection shapes, make it valid)?"""
    if kind == "fix":
        return bool(init[0])
    if kind == "set":
        return True
    if kind == "dict":
        return bool(init[0]) or not init[1]
    return init["a"] is not None or init["s"] is not None


def is_empty_delta(kind, d):
    if kind == "bset":
        return d["a"] is None and d["s"] is not None and not d["s"][0] and not d["s"][1]
    return not d[0] and not d[1]


# ----------------------------------------------------------------------------- the property on ONE implementation trace

def check_trace(case, out):
    bad, feats = [], set()
    p = parse_case(case)
    if p is None:
        return bad, feats
    kind, loop, probe, init = p["kind"], p["loop"], p["probe"], p["init"]
    feats.add("shape=" + p["shape"])
    if init is None:
        feats.add("no-initial-delta")
    else:
        feats.add("initial-delta")
        feats.add("initial=EMPTY" if is_empty_delta(kind, init) else "initial=non-empty")
        if kind in ("set", "dict") and init[1]:
            feats.add("initial-with-removals" + ("-only" if not init[0] else ""))
        if kind in ("set", "dict", "bset"):
            feats.add("collection-initial:%s" % ("validates" if init_has_effect(kind, init) else "no-effect"))
        elif not init_has_effect(kind, init):
            feats.add("empty-initial-on-shape-without-empty-state(control)")
    if loop:
        feats.add("loop")
    if probe is not None:
        feats.add("probe" + ("@start" if probe == 1 else ""))
    if len(out) != len(case.lines):
        return ["[lines] %d output lines for %d input lines" % (len(out), len(case.lines))], feats
    res = out[p["run_index"]]
    if not res.startswith("ok"):
        return ["[run] the run failed: %s" % res[:60]], feats
    if res != "ok extra=0":
        bad.append("[quiescence] engine cycles at times outside the scripted range: %s" % res)
    new = (lambda: AccB()) if kind == "bset" else (lambda: Acc(kind))
    reader = new()           # fold of everything delivered so far = initial delta + writes up to the previous cycle
    prod = new()             # the producer's own output (line) / the body's output (loop)
    pending = init           # delta due at this cycle: written one smallest step earlier (initial delta at the start)
    n_deliv, n_ticks, prev_written = 0, 0, False
    last = len(p["script"]) - 1
    coll_init = init is not None and kind in ("set", "dict", "bset") and init_has_effect(kind, init)
    first_write_seen = False
    # the loop's specification: a plain fold over the ticks of x, no timing in it (prev = the fed-back value)
    spec_prev, spec_acc, spec_w, seen_w = new(), new(), [], []
    if loop and init is not None:
        spec_prev.mutate(init[0], init[1], gated=True)

    def mut(acc, d, gated):
        return acc.mutate(d, gated) if kind == "bset" else acc.mutate(d[0], d[1], gated)

    for k, (li, ops) in enumerate(p["script"]):
        t = 1 + k
        try:
            ot, cyc, w, r, v = parse_out_line(out[li], kind)
        except Exception:
            return bad + ["[lines] unreadable cycle line %r" % out[li][:80]], feats
        if ot != t:
            bad.append("[lines] cycle line %d reports time %d, expected %d" % (k, ot, t))
        # -- the reader side: exactly what was written one smallest step earlier (the declared initial delta at the start)
        what = ("written at t=%d" % (t - 1)) if k else "declared initial delta"
        if pending is None:
            exp_r = None
        else:
            exp_r = mut(reader, pending, True)
            n_deliv += 1
            if exp_r is None:
                feats.add("empty-delta-delivery-without-tick")
            elif fmt(kind, exp_r) != fmt(kind, pending):
                feats.add("delivery-partly-ineffective(initial-delta-overlap)")
            if exp_r is not None and is_empty_delta(kind, pending) and kind != "fix":
                feats.add("validating-tick-with-empty-delta" + ("(initial)" if k == 0 and init is not None else "(written)"))
        exp_v = reader.value() if exp_r is not None else None
        if k == 0 and coll_init:
            # "a declared initial value at the start time": the collection must be valid from the start time on
            if r is None or v is None or v == "invalid":
                bad.append("[initial] the declared initial value did not arrive at the start time: t=%d the reader's port %s; "
                           "declared initial delta %s must tick the reader and leave the collection valid%s"
                           % (t, "did not tick" if r is None else "is not valid", fmt(kind, init),
                              " (and empty)" if is_empty_delta(kind, init) else ""))
        if fmt(kind, r) != fmt(kind, exp_r):
            if kind == "bset":
                rm, rr = ({}, set())
                em, er = ({}, set())
            else:
                rm, rr = r if r is not None else ({}, set())
                em, er = exp_r if exp_r is not None else ({}, set())
            if exp_r is None and w is not None and fmt(kind, r) == fmt(kind, w):
                bad.append("[same-cycle] the reader saw a delta in the cycle that wrote it: t=%d %s" % (t, fmt(kind, r)))
            elif exp_r is None:
                bad.append("[untimely] the reader ticked although nothing was written one step earlier: t=%d saw %s, nothing written at t=%d%s"
                           % (t, fmt(kind, r), t - 1, "" if k else " and no initial delta was declared"))
            elif r is None:
                bad.append("[lost] a written delta was not delivered one step later: t=%d the reader did not tick; %s: %s"
                           % (t, what, fmt(kind, exp_r)))
            elif kind == "bset":
                bad.append("[value] the reader's delta differs from the written one: t=%d saw %s, %s %s"
                           % (t, fmt(kind, r), what, fmt(kind, exp_r)))
            else:
                extra = sorted(set(rm) - set(em)) + sorted(rr - er)
                missing = sorted(set(em) - set(rm)) + sorted(er - rr)
                if extra:
                    bad.append("[spurious] position(s) nobody wrote ticked at the reader: t=%d position(s) %s (reader saw %s, the delta written at t=%d was %s)"
                               % (t, extra, fmt(kind, r), t - 1, fmt(kind, exp_r)))
                elif missing:
                    bad.append("[lost] a written delta was not delivered completely: t=%d position(s) %s written at t=%d did not tick at the reader: saw %s, written %s"
                               % (t, missing, t - 1, fmt(kind, r), fmt(kind, exp_r)))
                else:
                    bad.append("[value] the reader's delta differs in values from the written one: t=%d saw %s, written %s"
                               % (t, fmt(kind, r), fmt(kind, exp_r)))
        elif r is not None:
            n_ticks += 1
        if exp_r is not None and r is not None and fmt_val(kind, v) != fmt_val(kind, exp_v):
            bad.append("[accumulated] the reader's value is not the fold of the written deltas: t=%d value %s, fold %s"
                       % (t, fmt_val(kind, v), fmt_val(kind, exp_v)))
        # -- validity seen by the probe (the recorder is evaluated at `probe` whether or not the port ticked)
        if probe == t:
            want = reader.value()
            feats.add("probe-sees-" + ("invalid" if want == "invalid" else "valid"))
            if v is None:
                bad.append("[lines] no probe record at t=%d" % t)
            elif (v == "invalid") != (want == "invalid"):
                bad.append("[validity] the feedback port is %s at t=%d but must be %s (%s)"
                           % ("NOT valid" if v == "invalid" else "valid", t, "NOT valid" if want == "invalid" else "valid",
                              ("declared initial delta %s" % fmt(kind, init)) if init is not None else "no initial delta declared"))
            elif r is None and fmt_val(kind, v) != fmt_val(kind, want):
                bad.append("[accumulated] the reader's value is not the fold of the written deltas: t=%d value %s, fold %s"
                           % (t, fmt_val(kind, v), fmt_val(kind, want)))
        # -- producer side
        if loop:
            # the body runs iff x ticked and the fed-back value is valid (default validity gate)
            if ops is not None and reader.valid:
                exp_w = prod.mutate(*body_ops(kind, reader.items, ops), gated=False)
                feats.add("loop-body-ran")
                if not first_write_seen:
                    feats.add("loop-started-on-first-tick-of-x")
            else:
                exp_w = None
                if ops is not None:
                    feats.add("loop-body-gated-off(prev-not-valid)")
            if ops is not None:
                first_write_seen = True
                # the specification fold
                if spec_prev.valid:
                    sw = spec_acc.mutate(*body_ops(kind, spec_prev.items, ops), gated=False)
                    spec_w.append((t, fmt(kind, sw)))
                    spec_prev.mutate(sw[0], sw[1], gated=True)
            if w is not None:
                seen_w.append((t, fmt(kind, w)))
            if fmt(kind, w) != fmt(kind, exp_w):
                if exp_w is not None and w is None:
                    bad.append("[loop] the validity-gated loop body did not run: t=%d x ticked with %d and the fed-back value must be valid "
                               "(%s), expected the body to write %s" % (t, ops, ("declared initial delta %s" % fmt(kind, init)) if init is not None
                                                                     else "delivered earlier", fmt(kind, exp_w)))
                else:
                    bad.append("[loop] the loop body wrote %s at t=%d, the fold of x and the fed-back value gives %s"
                               % (fmt(kind, w), t, fmt(kind, exp_w)))
        else:
            if ops is None:
                exp_w = None
            else:
                if kind == "fix" and any(q in prod.items for q in range(p["npos"]) if q not in ops[0]) and len(ops[0]) < p["npos"]:
                    feats.add("strict-subset-written-while-other-position-valid")
                if kind == "fix" and any(prod.items.get(q) == x for q, x in ops[0].items()):
                    feats.add("equal-value-rewritten")
                if kind == "fix" and p["npos"] > 1 and len(ops[0]) == p["npos"]:
                    feats.add("all-positions-written-together")
                if kind in ("set", "dict") and (any(q in prod.items for q in ops[0]) and kind == "set" or any(q not in prod.items for q in ops[1])):
                    feats.add("no-op-add-or-remove")
                if kind in ("set", "dict") and ops[1]:
                    feats.add("removal-written")
                if kind == "bset":
                    feats.add("bundle-write:" + "+".join(n for n, on in (("a", ops["a"] is not None), ("s", ops["s"] is not None)) if on))
                    if ops["s"] is None and not reader.s.valid and not prod.s.valid:
                        feats.add("bundle-write-of-a-while-s-not-valid")
                exp_w = mut(prod, ops, False)
                if not first_write_seen and kind != "fix" and is_empty_delta(kind, exp_w if kind != "bset" else dict(a=exp_w["a"], s=exp_w["s"])):
                    feats.add("first-producer-write=EMPTY")
                first_write_seen = True
                if k == 0:
                    feats.add("write-in-start-cycle")
                if k == last:
                    feats.add("write-in-last-cycle-before-end")
                if prev_written:
                    feats.add("writes-in-consecutive-cycles")
            if fmt(kind, w) != fmt(kind, exp_w):
                bad.append("[producer] the producer did not expose what the script wrote: t=%d exposed %s, wrote %s" % (t, fmt(kind, w), fmt(kind, exp_w)))
        # -- quiescence: a cycle runs only when the producer is scripted, a delivery is due or the probe is
        exp_cyc = ops is not None or pending is not None or probe == t
        if cyc != exp_cyc:
            if cyc:
                bad.append("[quiescence] the engine ran a cycle although nothing is due: t=%d, nothing written at t=%d and the producer is idle"
                           % (t, t - 1))
            elif exp_r is not None:
                bad.append("[lost] a written delta was not delivered one step later: no engine cycle at t=%d although a delivery is due" % t)
            # a cycle skipped for a delivery that has no effect on the reader is not a loss
        if ops is None and pending is None:
            feats.add("idle-step(gap)")
        prev_written = ops is not None
        pending = (w if w is not None else None)
        if pending is not None and k == last:
            feats.add("undelivered-write-at-end")
    if loop:
        # "the gated loop's output stream equals the fold"
        if seen_w != spec_w:
            i = next((j for j in range(max(len(seen_w), len(spec_w))) if seen_w[j:j + 1] != spec_w[j:j + 1]), 0)
            bad.append("[loop-fold] the loop's output stream is not the fold over the ticks of x: entry %d is %s, the fold gives %s "
                       "(stream %s, fold %s)" % (i, seen_w[i] if i < len(seen_w) else "missing", spec_w[i] if i < len(spec_w) else "nothing",
                                                 seen_w[:6], spec_w[:6]))
        feats.add("loop-writes=%s" % (len(spec_w) if len(spec_w) < 3 else "3+"))
        if init is None:
            feats.add("loop-without-initial(never-starts)")
    feats.add("deliveries=%s" % (n_deliv if n_deliv < 3 else "3-5" if n_deliv <= 5 else "6+"))
    if n_ticks >= 2:
        feats.add("reader-ticked>=2")
    return bad, feats


def monitor(stream, case, out):
    if stream == "fbshape-ref":
        return ref_monitor(case, out)
    return check_trace(case, out)[0][:3]


def features(stream, case, out):
    if stream == "fbshape-ref":
        return sorted(ref_check(case, out)[1])
    return sorted(check_trace(case, out)[1])


def nontrivial(stream, case, out):
    if stream == "fbshape-ref":
        return "reader-ticked>=2" in ref_check(case, out)[1]
    return "reader-ticked>=2" in check_trace(case, out)[1]


def valid_case(stream, case, impl_out, model_out):
    if stream == "fbshape-ref":
        p = ref_parse(case)
        return p is not None and not any("bad-op" in l for l in impl_out) and (p["mode"] != "swc" or ref_swc_in_scope(p))
    return parse_case(case) is not None and not any("bad-op" in l for l in impl_out)


# ----------------------------------------------------------------------------- generator

def w2s(kind, mods, rems):
    toks = [(p, ("+%d" % p) if kind in ("set", "bset") else "%d=%d" % (p, v)) for p, v in mods.items()] + [(p, "-%d" % p) for p in rems]
    return ",".join(t for _, t in sorted(toks))


def b2s(a, adds, rems):
    """tsbs writes"""
    toks = (["0=%d" % a] if a is not None else []) + [t for _, t in sorted([(e, "+%d" % e) for e in adds] + [(e, "-%d" % e) for e in rems])]
    return ",".join(toks)


def gen_case(rng, idx):
    shape = rng.choice(["ts", "tsb2", "tsb2", "tsb3", "tsb3", "tsbn", "tsbn", "tsl2", "tsl2", "tss", "tss", "tss", "tsd", "tsd",
                        "tsd", "tsbs", "tsbs"])
    kind, npos = SHAPES[shape]
    n = rng.choice([3, 4, 5, 6, 6, 7, 8, 9, 10, 12, 14])
    spacing = rng.choice(["consecutive", "gaps", "gaps", "mixed", "mixed", "sparse", "late"])
    counter = [10]
    loop = shape in LOOP_SHAPES and rng.random() < 0.3

    def val(p, prev):
        m = values_mode
        if m == "distinct":
            counter[0] += 1
            return counter[0]
        if m == "equal" and p in prev and rng.random() < 0.7:
            return prev[p]
        return rng.randrange(-3, 6)

    values_mode = rng.choice(["distinct", "distinct", "small", "equal"])
    # the declared initial delta: none / with content / the canonical EMPTY delta / (collections) with removals
    init_text = None
    im = rng.choice(["none", "none", "none", "content", "content", "content", "empty", "empty", "removals"])
    if im == "content" or (im == "removals" and kind in ("fix", "bset") and shape != "tsbs"):
        if kind == "fix":
            ps = rng.sample(range(npos), rng.randrange(1, npos + 1))
            init_text = w2s(kind, {q: (0 if rng.random() < 0.25 else val(q, {})) for q in ps}, set())
        elif kind == "set":
            init_text = w2s(kind, {q: 0 for q in rng.sample(range(5), rng.randrange(1, 4))}, set())
        elif kind == "dict":
            init_text = w2s(kind, {q: val(q, {}) for q in rng.sample(range(4), rng.randrange(1, 3))}, set())
        else:
            a = val(0, {}) if rng.random() < 0.6 else None
            adds = rng.sample(range(5), rng.randrange(0 if a is not None else 1, 3))
            init_text = b2s(a, adds, [])
    elif im == "empty":
        init_text = "0=0" if shape == "ts" else "{}"        # a TS has no empty delta: the default-looking 0 is the control
    elif im == "removals":
        if kind == "set":
            rs = rng.sample(range(5), rng.randrange(1, 3))
            ads = [q for q in rng.sample(range(5), rng.randrange(0, 2)) if q not in rs]
            init_text = w2s(kind, {q: 0 for q in ads}, set(rs))
        elif kind == "dict":
            rs = rng.sample(range(4), rng.randrange(1, 3))
            ms = [q for q in rng.sample(range(4), rng.randrange(0, 2)) if q not in rs]
            init_text = w2s(kind, {q: val(q, {}) for q in ms}, set(rs))
        else:
            rs = rng.sample(range(5), rng.randrange(1, 3))
            init_text = b2s(val(0, {}) if rng.random() < 0.3 else None, [], rs)
    probe = None
    if rng.random() < 0.3:
        probe = 1 if rng.random() < 0.7 else rng.randrange(1, n + 1)
    head = "shape %s%s%s%s" % (shape, (" init " + init_text) if init_text else "", " loop" if loop else "",
                               (" probe %d" % probe) if probe else "")
    pattern = rng.choice(["subset-after-full", "one-by-one", "all-every", "single", "random", "random", "alternate"]) \
        if kind == "fix" and npos > 1 else "random"
    first_empty = kind in ("set", "dict", "bset") and not loop and rng.random() < 0.15   # first producer write = the EMPTY delta
    single = rng.randrange(max(npos, 1))
    late = rng.randrange(1, n)
    cur = {}                  # producer's value
    script = []
    written_cycles = 0
    for k in range(n):
        if spacing == "consecutive":
            active = True
        elif spacing == "gaps":
            active = rng.random() < 0.6
        elif spacing == "sparse":
            active = rng.random() < 0.3
        elif spacing == "late":
            active = k >= late and rng.random() < 0.7          # nothing in the start cycle: only the initial delta is due there
        else:
            active = rng.random() < (0.85 if (k // 3) % 2 == 0 else 0.3)
        if spacing != "late":
            if k == 0 and rng.random() < 0.5:
                active = True
        if k == n - 1 and rng.random() < 0.4:
            active = True
        if not active:
            script.append(None)
            continue
        if loop:
            script.append("0=%d" % rng.choice([0, 1, 1, 2, 3, 4, 5, 7]))
            written_cycles += 1
            continue
        mods, rems = {}, set()
        if kind == "fix":
            if npos == 1:
                ps = [0]
            elif pattern == "subset-after-full":
                ps = list(range(npos)) if written_cycles == 0 else rng.sample(range(npos), rng.randrange(1, npos))
            elif pattern == "one-by-one":
                ps = [written_cycles] if written_cycles < npos else rng.sample(range(npos), rng.randrange(1, npos + 1))
            elif pattern == "all-every":
                ps = list(range(npos))
            elif pattern == "single":
                ps = [single]
            elif pattern == "alternate":
                ps = [written_cycles % npos]
            else:
                ps = rng.sample(range(npos), rng.randrange(1, npos + 1))
            for q in ps:
                mods[q] = val(q, cur)
            cur.update(mods)
            text = w2s(kind, mods, rems)
        elif kind == "set" or kind == "bset":
            a = None
            if kind == "bset":
                r = rng.random()
                a = val(0, {}) if r < 0.6 else None
                picks = rng.sample(range(5), rng.choice([1, 1, 2])) if (r >= 0.6 or rng.random() < 0.4) else []
            else:
                picks = rng.sample(range(5), rng.choice([1, 1, 2, 2, 3]))
            if first_empty and written_cycles == 0:
                picks = [q for q in (picks or [rng.randrange(5)]) if q not in cur]
                rems = set(picks or [rng.randrange(5)])            # removing absent elements: the producer ticks with {}
                if kind == "bset":
                    a = None
            else:
                for q in picks:
                    present = q in cur
                    noop = rng.random() < 0.12
                    if present != noop:
                        rems.add(q)
                    else:
                        mods[q] = 0
            for q in rems:
                cur.pop(q, None)
            cur.update(mods)
            text = b2s(a, list(mods), list(rems)) if kind == "bset" else w2s(kind, mods, rems)
        else:
            if first_empty and written_cycles == 0:
                rems = {rng.randrange(4)}                          # erase of an absent key: the producer ticks with {}
            else:
                for q in rng.sample(range(4), rng.choice([1, 1, 2, 2, 3])):
                    present = q in cur
                    r = rng.random()
                    if (present and r < 0.4) or (not present and r < 0.08):
                        rems.add(q)
                    else:
                        mods[q] = val(q, cur)
            for q in rems:
                cur.pop(q, None)
            cur.update(mods)
            text = w2s(kind, mods, rems)
        written_cycles += 1
        script.append(text)
    if all(s is None for s in script):
        script[rng.randrange(n)] = "0=1" if (loop or kind in ("fix", "dict", "bset")) else "+0"
    lines = ["case %d" % idx, head]
    for s in script:
        lines.append("c -" if s is None else "c " + s)
    lines.append("run")
    return Case(lines, {"pattern": pattern, "spacing": spacing})


def directed(start_idx):
    """the start-time cases by name: every shape x {no initial, EMPTY initial, initial with content} x
    {line with a late first write, line written in the start cycle, loop} with a probe at the start time"""
    cases, idx = [], start_idx
    content = {"ts": "0=7", "tsb2": "1=7", "tsb3": "0=7,2=9", "tsbn": "0=7,2=9", "tsl2": "1=5", "tss": "+7", "tsd": "5=50", "tsbs": "0=7,+2"}
    write = {"ts": "0=1", "tsb2": "0=1", "tsb3": "1=1", "tsbn": "1=1", "tsl2": "0=1", "tss": "+1", "tsd": "1=10", "tsbs": "0=1"}
    for shape in SHAPES:
        inits = [None, content[shape], "0=0" if shape == "ts" else "{}"]
        if shape in ("tss", "tsd"):
            inits.append("-3")
        if shape == "tsbs":
            inits += ["-3", "0=7"]
        for init in inits:
            for probe in (None, 1, 2):
                for scr in (["-", "-", write[shape], "-"], [write[shape], "-", write[shape], "-"]):
                    head = "shape %s%s%s" % (shape, (" init " + init) if init else "", (" probe %d" % probe) if probe else "")
                    cases.append(Case(["case %d" % idx, head] + ["c " + s for s in scr] + ["run"])); idx += 1
                if shape in LOOP_SHAPES:
                    for scr in (["0=1", "-", "0=2", "0=3", "-"], ["-", "-", "0=4", "0=4", "-"]):
                        head = "shape %s%s loop%s" % (shape, (" init " + init) if init else "", (" probe %d" % probe) if probe else "")
                        cases.append(Case(["case %d" % idx, head] + ["c " + s for s in scr] + ["run"])); idx += 1
    return cases


def exhaustive_small(start_idx):
    cases, idx = [], start_idx
    # every TSB{a,b} history of 4 cycles (each cycle: nothing / a / b / both) x every initial delta, one trailing idle step
    opts = [None, {0: 0}, {1: 0}, {0: 0, 1: 0}]
    for init in opts:
        for hist in itertools.product(opts, repeat=4):
            if all(h is None for h in hist):
                continue
            c = 20
            lines = ["case %d" % idx, "shape tsb2" + ((" init " + w2s("fix", {q: 7 + q for q in init}, set())) if init else "")]
            for h in hist:
                if h is None:
                    lines.append("c -")
                else:
                    m = {}
                    for q in sorted(h):
                        c += 1
                        m[q] = c
                    lines.append("c " + w2s("fix", m, set()))
            lines += ["c -", "run"]
            cases.append(Case(lines)); idx += 1
    # every TSS history of 4 cycles over elements {1,2}: per cycle nothing / +1 / -1 / +2 / -2 / +1,+2 / -1,-2 / +1,-2 / -1,+2
    sopts = [None, ({1: 0}, set()), ({}, {1}), ({2: 0}, set()), ({}, {2}), ({1: 0, 2: 0}, set()), ({}, {1, 2}),
             ({1: 0}, {2}), ({2: 0}, {1})]
    for init in (None, "+1", "{}"):
        for hist in itertools.product(sopts, repeat=4):
            if all(h is None for h in hist):
                continue
            lines = ["case %d" % idx, "shape tss" + ((" init " + init) if init else "")]
            for h in hist:
                lines.append("c -" if h is None else "c " + w2s("set", h[0], h[1]))
            lines += ["c -", "run"]
            cases.append(Case(lines)); idx += 1
    # every loop history of 5 cycles over x in {nothing, 0, 1, 4} x every kind x {no initial, EMPTY, content}
    for shape, content in (("ts", "0=0"), ("tss", "+1"), ("tsd", "1=7")):
        for init in (None, content) + (("{}",) if shape != "ts" else ()):
            for hist in itertools.product([None, 0, 1, 4], repeat=5):
                if all(h is None for h in hist):
                    continue
                lines = ["case %d" % idx, "shape %s%s loop" % (shape, (" init " + init) if init else "")]
                lines += ["c -" if h is None else "c 0=%d" % h for h in hist] + ["c -", "run"]
                cases.append(Case(lines)); idx += 1
    return cases



# ============================================================================= REF-selected producer port (fbshape-ref)

REF_SHAPES = {"tss": ("set", 0), "tsd": ("dict", 0), "tsb2": ("fix", 2), "tsl2": ("fix", 2)}
KNOWN_CLASSES = ("[C08-ref-A]", "[C08-ref-B]")


def sink_policy():
    """which rule the source under test has in evaluate_feedback_sink: `difference` once the link-aware capture of fix
    fixes/c08_ref_feedback.patch is in (its helper is named observed_delta_is_link_aware), else `asbuilt`"""
    try:
        from vlib import REPO
        src = open(os.path.join(REPO, "src", "hgraph", "runtime", "feedback_node.cpp")).read()
    except Exception:
        return "asbuilt"
    return "difference" if "observed_delta_is_link_aware" in src else "asbuilt"


def ref_parse(case):
    """-> dict(shape, kind, npos, mode, script=[(line_index, sel|None, a|None, b|None)], run_index) or None"""
    if len(case.lines) < 4:
        return None
    w = case.lines[1].split()
    if len(w) != 3 or w[0] != "shape" or w[1] not in REF_SHAPES or w[2] not in ("sel", "swc"):
        return None
    kind, npos = REF_SHAPES[w[1]]
    if w[2] == "swc" and kind == "fix":
        return None
    script = []
    for li, ln in enumerate(case.lines[2:-1], start=2):
        t = ln.split()
        if len(t) < 2 or len(t) > 4 or t[0] != "c":
            return None
        sel, a, b, stage = None, None, None, 0
        if t[1:] != ["-"]:
            for tok in t[1:]:
                if tok in ("s=a", "s=b"):
                    if stage >= 1:
                        return None
                    stage, sel = 1, tok == "s=a"
                elif tok[:2] in ("a=", "b=") and len(tok) > 2:
                    st = 2 if tok[0] == "a" else 3
                    if stage >= st:
                        return None
                    stage = st
                    ws = parse_writes(tok[2:])
                    if ws is None:
                        return None
                    if kind == "fix" and (ws[1] or any(q >= npos for q in ws[0])):
                        return None
                    if tok[0] == "a":
                        a = ws
                    else:
                        b = ws
                else:
                    return None
        script.append((li, sel, a, b))
    if case.lines[-1].strip() != "run" or not script:
        return None
    return dict(shape=w[1], kind=kind, npos=npos, mode=w[2], script=script, run_index=len(case.lines) - 1)


def ref_swc_in_scope(p):
    """switch_ forwards a reference to the selected argument only while (a) the selected argument is valid and (b) its
    ticks change something; outside of that it resets / filters the output itself (C12's subject, not a feedback matter)"""
    cur = {True: None, False: None}
    for (_, sel, a, b) in p["script"]:
        for tgt, ws in ((True, a), (False, b)):
            if ws is None:
                continue
            c = cur[tgt] if cur[tgt] is not None else {}
            if cur[tgt] is not None:
                if any(q not in c for q in ws[1]) or (p["kind"] == "set" and any(q in c for q in ws[0])):
                    return False
            elif ws[1] or not ws[0]:
                return False
            for q in ws[1]:
                c.pop(q, None)
            c.update(ws[0])
            cur[tgt] = c
        if sel is not None and cur[sel] is None:
            return False
    return True


def ref_out_line(line, kind):
    f = line.split(" ")
    if len(f) != 6 or not (f[0].startswith("t=") and f[1].startswith("cyc=") and f[2].startswith("w=") and f[3].startswith("r=")
                           and f[4].startswith("v=") and f[5].startswith("pv=")):
        raise ValueError(line)
    pb = lambda x: "invalid" if x == "invalid" else parse_braces(x)
    return int(f[0][2:]), f[1][4:] == "1", pb(f[2][2:]), pb(f[3][2:]), pb(f[4][2:]), pb(f[5][3:])


def ref_check(case, out):
    """The property on ONE implementation trace of the REF-selected-producer stream, from the recorders alone:
       the reader's tick at t+1 is the producer PORT's tick at t (nothing lost - removals included -, nothing invented,
       nothing in the cycle of the write), the reader's value at t+1 is the port's value at t, and is the fold of what
       was delivered.  The script is used only to classify a cycle (flip? new target written? port ever invalidated?)."""
    bad, feats = [], set()
    p = ref_parse(case)
    if p is None:
        return bad, feats
    kind, npos = p["kind"], p["npos"]
    feats.add("ref:shape=" + p["shape"])
    feats.add("ref:mode=" + p["mode"])
    if len(out) != len(case.lines):
        return ["[lines] %d output lines for %d input lines" % (len(out), len(case.lines))], feats
    res = out[p["run_index"]]
    if not res.startswith("ok"):
        return ["[run] the run failed: %s" % res[:60]], feats
    if res != "ok extra=0":
        bad.append("[quiescence] engine cycles at times outside the scripted range: %s" % res)
    reader = Acc(kind)            # fold of everything the PORT ticked with up to the previous cycle
    pending, pend_pv, pend_class = None, None, None
    # script-side classification only (which positions of A / B are valid, what is selected)
    tv = {True: set(), False: set()}
    tvalid = {True: False, False: False}
    cond, port_valid_seen, value_comparable = None, False, True
    n_ticks, n_flips, known_seen = 0, 0, False
    last = len(p["script"]) - 1
    for k, (li, sel, a, b) in enumerate(p["script"]):
        t = 1 + k
        try:
            ot, cyc, w, r, v, pv = ref_out_line(out[li], kind)
        except Exception:
            return bad + ["[lines] unreadable cycle line %r" % out[li][:80]], feats
        if ot != t:
            bad.append("[lines] cycle line %d reports time %d, expected %d" % (k, ot, t))
        # ---- the reader side: exactly what the port ticked with one smallest step earlier
        before = (dict(reader.items), reader.valid)
        if pending is None:
            exp_r = None
        else:
            exp_r = reader.mutate(pending[0], pending[1], True)
            if exp_r is None:
                feats.add("ref:empty-port-tick-delivered-without-reader-tick")
        exp_v = reader.value() if exp_r is not None else None
        mismatch = fmt(kind, r) != fmt(kind, exp_r)
        if mismatch:
            rm, rr = r if r is not None else ({}, set())
            em, er = exp_r if exp_r is not None else ({}, set())
            tag = pend_class if pend_class else None
            if pending is None and w is not None and fmt(kind, r) == fmt(kind, w):
                bad.append("[same-cycle] the reader saw a delta in the cycle that wrote it: t=%d %s" % (t, fmt(kind, r)))
            elif pending is None:
                bad.append("[untimely] the reader ticked although the producer port did not tick one step earlier: t=%d saw %s" % (t, fmt(kind, r)))
            else:
                missing = sorted(set(em) - set(rm)) + sorted(er - rr)
                extra = sorted(set(rm) - set(em)) + sorted(rr - er)
                what = ("position(s) %s of the port's tick did not arrive" % missing if missing else
                        "position(s) %s nobody wrote ticked" % extra if extra else "values differ")
                if exp_r is None:
                    what = "an empty tick of the port must not re-tick a valid collection, something else was delivered"
                elif r is None:
                    what = "nothing arrived"
                bad.append("%s the reader's tick is not the producer port's tick of one step earlier: t=%d the reader saw %s, the port "
                           "(REF-selected: %s) ticked at t=%d with %s - %s"
                           % (tag or ("[lost]" if missing else "[spurious]" if (extra or exp_r is None) else "[value]"), t, fmt(kind, r),
                              p["mode"], t - 1, fmt(kind, pending), what))
            if tag:
                known_seen = True
            # go on from what the reader really holds (so that one loss is reported once, not in every later cycle)
            if r is not None and v not in (None, "invalid"):
                reader.items, reader.valid = dict(v[0]), True
            else:
                reader.items, reader.valid = before
        elif r is not None:
            n_ticks += 1
            if fmt_val(kind, v) != fmt_val(kind, exp_v):
                bad.append("[accumulated] the reader's value is not the fold of the delivered ticks: t=%d value %s, fold %s"
                           % (t, fmt_val(kind, v), fmt_val(kind, exp_v)))
            elif value_comparable and not known_seen and pend_pv is not None and fmt_val(kind, v) != fmt_val(kind, pend_pv):
                bad.append("[stale] the reader's value at t=%d is %s but the producer port's value at t=%d was %s"
                           % (t, fmt_val(kind, v), t - 1, fmt_val(kind, pend_pv)))
        # ---- script-side classification of this cycle
        for tgt, ws in ((True, a), (False, b)):
            if ws is not None:
                tvalid[tgt] = True
                if kind == "fix":
                    tv[tgt] |= set(ws[0])
        flipped = sel is not None and cond != sel
        old_cond = cond
        if flipped:
            cond = sel
        elif sel is not None:
            feats.add("ref:cond-tick-same-value(dedup)")
        new_written = cond is not None and (a if cond else b) is not None
        cls = None
        if flipped:
            n_flips += 1
            nv = tvalid[cond]
            ov = old_cond is not None and tvalid[old_cond] and port_valid_seen
            if not nv:
                feats.add("ref:flip-onto-not-valid-target")
                if port_valid_seen:
                    value_comparable = False       # the port lost its value: no delta can say so (documented)
                    feats.add("ref:port-invalidated(value-clause-off)")
            elif not ov:
                feats.add("ref:first-valid-selection" + ("(only-one-target-valid)" if not (tvalid[True] and tvalid[False]) else ""))
            else:
                feats.add("ref:flip-valid-to-valid" + ("+new-target-ticks" if new_written else "(new-target-silent)"))
                if (b if cond else a) is not None:
                    feats.add("ref:flip+old-target-ticks")
                if kind == "fix" and not tv[cond] >= tv[old_cond]:
                    value_comparable = False       # the new target has fewer valid children: the reader keeps the others
                    feats.add("ref:fix-flip-onto-fewer-valid-children(value-clause-off)")
            # the two listed losses of the tree before fix c08_ref_feedback: the sink copies delta_value(), which is not link-aware
            if nv and kind != "fix" and new_written and p["mode"] == "sel":
                cls = "[C08-ref-A]"
            if nv and p["shape"] == "tsb2":
                cls = "[C08-ref-B]"
            if k and p["script"][k - 1][1] is not None:
                feats.add("ref:cond-ticks-in-consecutive-cycles")
        if w is not None:
            port_valid_seen = True
            if flipped and kind != "fix" and old_cond is not None:
                feats.add("ref:flip-delta:" + ("+".join(x for x, on in (("adds", bool(w[0]) and kind == "set"), ("mods", bool(w[0]) and kind == "dict"),
                                                                         ("removals", bool(w[1]))) if on) or "empty"))
            if k == last:
                feats.add("ref:port-tick-in-last-cycle(undelivered)")
        # ---- quiescence: a cycle runs only when the script does something or a delivery is due
        # (if_then_else is evaluated once at the start time: that cycle always runs)
        exp_cyc = (sel is not None or a is not None or b is not None) or pending is not None or (k == 0 and p["mode"] == "sel")
        if cyc != exp_cyc:
            if cyc:
                bad.append("[quiescence] the engine ran a cycle although nothing is due: t=%d" % t)
            elif exp_r is not None:
                bad.append("[lost] a port tick was not delivered one step later: no engine cycle at t=%d although a delivery is due" % t)
        if (w is None) != (pv is None):
            bad.append("[lines] w / pv disagree at t=%d" % t)
        pending = w if w is not None else None
        pend_pv = pv if w is not None else None
        pend_class = cls if w is not None else None
    feats.add("ref:flips=%s" % (n_flips if n_flips < 4 else "4+"))
    if n_ticks >= 2:
        feats.add("reader-ticked>=2")
    return bad, feats


def ref_monitor(case, out):
    bad = ref_check(case, out)[0]
    # a failure of a listed class must not hide a different failure on the same input
    other = [m for m in bad if not m.startswith(KNOWN_CLASSES)]
    return (other or bad)[:3]


def gen_ref_case(rng, idx):
    shape = rng.choice(["tss"] * 5 + ["tsd"] * 5 + ["tsl2"] * 2 + ["tsb2"])
    kind, npos = REF_SHAPES[shape]
    mode = "swc" if kind != "fix" and rng.random() < 0.25 else "sel"
    prof = rng.choice(["clean"] * 6 + ["coincide"] * 2 + ["any"] * 2)
    n = rng.choice([4, 5, 6, 6, 7, 8, 8, 9, 10, 12])
    counter = [10]

    def val():
        counter[0] += 1
        return counter[0] if rng.random() < 0.7 else rng.randrange(0, 4)

    # contents the two targets start with: B relative to A is a superset / subset / disjoint / overlapping / equal
    rel = rng.choice(["superset", "subset", "disjoint", "overlap", "overlap", "equal", "random"])
    univ = list(range(6))
    if kind == "fix":
        ca = set(range(npos)) if rng.random() < 0.8 else {rng.randrange(npos)}
        cb = set(range(npos)) if rng.random() < 0.8 else {rng.randrange(npos)}
    else:
        ca = set(rng.sample(univ, rng.randrange(1, 4)))
        rest = [q for q in univ if q not in ca]
        if rel == "superset":
            cb = ca | set(rng.sample(rest, rng.randrange(1, 3)))
        elif rel == "subset":
            cb = set(rng.sample(sorted(ca), rng.randrange(0, len(ca)))) if len(ca) > 1 or rng.random() < 0.5 else set(ca)
        elif rel == "disjoint":
            cb = set(rng.sample(rest, rng.randrange(1, 3)))
        elif rel == "overlap":
            cb = set(rng.sample(sorted(ca), rng.randrange(1, len(ca) + 1))) | set(rng.sample(rest, rng.randrange(1, 3)))
        elif rel == "equal":
            cb = set(ca)
        else:
            cb = set(rng.sample(univ, rng.randrange(0, 4)))
    if mode == "swc" and not cb:
        cb = {rng.randrange(6)}
    cur = {True: {}, False: {}}       # what the script has put into A / B
    valid = {True: False, False: False}
    noop_p = 0.0 if mode == "swc" else 0.1     # switch_ does not forward a tick that changes nothing (C12's subject)

    def writes(tgt, first):
        """a write to target tgt -> text (and the script's own view of the contents is updated)"""
        mods, rems = {}, set()
        c = cur[tgt]
        if first:
            want = ca if tgt else cb
            if kind == "set":
                mods = {q: 0 for q in want}
                if not want:
                    rems = {rng.randrange(6)}          # an empty but valid set: remove an absent element
            else:
                mods = {q: val() for q in want}
                if not want:
                    rems = {rng.randrange(6)}
        elif kind == "fix":
            for q in rng.sample(range(npos), rng.randrange(1, npos + 1)):
                mods[q] = val()
        else:
            for q in rng.sample(univ, rng.choice([1, 1, 2, 2, 3])):
                present = q in c
                x = rng.random()
                if kind == "set":
                    if present != (x < noop_p):
                        rems.add(q)
                    else:
                        mods[q] = 0
                else:
                    if (present and x < 0.45) or (not present and x < 0.8 * noop_p):
                        rems.add(q)
                    else:
                        mods[q] = val()
        for q in rems:
            c.pop(q, None)
        c.update(mods)
        valid[tgt] = True
        return w2s("set" if kind == "set" else "dict", mods, rems)

    start = rng.choice(["both-then-select", "both-then-select", "select-first", "one-valid", "all-at-once", "late-b", "idle-start"])
    if mode == "swc":
        start = rng.choice(["both-then-select", "all-at-once"])   # a switch_ onto a branch whose argument is not valid resets the output
    lines, cond = [], None
    for k in range(n):
        sel, wa, wb = None, False, False
        if k == 0 and start == "idle-start":
            pass                                       # nothing at the start time; everything begins later
        elif k == 0:
            if start == "both-then-select":
                wa, wb = True, True
            elif start == "select-first":
                sel = rng.random() < 0.5
            elif start in ("one-valid", "late-b"):
                wa, sel = True, (True if start == "late-b" or rng.random() < 0.6 else False)
            else:
                wa, wb, sel = True, True, rng.random() < 0.5
        elif k == 1 and start == "both-then-select":
            sel = rng.random() < 0.5
        elif k == 1 and start == "select-first":
            wa, wb = rng.random() < 0.8, rng.random() < 0.8
            if not (wa or wb):
                wa = True
        else:
            x = rng.random()
            if x < 0.12:
                pass                                   # idle step
            elif x < 0.50:
                sel = (not cond) if (cond is not None and rng.random() < 0.85) else (rng.random() < 0.5)
                y = rng.random()
                if y < 0.25:
                    wa = rng.random() < 0.5
                    wb = not wa
                elif y < 0.32:
                    wa = wb = True
            else:
                y = rng.random()
                wa, wb = y < 0.55, y >= 0.45
        if not valid[False] and start in ("one-valid", "late-b") and k >= 2 and rng.random() < 0.5:
            wb = True
        flipped = sel is not None and sel != cond
        newc = sel if flipped else cond
        if flipped and cond is not None and valid[newc] and valid[cond]:
            new_w = wa if newc else wb
            if prof == "clean" and new_w:
                if newc:
                    wa = False
                else:
                    wb = False
            elif prof == "coincide" and not new_w and rng.random() < 0.8:
                if newc:
                    wa = True
                else:
                    wb = True
        if prof == "clean" and flipped and not valid[newc] and not (wa if newc else wb) and (valid[True] or valid[False]) and cond is not None:
            sel, flipped, newc = None, False, cond       # keep the port valid once it is
        parts = []
        if sel is not None:
            parts.append("s=a" if sel else "s=b")
        if wa:
            parts.append("a=" + writes(True, not valid[True]))
        if wb:
            parts.append("b=" + writes(False, not valid[False]))
        cond = newc
        lines.append("c " + (" ".join(parts) if parts else "-"))
    if rng.random() < 0.7:
        lines.append("c -")
    return Case(["case %d" % idx, "shape %s %s" % (shape, mode)] + lines + ["run"], {"profile": prof, "rel": rel, "start": start})


def ref_directed(start_idx):
    """named histories: flips onto a superset / subset / disjoint / overlapping / equal target, new target silent or ticking,
    old target ticking, flip back, consecutive flips, first selection with one valid target, selection before validity"""
    H = {
        "tss": dict(A="+1,+2", sup="+1,+2,+3", sub="+2", dis="+4,+5", ovl="+2,+3", eq="+1,+2", wa="+6", wb="+7,-2", ra="-1"),
        "tsd": dict(A="1=10,2=20", sup="1=11,2=21,3=31", sub="2=22", dis="4=40,5=50", ovl="2=23,3=33", eq="1=10,2=20", wa="6=60", wb="7=70,-2",
                    ra="-1"),
        "tsl2": dict(A="0=1,1=2", sup="0=10,1=20", sub="0=10", dis="1=20", ovl="0=10,1=20", eq="0=1,1=2", wa="0=3", wb="1=21", ra="1=4"),
        "tsb2": dict(A="0=1,1=2", sup="0=10,1=20", sub="0=10", dis="1=20", ovl="0=10,1=20", eq="0=1,1=2", wa="0=3", wb="1=21", ra="1=4"),
    }
    cases, idx = [], start_idx
    for shape, h in H.items():
        for mode in (("sel", "swc") if shape in ("tss", "tsd") else ("sel",)):
            for rel in ("sup", "sub", "dis", "ovl", "eq"):
                B = h[rel]
                hists = [
                    ["s=a a=%s b=%s" % (h["A"], B), "-", "s=b", "-", "s=a", "-"],                       # flip, flip back (targets silent)
                    ["s=a a=%s b=%s" % (h["A"], B), "s=b", "s=a", "s=b", "-"],                           # consecutive flips
                    ["a=%s b=%s" % (h["A"], B), "s=a", "a=%s" % h["wa"], "s=b a=%s" % h["ra"], "b=%s" % h["wb"], "-"],   # old target ticks in the flip cycle
                    ["s=a a=%s b=%s" % (h["A"], B), "-", "s=b b=%s" % h["wb"], "-", "s=a a=%s" % h["wa"], "-"],          # new target ticks in the flip cycle
                ]
                for scr in hists:
                    cases.append(Case(["case %d" % idx, "shape %s %s" % (shape, mode)] + ["c " + x for x in scr] + ["run"])); idx += 1
            for scr in (["s=a", "b=%s" % h["ovl"], "a=%s" % h["A"], "a=%s" % h["wa"], "s=b", "-"],      # selected before anything is valid
                        ["s=b a=%s" % h["A"], "-", "s=a", "b=%s" % h["ovl"], "s=b", "-"],               # only the OTHER target is valid at first
                        ["s=a a=%s" % h["A"], "s=a", "s=a a=%s" % h["wa"], "-"]):                      # cond re-ticks with the value it has
                cases.append(Case(["case %d" % idx, "shape %s %s" % (shape, mode)] + ["c " + x for x in scr] + ["run"])); idx += 1
    return cases


def ref_exhaustive(start_idx):
    """every 4-cycle history over {idle, flip, write A, write B, flip + write A, flip + write B} after a common start,
    TSS and TSD, if_then_else"""
    cases, idx = [], start_idx
    for shape, A, B, wa, wb in (("tss", "+1,+2", "+2,+3", ["+4", "-1"], ["+5", "-2"]), ("tsd", "1=10,2=20", "2=21,3=31", ["4=40", "-1"], ["5=50", "-2"])):
        for hist in itertools.product(range(6), repeat=4):
            if not any(h in (1, 4, 5) for h in hist):
                continue
            cond, na, nb, lines = True, 0, 0, []
            for h in hist:
                parts = []
                if h in (1, 4, 5):
                    cond = not cond
                    parts.append("s=a" if cond else "s=b")
                if h in (2, 4):
                    parts.append("a=" + wa[na % 2]); na += 1
                if h in (3, 5):
                    parts.append("b=" + wb[nb % 2]); nb += 1
                lines.append("c " + (" ".join(parts) if parts else "-"))
            cases.append(Case(["case %d" % idx, "shape %s sel" % shape, "c s=a a=%s b=%s" % (A, B), "c -"] + lines + ["c -", "run"])); idx += 1
    return cases


def ref_stream(rng, tier):
    n = 420 if tier == "quick" else 12000
    cases = [gen_ref_case(rng, 50000 + i) for i in range(n)]
    cases += [c for c in ref_directed(50000 + n) if " swc" not in c.lines[1] or ref_swc_in_scope(ref_parse(c))]
    if tier != "quick":
        cases += ref_exhaustive(80000)
    cdir = os.path.join(os.path.dirname(os.path.dirname(os.path.dirname(os.path.abspath(__file__)))), "corpus", "C08")
    corpus = []
    if os.path.isdir(cdir):
        for f in sorted(os.listdir(cdir)):
            if f.startswith("fbref"):
                corpus.append(Case([l.rstrip("\n") for l in open(os.path.join(cdir, f)) if l.strip()]))
    return Stream("fbshape-ref", FB, model_cmd("C08Ref") + [sink_policy()], corpus + cases, timeout=900)


def streams(rng, tier, seed):
    n = 900 if tier == "quick" else 24000
    cases = [gen_case(rng, i) for i in range(n)]
    cases += directed(n)
    if tier != "quick":
        cases += exhaustive_small(n + 10000)
    cdir = os.path.join(os.path.dirname(os.path.dirname(os.path.dirname(os.path.abspath(__file__)))), "corpus", "C08")
    corpus = []
    if os.path.isdir(cdir):
        for f in sorted(os.listdir(cdir)):
            if f.startswith("fbshape"):
                corpus.append(Case([l.rstrip("\n") for l in open(os.path.join(cdir, f)) if l.strip()]))
    # the REF-selected-producer stream draws from its own generator state so that the cases of fbshape-delta stay what they were
    import random
    ref = ref_stream(random.Random(rng.getrandbits(32) ^ 0xC08), tier)
    return [Stream("fbshape-delta", FB, model_cmd("C08Shape"), corpus + cases, timeout=900), ref]
