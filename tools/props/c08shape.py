"""C08 (structured-feedback stream) - feedback over TS / TSB (flat + nested) / TSL / TSS / TSD shapes delivers exactly
the DELTA that was written, one smallest step later: no position re-ticks that nobody wrote, nothing is lost.

Meant to be merged into tools/props/c08.py the way c01.py merges c01rank.py / c07.py merges c07gs.py:
    streams += fs.streams(...); monitor/features/nontrivial/valid_case dispatch on stream.startswith("fbshape-");
    LEAN_MODULES += fs.LEAN_MODULES; THEOREMS += fs.THEOREMS; CXX_TARGETS += fs.CXX_TARGETS; RULE/TRUSTED/ASSUMPTIONS appended.

Protocol (harness/drv_fbshape.cpp, lean/Drivers/C08Shape.lean):
    case <n> / shape <s> [init <writes>] / c <writes>|-  (one line per consecutive smallest step from MIN_ST) / run
    every `c` line answers  t=<time> cyc=<0|1> w=<producer delta|-> r=<reader delta|-> v=<reader value|->"""
import itertools
import os
from vlib import Case, Stream, BUILD, model_cmd

ID = "C08S"
LEAN_MODULES = ["HgVerif.Props.C08Shape"]
THEOREMS = [
    "HgVerif.FeedbackShape.shape_feedback_delay",
    "HgVerif.FeedbackShape.shape_initial_value",
    "HgVerif.FeedbackShape.shape_never_same_cycle",
    "HgVerif.FeedbackShape.observed_sub_written",
    "HgVerif.FeedbackShape.observed_eq_written",
    "HgVerif.FeedbackShape.no_spurious_field_tick",
    "HgVerif.FeedbackShape.no_spurious_tick_any_kind",
    "HgVerif.FeedbackShape.value_is_fold_of_deltas",
    "HgVerif.FeedbackShape.fix_value_lookup",
    "HgVerif.FeedbackShape.shape_quiescent",
    "HgVerif.FeedbackShape.source_due_iff_written",
    "HgVerif.FeedbackShape.state_not_cleared_harmless",
]
CXX_TARGETS = ["hgv_fbshape"]
RULE = ("fbshape streams: one feedback edge of shape TS<Int> | TSB{a,b} | TSB{a,b,c} | TSB{a,n:TSB{x,y}} | TSL<TS<Int>,2> | "
        "TSS<Int> | TSD<Int,TS<Int>> (real stdlib::feedback operators), with/without a declared initial delta, driven by a "
        "scripted producer over 3-14 consecutive smallest steps: strict subsets of fields after others are valid, fields "
        "becoming valid one after the other, all fields every cycle, one field only, equal repeated values, TSS/TSD "
        "add/remove/re-add incl. no-op operations, writes in the start cycle, in consecutive cycles, with gaps and in the last "
        "cycle before the end time; recorders on the producer and on the feedback port log per cycle the delta (which "
        "positions ticked with which values, added/removed) and the full value; thorough adds every TSB{a,b} history of 4 "
        "cycles x every initial delta and every TSS history of 4 cycles over 2 elements (with/without initial delta). A case is non-trivial when the reader "
        "ticked in >=2 cycles; distinct by case text")
TRUSTED = ["the recorders read modified()/valid()/value() per position (TSS added()/removed(), TSD modified_items()/"
           "removed_keys()) of the feedback port; values are Int; capture/apply of deltas in depth is C20's subject",
           "the producer model (Out<S> mutations always tick; TSS/TSD deltas list only effective changes) is part of the "
           "correspondence, not of the theorems, which quantify over arbitrary producer deltas"]
ASSUMPTIONS = ["one producer write set per position and cycle; no same-cycle set+erase of one TSD key (C05 covers those)",
               "the source ranks before its readers and the sink after the producer (C01); the sink's request for t+1 is "
               "honoured unless the end time cuts it off (C02)"]

FB = [os.path.join(BUILD, "hgv_fbshape")]
SHAPES = {"ts": ("fix", 1), "tsb2": ("fix", 2), "tsb3": ("fix", 3), "tsbn": ("fix", 3), "tsl2": ("fix", 2),
          "tss": ("set", 0), "tsd": ("dict", 0)}


# ----------------------------------------------------------------------------- text <-> structures

def parse_writes(text):
    """-> (mods {pos: val}, rems set) or None"""
    mods, rems = {}, set()
    for tok in text.split(","):
        try:
            if tok[:1] == "+":
                p = int(tok[1:]); v = 0
            elif tok[:1] == "-":
                p = int(tok[1:]); v = None
            else:
                a, b = tok.split("=")
                p, v = int(a), int(b)
        except Exception:
            return None
        if p in mods or p in rems:
            return None
        if v is None:
            rems.add(p)
        else:
            mods[p] = v
    return mods, rems


def parse_braces(text):
    """delta / value token list '{...}' -> (mods, rems) ; '-' -> None"""
    if text == "-":
        return None
    if not (text.startswith("{") and text.endswith("}")):
        raise ValueError(text)
    body = text[1:-1]
    if body == "":
        return {}, set()
    mods, rems = {}, set()
    for tok in body.split(","):
        if tok[:1] == "+":
            p, v = int(tok[1:]), 0
        elif tok[:1] == "-":
            p, v = int(tok[1:]), None
        elif "=" in tok:
            a, b = tok.split("=")
            p, v = int(a), int(b)
        else:
            p, v = int(tok), 0
        if p in mods or p in rems:
            raise ValueError("duplicate position " + text)
        if v is None:
            rems.add(p)
        else:
            mods[p] = v
    return mods, rems


def parse_case(case):
    """-> dict(shape, kind, npos, init, script=[(line_index, writes|None)], run_index) or None"""
    if len(case.lines) < 4:
        return None
    w = case.lines[1].split()
    if len(w) not in (2, 4) or w[0] != "shape" or w[1] not in SHAPES:
        return None
    init = None
    if len(w) == 4:
        if w[2] != "init":
            return None
        init = parse_writes(w[3])
        if init is None or init[1]:
            return None
    script = []
    for i, ln in enumerate(case.lines[2:-1], start=2):
        t = ln.split()
        if len(t) != 2 or t[0] != "c":
            return None
        if t[1] == "-":
            script.append((i, None))
        else:
            ws = parse_writes(t[1])
            if ws is None:
                return None
            script.append((i, ws))
    if case.lines[-1].strip() != "run" or not script:
        return None
    kind, npos = SHAPES[w[1]]
    return dict(shape=w[1], kind=kind, npos=npos, init=init, script=script, run_index=len(case.lines) - 1)


class Acc:
    """An output value of one kind, mutated by deltas the way a time-series output is (reference semantics written
    independently of the Lean model: python dict/set)."""

    def __init__(self, kind):
        self.kind, self.valid, self.items = kind, False, {}

    def mutate(self, mods, rems, gated):
        """apply a delta; gated = through apply_delta (has-effect gate) rather than by a node's own mutations.
        -> None (no tick) or (observed_mods, observed_rems)"""
        if self.kind == "fix":
            if gated and not mods:
                return None
            self.items.update(mods)
            self.valid = True
            return dict(mods), set()
        if gated:
            if self.kind == "set":
                effect = bool(mods) or bool(rems) or not self.valid
            else:
                effect = bool(mods) or (any(p in self.items for p in rems) if rems else not self.valid)
            if not effect:
                return None
        orem = {p for p in rems if p in self.items}
        for p in orem:
            del self.items[p]
        if self.kind == "set":
            omod = {p: 0 for p in mods if p not in self.items}
        else:
            omod = dict(mods)
        self.items.update(omod)
        self.valid = True
        return omod, orem


def fmt(kind, d):
    if d is None:
        return "-"
    mods, rems = d
    toks = [(p, ("+%d" % p) if kind == "set" else "%d=%d" % (p, v)) for p, v in mods.items()] + [(p, "-%d" % p) for p in rems]
    return "{" + ",".join(t for _, t in sorted(toks)) + "}"


def parse_out_line(line):
    f = line.split(" ")
    if len(f) != 5 or not (f[0].startswith("t=") and f[1].startswith("cyc=") and f[2].startswith("w=")
                           and f[3].startswith("r=") and f[4].startswith("v=")):
        raise ValueError(line)
    return int(f[0][2:]), f[1][4:] == "1", parse_braces(f[2][2:]), parse_braces(f[3][2:]), parse_braces(f[4][2:])


# ----------------------------------------------------------------------------- the property on ONE implementation trace

def check_trace(case, out):
    bad, feats = [], set()
    p = parse_case(case)
    if p is None:
        return bad, feats
    kind = p["kind"]
    feats.add("shape=" + p["shape"])
    feats.add("initial-delta" if p["init"] else "no-initial-delta")
    if len(out) != len(case.lines):
        return ["[lines] %d output lines for %d input lines" % (len(out), len(case.lines))], feats
    res = out[p["run_index"]]
    if not res.startswith("ok"):
        return ["[run] the run failed: %s" % res[:60]], feats
    if res != "ok extra=0":
        bad.append("[quiescence] engine cycles at times outside the scripted range: %s" % res)
    reader = Acc(kind)       # fold of everything delivered so far = initial delta + writes up to the previous cycle
    prod = Acc(kind)         # the producer's own output
    pending = p["init"]      # delta due at this cycle: written one smallest step earlier (initial delta at the start)
    pending_is_init = p["init"] is not None
    n_deliv, n_ticks, prev_written = 0, 0, False
    last = len(p["script"]) - 1
    for k, (li, ops) in enumerate(p["script"]):
        t = 1 + k
        try:
            ot, cyc, w, r, v = parse_out_line(out[li])
        except Exception:
            return bad + ["[lines] unreadable cycle line %r" % out[li][:80]], feats
        if ot != t:
            bad.append("[lines] cycle line %d reports time %d, expected %d" % (k, ot, t))
        # -- producer side (harness sanity: what the producer exposed must be what the script wrote)
        if ops is None:
            exp_w = None
        else:
            if kind == "fix" and any(q in prod.items for q in range(p["npos"]) if q not in ops[0]) and len(ops[0]) < p["npos"]:
                feats.add("strict-subset-written-while-other-position-valid")
            if kind == "fix" and any(prod.items.get(q) == x for q, x in ops[0].items()):
                feats.add("equal-value-rewritten")
            if kind == "fix" and p["npos"] > 1 and len(ops[0]) == p["npos"]:
                feats.add("all-positions-written-together")
            if kind != "fix" and (any(q in prod.items for q in ops[0]) and kind == "set" or any(q not in prod.items for q in ops[1])):
                feats.add("no-op-add-or-remove")
            if ops[1]:
                feats.add("removal-written")
            exp_w = prod.mutate(ops[0], ops[1], gated=False)
            if k == 0:
                feats.add("write-in-start-cycle")
            if k == last:
                feats.add("write-in-last-cycle-before-end")
            if prev_written:
                feats.add("writes-in-consecutive-cycles")
        if fmt(kind, w) != fmt(kind, exp_w):
            bad.append("[producer] the producer did not expose what the script wrote: t=%d exposed %s, wrote %s" % (t, fmt(kind, w), fmt(kind, exp_w)))
        # -- the reader side: exactly what was written one smallest step earlier
        if pending is None:
            exp_r = None
        else:
            exp_r = reader.mutate(pending[0], pending[1], gated=True)
            n_deliv += 1
            if exp_r is None:
                feats.add("empty-delta-delivery-without-tick")
            elif fmt(kind, exp_r) != fmt(kind, pending):
                feats.add("delivery-partly-ineffective(initial-delta-overlap)")
        exp_v = (dict(reader.items), set()) if exp_r is not None else None
        if fmt(kind, r) != fmt(kind, exp_r):
            rm, rr = r if r is not None else ({}, set())
            em, er = exp_r if exp_r is not None else ({}, set())
            if exp_r is None and w is not None and fmt(kind, r) == fmt(kind, w):
                bad.append("[same-cycle] the reader saw a delta in the cycle that wrote it: t=%d %s" % (t, fmt(kind, r)))
            elif exp_r is None:
                bad.append("[untimely] the reader ticked although nothing was written one step earlier: t=%d saw %s, nothing written at t=%d%s"
                           % (t, fmt(kind, r), t - 1, "" if k else " and no initial delta was declared"))
            elif r is None:
                bad.append("[lost] a written delta was not delivered one step later: t=%d the reader did not tick; %s: %s"
                           % (t, ("written at t=%d" % (t - 1)) if k else "declared initial delta", fmt(kind, exp_r)))
            else:
                extra = sorted(set(rm) - set(em)) + sorted(rr - er)
                missing = sorted(set(em) - set(rm)) + sorted(er - rr)
                if extra:
                    bad.append("[spurious] position(s) nobody wrote ticked at the reader: t=%d position(s) %s (reader saw %s, the delta written at t=%d was %s)"
                               % (t, extra, fmt(kind, r), t - 1, fmt(kind, exp_r)))
                elif missing:
                    bad.append("[lost] a written delta was not delivered completely: t=%d position(s) %s written at t=%d did not tick at the reader: saw %s, written %s"
                               % (t, missing, t - 1, fmt(kind, r), fmt(kind, exp_r)))
                else:
                    bad.append("[value] the reader's delta differs in values from the written one: t=%d saw %s, written %s"
                               % (t, fmt(kind, r), fmt(kind, exp_r)))
        elif r is not None:
            n_ticks += 1
        if exp_r is not None and r is not None and fmt("dict" if kind != "set" else "set", v) != fmt("dict" if kind != "set" else "set", exp_v):
            bad.append("[accumulated] the reader's value is not the fold of the written deltas: t=%d value %s, fold %s"
                       % (t, fmt("dict" if kind != "set" else "set", v), fmt("dict" if kind != "set" else "set", exp_v)))
        # -- quiescence: a cycle runs only when the producer is scripted or a delivery is due
        exp_cyc = ops is not None or pending is not None
        if cyc != exp_cyc:
            if cyc:
                bad.append("[quiescence] the engine ran a cycle although nothing is due: t=%d, nothing written at t=%d and the producer is idle"
                           % (t, t - 1))
            else:
                bad.append("[lost] a written delta was not delivered one step later: no engine cycle at t=%d although a delivery is due" % t)
        if ops is None and pending is None:
            feats.add("idle-step(gap)")
        prev_written = ops is not None
        pending = (w if w is not None else None)
        if pending is not None and k == last:
            feats.add("undelivered-write-at-end")
    feats.add("deliveries=%s" % (n_deliv if n_deliv < 3 else "3-5" if n_deliv <= 5 else "6+"))
    if n_ticks >= 2:
        feats.add("reader-ticked>=2")
    return bad, feats


def monitor(stream, case, out):
    return check_trace(case, out)[0][:3]


def features(stream, case, out):
    return sorted(check_trace(case, out)[1])


def nontrivial(stream, case, out):
    return "reader-ticked>=2" in check_trace(case, out)[1]


def valid_case(stream, case, impl_out, model_out):
    return parse_case(case) is not None and not any("bad-op" in l for l in impl_out)


# ----------------------------------------------------------------------------- generator

def w2s(kind, mods, rems):
    toks = [(p, ("+%d" % p) if kind == "set" else "%d=%d" % (p, v)) for p, v in mods.items()] + [(p, "-%d" % p) for p in rems]
    return ",".join(t for _, t in sorted(toks))


def gen_case(rng, idx):
    shape = rng.choice(["ts", "tsb2", "tsb2", "tsb2", "tsb3", "tsb3", "tsbn", "tsbn", "tsl2", "tsl2", "tss", "tss", "tsd", "tsd"])
    kind, npos = SHAPES[shape]
    n = rng.choice([3, 4, 5, 6, 6, 7, 8, 9, 10, 12, 14])
    spacing = rng.choice(["consecutive", "gaps", "gaps", "mixed", "mixed", "sparse"])
    counter = [10]

    def val(p, prev):
        m = values_mode
        if m == "distinct":
            counter[0] += 1
            return counter[0]
        if m == "equal" and p in prev and rng.random() < 0.7:
            return prev[p]
        return rng.randrange(-3, 6)

    values_mode = rng.choice(["distinct", "distinct", "small", "equal"])
    init = None
    if rng.random() < 0.4:
        if kind == "fix":
            ps = rng.sample(range(npos), rng.randrange(1, npos + 1))
            init = ({q: val(q, {}) for q in ps}, set())
        elif kind == "set":
            init = ({q: 0 for q in rng.sample(range(5), rng.randrange(1, 4))}, set())
        else:
            init = ({q: val(q, {}) for q in rng.sample(range(4), rng.randrange(1, 3))}, set())
    pattern = rng.choice(["subset-after-full", "one-by-one", "all-every", "single", "random", "random", "alternate"]) \
        if kind == "fix" and npos > 1 else "random"
    single = rng.randrange(max(npos, 1))
    cur = {}                  # producer's value
    script = []
    written_cycles = 0
    for k in range(n):
        if spacing == "consecutive":
            active = True
        elif spacing == "gaps":
            active = rng.random() < 0.6
        elif spacing == "sparse":
            active = rng.random() < 0.3
        else:
            active = rng.random() < (0.85 if (k // 3) % 2 == 0 else 0.3)
        if k == 0 and rng.random() < 0.5:
            active = True
        if k == n - 1 and rng.random() < 0.4:
            active = True
        if not active:
            script.append(None)
            continue
        mods, rems = {}, set()
        if kind == "fix":
            if npos == 1:
                ps = [0]
            elif pattern == "subset-after-full":
                ps = list(range(npos)) if written_cycles == 0 else rng.sample(range(npos), rng.randrange(1, npos))
            elif pattern == "one-by-one":
                ps = [written_cycles] if written_cycles < npos else rng.sample(range(npos), rng.randrange(1, npos + 1))
            elif pattern == "all-every":
                ps = list(range(npos))
            elif pattern == "single":
                ps = [single]
            elif pattern == "alternate":
                ps = [written_cycles % npos]
            else:
                ps = rng.sample(range(npos), rng.randrange(1, npos + 1))
            for q in ps:
                mods[q] = val(q, cur)
            cur.update(mods)
        elif kind == "set":
            for q in rng.sample(range(5), rng.choice([1, 1, 2, 2, 3])):
                present = q in cur
                noop = rng.random() < 0.12
                if present != noop:
                    rems.add(q)
                else:
                    mods[q] = 0
            for q in rems:
                cur.pop(q, None)
            cur.update(mods)
        else:
            for q in rng.sample(range(4), rng.choice([1, 1, 2, 2, 3])):
                present = q in cur
                r = rng.random()
                if (present and r < 0.4) or (not present and r < 0.08):
                    rems.add(q)
                else:
                    mods[q] = val(q, cur)
            for q in rems:
                cur.pop(q, None)
            cur.update(mods)
        written_cycles += 1
        script.append((mods, rems))
    if all(s is None for s in script):
        script[rng.randrange(n)] = (({0: 1}, set()) if kind != "set" else ({0: 0}, set()))
    lines = ["case %d" % idx, "shape %s%s" % (shape, (" init " + w2s(kind, init[0], init[1])) if init else "")]
    for s in script:
        lines.append("c -" if s is None else "c " + w2s(kind, s[0], s[1]))
    lines.append("run")
    return Case(lines, {"pattern": pattern, "spacing": spacing})


def exhaustive_small(start_idx):
    cases, idx = [], start_idx
    # every TSB{a,b} history of 4 cycles (each cycle: nothing / a / b / both) x every initial delta, one trailing idle step
    opts = [None, {0: 0}, {1: 0}, {0: 0, 1: 0}]
    for init in opts:
        for hist in itertools.product(opts, repeat=4):
            if all(h is None for h in hist):
                continue
            c = 20
            lines = ["case %d" % idx, "shape tsb2" + ((" init " + w2s("fix", {q: 7 + q for q in init}, set())) if init else "")]
            for h in hist:
                if h is None:
                    lines.append("c -")
                else:
                    m = {}
                    for q in sorted(h):
                        c += 1
                        m[q] = c
                    lines.append("c " + w2s("fix", m, set()))
            lines += ["c -", "run"]
            cases.append(Case(lines)); idx += 1
    # every TSS history of 4 cycles over elements {1,2}: per cycle nothing / +1 / -1 / +2 / -2 / +1,+2 / -1,-2 / +1,-2 / -1,+2
    sopts = [None, ({1: 0}, set()), ({}, {1}), ({2: 0}, set()), ({}, {2}), ({1: 0, 2: 0}, set()), ({}, {1, 2}),
             ({1: 0}, {2}), ({2: 0}, {1})]
    for init in (None, ({1: 0}, set())):
        for hist in itertools.product(sopts, repeat=4):
            if all(h is None for h in hist):
                continue
            lines = ["case %d" % idx, "shape tss" + ((" init " + w2s("set", init[0], init[1])) if init else "")]
            for h in hist:
                lines.append("c -" if h is None else "c " + w2s("set", h[0], h[1]))
            lines += ["c -", "run"]
            cases.append(Case(lines)); idx += 1
    return cases


def streams(rng, tier, seed):
    n = 700 if tier == "quick" else 20000
    cases = [gen_case(rng, i) for i in range(n)]
    if tier != "quick":
        cases += exhaustive_small(n)
    cdir = os.path.join(os.path.dirname(os.path.dirname(os.path.dirname(os.path.abspath(__file__)))), "corpus", "C08")
    corpus = []
    if os.path.isdir(cdir):
        for f in sorted(os.listdir(cdir)):
            if f.startswith("fbshape"):
                corpus.append(Case([l.rstrip("\n") for l in open(os.path.join(cdir, f)) if l.strip()]))
    return [Stream("fbshape-delta", FB, model_cmd("C08Shape"), corpus + cases, timeout=900)]
