"""C01 - nodes evaluate at most once per cycle and only after their producers; cyclic wirings are rejected.
Static half: the rank pass (tools/props/c01rank.py, hgv_rank).  Dynamic half: the per-cycle scan (hgv_engine)."""
import c01rank as rk
import engine_common as ec
import engine_plugin as ep

ID = "C01"
LEAN_MODULES = ["HgVerif.Props.C01", "HgVerif.Props.C01Rank", "HgVerif.Model.Engine", "HgVerif.Model.Extracted"]
THEOREMS = rk.THEOREMS + ["HgVerif.Sched.cycle_strictly_increasing", "HgVerif.Sched.cycle_at_most_once",
                          "HgVerif.Sched.producer_before_consumer", "HgVerif.Sched.rank_edges_are_index_order",
                          "HgVerif.Tie.tie_scanRunsWhen"]
CXX_TARGETS = ["hgv_rank", "hgv_engine"]
USES_EXTRACT = True
RULE = rk.RULE + " || engine stream: random flat and nested programs run under the lifecycle observer; per cycle and per graph the " \
       "sequence of node evaluations must be duplicate-free and put every producer before its consumers; non-trivial = >=2 cycles"
TRUSTED = rk.TRUSTED + ["reads through a reference are compiled edges / structural REF nodes: relies on the edge-emission correspondence"]
ASSUMPTIONS = rk.ASSUMPTIONS
TECHNIQUE = ("Lean 4 proof: Kahn rank pass (permutation, forward edges, push prefix, rejects exactly the cyclic wirings) + the scan "
             "evaluates indices in strictly increasing order for arbitrary node behaviours; differential correspondence against "
             "Wiring::finish and against the running engine")
LEVEL_TEXT = rk.LEVEL_TEXT + (" Dynamic half: for every node behaviour the per-cycle scan evaluates node indices in strictly increasing "
                              "order (at most once each; producers, having smaller indices, first), fresh or resumed; nested graphs are "
                              "scanned inside their parent node's single turn.")
LEVEL_NOTE = rk.LEVEL_NOTE + " The engine model built on the same scan definition is compared trace-for-trace with the runtime."


def streams(rng, tier, seed):
    n = 100 if tier == "quick" else 3000
    progs = [ec.gen_flat(rng, sched=(i % 3 == 0)) for i in range(n)] + [ec.gen_nested(rng, both=True) for _ in range(n // 2)]
    progs += [ec.gen_kick(rng) for _ in range(n // 2)]      # a node waking other nodes of its graph for the current time (behind / ahead of the scan)
    return rk.streams(rng, tier, seed) + [ec.engine_stream("engine-order", progs)]


_engine_monitor = ep.monitor_for(ID)


def monitor(stream, case, out):
    return _engine_monitor(stream, case, out) if stream.startswith("engine") else rk.monitor(stream, case, out)


def features(stream, case, out):
    return ep.features(stream, case, out) if stream.startswith("engine") else rk.features(stream, case, out)


def nontrivial(stream, case, out):
    return ep.nontrivial(stream, case, out) if stream.startswith("engine") else rk.nontrivial(stream, case, out)


def alarm_filter(stream, case, impl_out, model_out):
    if stream.startswith("engine"):
        return ep.alarm_filter(stream, case, impl_out, model_out)
    return rk.alarm_filter(stream, case, impl_out, model_out)
valid_case = ep.valid_case
