"""C01 (static half) - the rank pass of Wiring::finish: producers first, push prefix, cycles rejected."""
import itertools
import os
from vlib import Case, Stream, BUILD, model_cmd

ID = "C01R"
LEAN_MODULES = ["HgVerif.Props.C01Rank"]
THEOREMS = [
    "HgVerif.Rank.rankEdge_iff",
    "HgVerif.Rank.kahn_perm", "HgVerif.Rank.kahn_edges_forward", "HgVerif.Rank.kahn_push_prefix",
    "HgVerif.Rank.kahn_rejects_cycles", "HgVerif.Rank.kahn_rejects_cycles_class",
    "HgVerif.Rank.kahn_accepts_dags", "HgVerif.Rank.kahn_pushDep", "HgVerif.Rank.kahn_ok_iff",
    "HgVerif.Rank.kahn_free_irrelevant", "HgVerif.Rank.free_edges_never_reject",
    "HgVerif.Rank.loop_exhausts",
    "HgVerif.Rank.emitEdges_ok", "HgVerif.Rank.emitEdges_forward", "HgVerif.Rank.emitEdges_complete",
    "HgVerif.Rank.validatePairs_ok", "HgVerif.Rank.addPair_rankEdge",
    "HgVerif.Rank.finish_sound", "HgVerif.Rank.finish_ok_iff",
]
CXX_TARGETS = ["hgv_rank"]
RULE = ("random wiring programs of 1-14 labelled dummy nodes (0-3 TS<Int> inputs) fed to the real Wiring::finish: random "
        "statement order (forward references through delayed_binding), chains/diamonds/fan-in/fan-out/random DAGs, "
        "duplicate producers, explicit add_rank_dependency (with duplicates), rank-free inputs in any direction, "
        "push-source nodes, same-cycle pairs, ~25% with a rank cycle (self-loop, through inputs, through explicit "
        "dependencies); thorough adds every rank digraph on <=3 nodes. A case is non-trivial when it has >=3 nodes "
        "and >=2 rank edges, or a rank cycle, or a forward reference; distinct by sha1 of the program text")
TRUSTED = ["unordered_map<WiringInstance*,size_t> indegree modelled as a total function Nat -> Int (a size_t that "
           "wraps below zero never compares equal to zero again within 2^64 decrements)",
           "std::deque/std::vector modelled as List; delayed_binding resolution (resolve_delayed_source) and node "
           "interning are exercised by the harness but not modelled: the model receives resolved producer positions"]
ASSUMPTIONS = ["top-level finish(): every instance is owned (external_sources == nullptr); sub-graph compiles share the "
               "same build_ranked_graph and are exercised by the engine half of C01",
               "inputs are peered TS sources (structural TSL/TSB sources contribute the union of their leaf producers "
               "through collect_producers; covered by the engine half)"]
TECHNIQUE = ("Lean 4 proof (loop invariant of the Kahn pass over arbitrary finite wirings; acyclic => complete by "
             "minimal-element argument on the un-ranked remainder) with differential correspondence against "
             "Wiring::finish")
LEVEL_TEXT = ("Kernel-checked for every finite wiring: on success the order is a permutation of the nodes, every "
              "rank-carrying edge (input or explicit dependency) is forward, push sources form a prefix whose length "
              "compute_push_source_nodes_end returns, every compiled edge is forward unless its input was declared "
              "rank-free; the pass fails iff the rank relation has a cycle (or a push source has a rank producer), and "
              "rank-free inputs never influence the verdict or the order.")
LEVEL_NOTE = ("Trusted: Lean kernel; the hand-written model of build_ranked_graph tied to the code by running the real "
              "Wiring::finish on generated programs (accept/reject, node set, edge set, linear-extension and push-"
              "prefix checks raise alarms; exact tie-break order is a diagnostic).")


# ----------------------------------------------------------------------------- program text

def parse(case):
    """-> dict(nodes=[label], push={label:bool}, ins={label:[(producer, rank)]}, deps=[(a,b)], pairs=[(c,s)], finished)"""
    nodes, push, ins, deps, pairs = [], {}, {}, [], []
    for ln in case.lines[1:]:
        w = ln.split()
        if not w:
            continue
        if w[0] == "node" and len(w) >= 3 and w[1] not in push and len(w) <= 6:
            toks = w[3:]
            if any(len(t) < 3 or t[1] != ":" or t[0] not in "rfRF" for t in toks):
                continue
            if w[2] == "1" and any(t[0] in "fF" for t in toks):
                continue
            nodes.append(w[1]); push[w[1]] = w[2] == "1"
            ins[w[1]] = [(t[2:], t[0] in "rR") for t in toks]
        elif w[0] == "dep" and len(w) == 3 and w[1] in push and w[2] in push and w[1] != w[2]:
            deps.append((w[1], w[2]))
        elif w[0] == "pair" and len(w) == 3 and w[1] in push and w[2] in push and w[1] != w[2]:
            deps.append((w[2], w[1])); pairs.append((w[1], w[2]))
    return dict(nodes=nodes, push=push, ins=ins, deps=deps, pairs=pairs)


def rank_edges(p):
    """set of (producer, consumer) rank-carrying pairs among declared nodes"""
    es = set()
    for c in p["nodes"]:
        for (q, r) in p["ins"][c]:
            if r and q in p["push"]:
                es.add((q, c))
    for (a, b) in p["deps"]:
        es.add((b, a))
    return es


def has_cycle(nodes, edges):
    """three-colour DFS (deliberately not Kahn)"""
    succ = {v: [] for v in nodes}
    for (a, b) in edges:
        succ[a].append(b)
    col = {v: 0 for v in nodes}
    for root in nodes:
        if col[root]:
            continue
        stack = [(root, iter(succ[root]))]
        col[root] = 1
        while stack:
            v, it = stack[-1]
            nxt = next(it, None)
            if nxt is None:
                col[v] = 2
                stack.pop()
            elif col[nxt] == 1:
                return True
            elif col[nxt] == 0:
                col[nxt] = 1
                stack.append((nxt, iter(succ[nxt])))
    return False


def expected_class(p):
    declared = p["push"]
    if any(r and q not in declared for c in p["nodes"] for (q, r) in p["ins"][c]):
        return "err:other"          # unbound delayed_binding reached by collect_producers
    es = rank_edges(p)
    if any(p["push"][c] for (_, c) in es):
        return "err:other"          # push source with a rank producer
    if has_cycle(p["nodes"], es):
        return "err:cycle"
    if any((not r) and q not in declared for c in p["nodes"] for (q, r) in p["ins"][c]):
        return "err:other"          # unbound rank-free delayed_binding reached by emit_edges
    return "ok"


def parse_out(line):
    if not line.startswith("order="):
        return None
    try:
        o, e, pu = line.split(" ")
        order = [x for x in o[len("order="):].split(",") if x]
        edges = []
        for t in [x for x in e[len("edges="):].split(",") if x]:
            s, rest = t.split(">")
            d, slot = rest.split(".", 1)
            edges.append((s, d, slot))
        return order, edges, int(pu[len("push="):])
    except Exception:
        return None


def check_trace(case, out):
    """The property on ONE implementation trace.  -> (violations, features)"""
    bad, feats = [], set()
    p = parse(case)
    fin = [i for i, l in enumerate(case.lines) if l.split()[:1] == ["finish"]]
    if not fin:
        return bad, feats
    res = out[fin[0]] if fin[0] < len(out) else "<none>"
    exp = expected_class(p)
    es = rank_edges(p)
    n = len(p["nodes"])
    feats.add("n=%s" % (n if n <= 3 else "4-6" if n <= 6 else "7-10" if n <= 10 else "11-14"))
    feats.add("expect-" + exp)
    if any(p["push"].values()):
        feats.add("has-push-source")
    pos = {l: i for i, l in enumerate(p["nodes"])}
    fwd = sum(1 for c in p["nodes"] for (q, _) in p["ins"][c] if q in pos and pos[q] >= pos[c])
    if fwd:
        feats.add("forward-reference")
    if any(q == c and r for c in p["nodes"] for (q, r) in p["ins"][c]):
        feats.add("rank-self-loop")
    if any(not r for c in p["nodes"] for (_, r) in p["ins"][c]):
        feats.add("rank-free-input")
    if p["deps"]:
        feats.add("explicit-dep")
    if len(set(p["deps"])) < len(p["deps"]):
        feats.add("duplicate-dep")
    if p["pairs"]:
        feats.add("same-cycle-pair")
    if any(len([q for (q, r) in p["ins"][c] if r]) != len({q for (q, r) in p["ins"][c] if r}) for c in p["nodes"]):
        feats.add("duplicate-producer")
    indeg = {}
    for (a, b) in es:
        indeg[b] = indeg.get(b, 0) + 1
    if any(v >= 2 for v in indeg.values()):
        feats.add("fan-in")
    if exp == "err:cycle":
        inp = {(q, c) for c in p["nodes"] for (q, r) in p["ins"][c] if r and q in pos}
        feats.add("cycle-through-inputs-only" if has_cycle(p["nodes"], inp) else "cycle-needs-explicit-dep")
    free_back = exp == "ok" and has_cycle(
        p["nodes"], es | {(q, c) for c in p["nodes"] for (q, r) in p["ins"][c] if not r and q in pos})
    if free_back:
        feats.add("cycle-broken-by-rank-free-edge")
    # ---- the verdicts
    if exp == "err:cycle":
        if res != "err:cycle":
            bad.append("rank cycle not rejected as a cycle: finish returned %r" % res[:80])
        return bad, feats
    if exp == "err:other":
        if not res.startswith("err:"):
            bad.append("ill-formed wiring (unbound source / push source with rank producer) accepted: %r" % res[:80])
        return bad, feats
    got = parse_out(res)
    if got is None:
        bad.append("acyclic wiring rejected or unreadable result: %r" % res[:80])
        return bad, feats
    order, edges, pend = got
    if sorted(order) != sorted(p["nodes"]):
        bad.append("order is not a permutation of the nodes: %s" % ",".join(order))
        return bad, feats
    idx = {l: i for i, l in enumerate(order)}
    for (a, b) in sorted(es):
        if not idx[a] < idx[b]:
            bad.append("rank edge %s->%s is not forward (ranks %d,%d)" % (a, b, idx[a], idx[b]))
    npush = sum(1 for l in order if p["push"][l])
    if any(p["push"][l] != (i < npush) for i, l in enumerate(order)):
        bad.append("push sources do not occupy the prefix: %s" % ",".join(order))
    if pend != npush:
        bad.append("push_source_nodes_end=%d but %d push sources" % (pend, npush))
    want = sorted((q, c, str(s)) for c in p["nodes"] for s, (q, _) in enumerate(p["ins"][c]))
    if sorted(edges) != want:
        bad.append("compiled edge set differs from the wired inputs: got %s want %s" % (sorted(edges)[:6], want[:6]))
    for (cap, src) in p["pairs"]:
        if not idx[cap] < idx[src]:
            bad.append("same-cycle pair %s/%s not ordered" % (cap, src))
    if order != p["nodes"]:
        feats.add("order-differs-from-statement-order")
    return bad, feats


def monitor(stream, case, out):
    return check_trace(case, out)[0][:3]


def features(stream, case, out):
    return sorted(check_trace(case, out)[1])


def nontrivial(stream, case, out):
    p = parse(case)
    f = check_trace(case, out)[1]
    return (len(p["nodes"]) >= 3 and len(rank_edges(p)) >= 2) or "expect-err:cycle" in f or "forward-reference" in f


def alarm_filter(stream, case, impl_out, model_out):
    """Exact order among independent nodes is a degree of freedom the property does not constrain."""
    notes = []
    if len(impl_out) != len(model_out):
        return True, ["different number of output lines"]
    for ln, a, b in zip(case.lines, impl_out, model_out):
        if a == b:
            continue
        pa, pb = parse_out(a), parse_out(b)
        if pa is None or pb is None:
            return True, ["accept/reject or statement result differs: impl %r model %r" % (a[:60], b[:60])]
        if sorted(pa[0]) != sorted(pb[0]) or sorted(pa[1]) != sorted(pb[1]) or pa[2] != pb[2]:
            return True, ["node set / edge set / push prefix differ"]
        notes.append("tie-break order differs: impl %s model %s" % (",".join(pa[0]), ",".join(pb[0])))
    if check_trace(case, impl_out)[0]:
        return True, ["implementation order is not a linear extension with push prefix"]
    return False, notes


# ----------------------------------------------------------------------------- generator

def gen_case(rng, idx, maxn=14):
    n = rng.choice([1, 2, 2, 3, 3, 4, 4, 5, 5, 6, 6, 7, 8, 9, 10, 12, maxn])
    n = min(n, maxn)
    names = ["n%d" % i for i in range(n)]          # logical (topological) order
    shape = rng.choice(["random", "random", "chain", "diamond", "fanin", "fanout", "sparse"])
    ins = {v: [] for v in names}                   # [(producer, rank, forced_delay)]
    deps = []                                      # (node, depends_on)
    push = {v: False for v in names}
    for i, v in enumerate(names):                  # push sources: only logical sources
        if rng.random() < 0.15:
            push[v] = True

    def add_in(c, q, rank=True):
        if push[c] and not rank:
            return False
        if len(ins[c]) >= 3:
            return False
        ins[c].append((q, rank, rng.random() < 0.15))
        return True

    def add_rank(q, c):                            # q before c logically
        if push[c]:
            return False
        if rng.random() < 0.2 or len(ins[c]) >= 3:
            deps.append((c, q)); return True
        return add_in(c, q)

    for i in range(1, n):
        v = names[i]
        if shape == "chain":
            add_rank(names[i - 1], v)
        elif shape == "diamond":
            if i == n - 1 and n >= 3:
                for q in names[1:n - 1][:3] or [names[0]]:
                    add_rank(q, v)
            else:
                add_rank(names[0], v)
        elif shape == "fanin":
            if i == n - 1:
                for q in rng.sample(names[:i], min(i, 3)):
                    add_rank(q, v)
        elif shape == "fanout":
            add_rank(names[rng.randrange(0, max(1, i // 2))], v)
        else:
            k = rng.choice([0, 1, 1, 2, 2, 3]) if shape == "random" else rng.choice([0, 0, 1])
            for _ in range(k):
                add_rank(names[rng.randrange(0, i)], v)     # duplicates allowed on purpose
    # rank-free edges, any direction (incl. self and backward)
    for _ in range(rng.choice([0, 0, 1, 1, 2, 3])):
        add_in(rng.choice(names), rng.choice(names), rank=False)
    # same-cycle pairs: capture before source, capture reads the source rank-free
    pairs = []
    if n >= 2 and rng.random() < 0.08:
        a, b = sorted(rng.sample(range(n), 2))
        if not push[names[b]] and not push[names[a]]:
            pairs.append((names[a], names[b]))
            if rng.random() < 0.7:
                add_in(names[a], names[b], rank=False)
    # duplicate explicit deps
    if deps and rng.random() < 0.3:
        deps.append(rng.choice(deps))
    cyc = rng.random() < 0.25
    self_dep_line = rng.random() < 0.04
    if cyc:
        kind = rng.choice(["self", "back-input", "back-dep", "two-deps"])
        # reachability in logical order
        edges = {(q, c) for c in names for (q, r, _) in ins[c] if r} | {(b, a) for (a, b) in deps} | \
                {(a, b) for (a, b) in pairs}
        reach = {v: {v} for v in names}
        for v in names:                           # names is a topological order
            for (q, c) in edges:
                if c == v:
                    reach[v] |= reach[q]
        cands = [(u, v) for v in names for u in reach[v] if u != v and not push[u]]
        if kind == "self" or (not cands and kind != "two-deps"):
            v = rng.choice([x for x in names if not push[x]] or names)
            if not push[v]:
                if len(ins[v]) >= 3:
                    ins[v].pop()
                ins[v].append((v, True, False))
        elif kind == "two-deps" or not cands:
            if n >= 2:
                a, b = rng.sample(names, 2)
                deps.append((a, b)); deps.append((b, a))
        else:
            u, v = rng.choice(cands)              # u reaches v: close the loop with v -> u
            if kind == "back-dep" or len(ins[u]) >= 3:
                deps.append((u, v))
            else:
                ins[u].append((v, True, rng.random() < 0.2))
    # push source with a rank producer (always rejected, never a cycle verdict)
    if any(push.values()) and rng.random() < 0.06:
        pv = rng.choice([v for v in names if push[v]])
        other = rng.choice(names)
        if other != pv:
            if rng.random() < 0.5:
                deps.append((pv, other))
            else:
                ins[pv].append((other, True, False))
    # unbound reference
    if rng.random() < 0.02:
        v = rng.choice(names)
        if len(ins[v]) < 3 and not push[v]:
            ins[v].append(("zz", rng.random() < 0.5, False))
    # statement order
    order = list(names)
    r = rng.random()
    if r < 0.6:
        rng.shuffle(order)
    elif r < 0.7:
        order.reverse()
    lines = ["case %d" % idx]
    declared = []
    todo_deps = list(deps)
    rng.shuffle(todo_deps)
    todo_pairs = list(pairs)
    for v in order:
        toks = []
        for (q, rank, forced) in ins[v]:
            k = "r" if rank else "f"
            toks.append("%s:%s" % (k.upper() if forced else k, q))
        lines.append(("node %s %d %s" % (v, 1 if push[v] else 0, " ".join(toks))).rstrip())
        declared.append(v)
        if self_dep_line and rng.random() < 0.3:
            lines.append("dep %s %s" % (v, v))
        rest = []
        for (a, b) in todo_deps:
            if a in declared and b in declared and rng.random() < 0.6:
                lines.append("dep %s %s" % (a, b))
            else:
                rest.append((a, b))
        todo_deps = rest
    for (a, b) in todo_deps:
        lines.append("dep %s %s" % (a, b))
    for (a, b) in todo_pairs:
        lines.append("pair %s %s" % (a, b))
    lines.append("finish")
    return Case(lines)


def exhaustive_small(start_idx):
    """every rank digraph (self-loops included) on 1..3 nodes, in-degree <= 3, identity statement order"""
    cases, idx = [], start_idx
    for n in (1, 2, 3):
        names = ["n%d" % i for i in range(n)]
        pairs = [(a, b) for a in names for b in names]
        for mask in range(1 << len(pairs)):
            es = [pairs[i] for i in range(len(pairs)) if mask >> i & 1]
            lines = ["case %d" % idx]
            for c in names:
                toks = ["r:%s" % a for (a, b) in es if b == c]
                lines.append(("node %s 0 %s" % (c, " ".join(toks))).rstrip())
            lines.append("finish")
            cases.append(Case(lines)); idx += 1
    return cases


def streams(rng, tier, seed):
    n = 700 if tier == "quick" else 20000
    cases = [gen_case(rng, i) for i in range(n)]
    if tier != "quick":
        cases += exhaustive_small(n)
    cdir = os.path.join(os.path.dirname(BUILD), "corpus", "C01")
    corpus = []
    if os.path.isdir(cdir):
        for f in sorted(os.listdir(cdir)):
            corpus.append(Case([l.rstrip("\n") for l in open(os.path.join(cdir, f)) if l.strip()]))
    return [Stream("rank", [os.path.join(BUILD, "hgv_rank")], model_cmd("C01Rank"), corpus + cases)]
