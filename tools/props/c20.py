"""C20 - recording a time-series and replaying the recording reproduces the same ticks.

The implementation driver (harness/drv_replay.cpp -> .build/hgv_replay) runs, per case, a REAL graph
replay(in) -> record(out) through the name-resolved operators, then a second graph replaying the
recorded buffer, and a bare TSOutput capture/apply round trip (`direct`).  The monitor below decides
the property on those outputs alone; its only own machinery is a schema/delta text parser and the
obvious set/dict fold ("spec apply").

Terminology
  replayable history  every delta of the input history is an *effective, canonical* tick from the state
                      reached so far (adds absent elements, removes present keys, child deltas effective,
                      no key both removed and modified) and it does not run into one of the two
                      asymmetries of the code named below.  On such histories recording 1 must be the
                      input history itself (with the code's canonical TSB form: every collection field
                      present, empty when it did not tick).
  asymmetry A         a TSS/TSD tick whose delta is empty on an already valid collection is recorded but
                      not re-created by replay  (tagged [C20-A])
  asymmetry B         a TSB capture carries the empty delta of every non-ticking collection field;
                      applying it validates a TSS/TSD field that was never valid  (tagged [C20-B])

Dynamic lists (streams `dynlist-*`, `recover-dynlist`): TSL<S> without a size.  There the ticks are WRITTEN to the
source through the raw output API (`source raw`: harness/replay_raw.h, list.at(i) / set.add / dict.at(key) ...), not
applied with apply_delta, so that a change of apply_delta cannot alter the source and its replay in the same way;
graph 1 is  hgv_rawsrc -> record(out),  graph 2 replays that recording.  Histories: contiguous growth, growth that
skips one or several indices, first tick at an index > 0, a skipped index ticking later, several new indices in one
tick, nested dynamic lists in dictionary values / bundle fields / lists.
  asymmetry D         (`touch c i`: at(i) without a write) a dynamic list that grows without its new last child ticking:
                      the delta is a map without a length, the replayed list stays shorter  (tagged [C20-D], a known finding; C20_D=off
                      silences the monitor on those histories - the correspondence check covers them in any case)

Recover / as-of stream (streams `recover-*`, harness/drv_recover.cpp -> .build/hgv_recover): the same histories
recorded SPARSELY (':memory:' backend) and read back the way a recovering component reads them:
record_replay::recorded_seed_resolver(start_time = cycle c) for EVERY cycle c of the run.  Decided on the
implementation output alone: the as-of state equals the value the live stream held at c (and that value is the
obvious fold of the input ticks up to c), the sparse recording is the input history, and the ordinary sparse
replay of the recording re-records the same ticks with the same values.  Only replayable histories are generated
there (no same-cycle remove + re-add, none of the asymmetries A/B/C).
"""
import os, re
from vlib import Case, Stream, BUILD, model_cmd

ID = "C20"
LEAN_MODULES = ["HgVerif.Props.C20", "HgVerif.Props.C20Recover", "HgVerif.Props.C20Dyn"]
THEOREMS = [
    "HgVerif.Delta.apply_capture", "HgVerif.Delta.capture_apply",
    "HgVerif.Delta.tick_hasEffect", "HgVerif.Delta.tick_observable", "HgVerif.Delta.apply_noEffect",
    "HgVerif.Delta.record_index", "HgVerif.Delta.replay_cycles", "HgVerif.Delta.replay_states",
    "HgVerif.Delta.replay_record_id", "HgVerif.Delta.replay_values", "HgVerif.Delta.gap_admitted",
    "HgVerif.Delta.emptyTick_not_replayed", "HgVerif.Delta.bundleDefault_validates",
    "HgVerif.Delta.ghostKey_not_recorded", "HgVerif.Delta.apply_capture_unrestricted_false",
    # recover / as-of stream (Props/C20Recover.lean)
    "HgVerif.Delta.recover_eq_value_at", "HgVerif.Delta.resolve_eq_value_at", "HgVerif.Delta.asof_eq_live",
    "HgVerif.Delta.recover_eq_spec", "HgVerif.Delta.record_times_increasing", "HgVerif.Delta.recover_prefix_monotone",
    "HgVerif.Delta.recover_all", "HgVerif.Delta.recordSparse_graph", "HgVerif.Delta.asof_graph_eq_live",
    "HgVerif.Delta.replaySparse_id", "HgVerif.Delta.apply_clear",
    "HgVerif.Delta.oneView_readd_wrong", "HgVerif.Delta.oneView_window_throws", "HgVerif.Delta.oneView_unsound",
    # dynamic lists (Props/C20Dyn.lean); the theorems above hold for every schema, dynamic lists included
    "HgVerif.Delta.dyn_apply_capture", "HgVerif.Delta.dyn_apply_capture_length", "HgVerif.Delta.dyn_capture_apply",
    "HgVerif.Delta.dyn_skip_tick", "HgVerif.Delta.dyn_skip_capture", "HgVerif.Delta.dyn_replay_record_id",
    "HgVerif.Delta.dyn_replay_states", "HgVerif.Delta.dyn_replay_values", "HgVerif.Delta.append_rule_breaks_round_trip",
    "HgVerif.Delta.append_rule_contiguous", "HgVerif.Delta.growth_without_tick_not_reproduced",
    "HgVerif.Delta.dyn_tick_last_needed", "HgVerif.Delta.clear_fresh",
]
CXX_TARGETS = ["hgv_replay", "hgv_recover"]
RULE = ("generated schemas to depth 3 (4 in thorough) over TS/SIGNAL/TSW/TSS/TSD/TSL/TSB with Int and Str scalars, "
        "histories of 2-15 ticks with gaps; a case is non-trivial when the schema is nested (depth >= 2) and the "
        "history contains a key/element removal, a re-add of a removed key, or a child-only tick; distinct by sha1 "
        "of the case text.  Recover / as-of stream: replayable histories biased to dictionaries of collections over 2-4 "
        "keys and to windows, the recording read as of EVERY cycle 0..last+2; non-trivial when a key with a collection "
        "child is added again in a cycle after its removal, when a window has several entries, or when folding the "
        "entries through one view would give another state or throw.  Dynamic-list streams: schemas with a dynamic TSL at "
        "top level or nested (dictionary value, bundle field, list element, list of lists), ticks written through the raw "
        "output API; non-trivial when some growth of a dynamic list skips an index or its first tick is at an index > 0")
TRUSTED = ["ankerl::unordered_dense / KeySlotStore modelled as key-indexed vectors over a finite key universe "
           "(per-key effects of apply_delta are independent, iteration order immaterial)",
           "the value layer (Value copy/equals, builders) and the graph engine's scheduling of the two nodes "
           "(C02/C18) are exercised, not modelled"]
ASSUMPTIONS = ["dense 'testing' backend (streams replayable / any-delta) and sparse ':memory:' backend (stream recover-asof), "
               "simulation mode, start time MIN_ST",
               "recover stream: recordings written by the record node in one run (strictly increasing entry times, "
               "record_times_increasing); the resolver is asked through its in-memory dispatch (backend 'memory')",
               "no invalidation ticks and no REF / duration TSW shapes (capture_delta rejects or skips them); dynamic TSL: "
               "indices 0..11, lists never shrink (the code has no removal surface)",
               "dynamic lists: a list that grows in a cycle has a ticking new last child (growth by at(i) without a write is "
               "situation D, proved to break the round trip: growth_without_tick_not_reproduced)",
               "theorems apply_capture / replay_record_id carry the hypothesis Replayable (no empty tick on a valid "
               "TSS/TSD, non-ticking TSS/TSD bundle fields already valid, every dictionary child valid); the two "
               "excluded situations are proved to break the round trip (emptyTick_not_replayed, "
               "bundleDefault_validates) and are reproduced on the implementation (tags [C20-A], [C20-B])"]

UNIV = 10          # key universe of the model: keys/elements 0..9 or s0..s9

# ------------------------------------------------------------------ schemas
# ('TS', str?) ('SIGNAL',) ('TSW', period, minp) ('TSS', str?) ('TSD', str?, child) ('TSL', child, n) ('TSB', [children])
# ('TSLD', child)  dynamic list  TSL<child>
DYN_MAX = 12       # a dynamic list's delta text names indices 0..DYN_MAX-1


def schema_text(s):
    k = s[0]
    if k == 'TS':
        return "TS<%s>" % ("Str" if s[1] else "Int")
    if k == 'SIGNAL':
        return "SIGNAL"
    if k == 'TSW':
        return "TSW<Int,%d,%d>" % (s[1], s[2])
    if k == 'TSS':
        return "TSS<%s>" % ("Str" if s[1] else "Int")
    if k == 'TSD':
        return "TSD<%s,%s>" % ("Str" if s[1] else "Int", schema_text(s[2]))
    if k == 'TSL':
        return "TSL<%s,%d>" % (schema_text(s[1]), s[2])
    if k == 'TSLD':
        return "TSL<%s>" % schema_text(s[1])
    if k == 'TSB':
        return "TSB<%s>" % ",".join("%s:%s" % (chr(97 + i), schema_text(c)) for i, c in enumerate(s[1]))
    raise ValueError(k)


class Cur:
    def __init__(self, t):
        self.t, self.i = t, 0

    def peek(self):
        return self.t[self.i] if self.i < len(self.t) else ''

    def eat(self, c):
        if self.t.startswith(c, self.i):
            self.i += len(c)
            return True
        return False

    def need(self, c):
        if not self.eat(c):
            raise ValueError("expected %r at %d in %r" % (c, self.i, self.t))

    def tok(self):
        m = re.compile(r"[A-Za-z0-9_]+").match(self.t, self.i)
        if not m:
            raise ValueError("token at %d in %r" % (self.i, self.t))
        self.i = m.end()
        return m.group(0)


def parse_schema(c):
    if c.eat("TSS<"):
        k = c.tok(); c.need(">")
        return ('TSS', k == "Str")
    if c.eat("TSD<"):
        k = c.tok(); c.need(",")
        ch = parse_schema(c); c.need(">")
        return ('TSD', k == "Str", ch)
    if c.eat("TSL<"):
        ch = parse_schema(c)
        if c.eat(">"):
            return ('TSLD', ch)
        c.need(",")
        n = int(c.tok()); c.need(">")
        return ('TSL', ch, n)
    if c.eat("TSB<"):
        fs = []
        while True:
            c.tok(); c.need(":")
            fs.append(parse_schema(c))
            if not c.eat(","):
                break
        c.need(">")
        return ('TSB', fs)
    if c.eat("TSW<"):
        c.tok(); c.need(",")
        p = int(c.tok()); c.need(",")
        m = int(c.tok()); c.need(">")
        return ('TSW', p, m)
    if c.eat("TS<"):
        k = c.tok(); c.need(">")
        return ('TS', k == "Str")
    if c.eat("SIGNAL"):
        return ('SIGNAL',)
    raise ValueError("schema %r" % c.t)


def is_collection(s):
    return s[0] in ('TSS', 'TSD', 'TSL', 'TSLD', 'TSB')


def depth(s):
    k = s[0]
    if k == 'TSD':
        return 1 + depth(s[2])
    if k in ('TSL', 'TSLD'):
        return 1 + depth(s[1])
    if k == 'TSB':
        return 1 + max(depth(c) for c in s[1])
    return 1


# ------------------------------------------------------------------ deltas: text <-> tree
# TS/TSW: int   SIGNAL: True   TSS: (added:set, removed:set)   TSD: (removed:set, {k: d})   TSL/TSB: {i: d}

def sc(isstr, n):
    return ("s%d" % n) if isstr else str(n)


def unsc(isstr, t):
    if isstr:
        if not re.fullmatch(r"s\d", t):
            raise ValueError("str token " + t)
        return int(t[1:])
    return int(t)


def parse_delta(s, c):
    k = s[0]
    if k in ('TS', 'TSW'):
        return unsc(k == 'TS' and s[1], c.tok())
    if k == 'SIGNAL':
        if c.tok() != "T":
            raise ValueError("signal")
        return True
    if k == 'TSS':
        add, rem = set(), set()
        c.need("{")
        if not c.eat("}"):
            while True:
                if c.eat("+"):
                    add.add(unsc(s[1], c.tok()))
                else:
                    c.need("-")
                    rem.add(unsc(s[1], c.tok()))
                if not c.eat(","):
                    break
            c.need("}")
        return (add, rem)
    if k == 'TSD':
        rem, mod = set(), {}
        c.need("{")
        if not c.eat("}"):
            while True:
                if c.eat("-"):
                    rem.add(unsc(s[1], c.tok()))
                else:
                    key = unsc(s[1], c.tok()); c.need("=")
                    mod[key] = parse_delta(s[2], c)
                if not c.eat(","):
                    break
            c.need("}")
        return (rem, mod)
    if k in ('TSL', 'TSLD'):
        out = {}
        c.need("[")
        if not c.eat("]"):
            while True:
                i = int(c.tok()); c.need("=")
                out[i] = parse_delta(s[1], c)
                if not c.eat(","):
                    break
            c.need("]")
        return out
    if k == 'TSB':
        out = {}
        c.need("(")
        if not c.eat(")"):
            while True:
                i = ord(c.tok()) - 97; c.need("=")
                out[i] = parse_delta(s[1][i], c)
                if not c.eat(","):
                    break
            c.need(")")
        return out
    raise ValueError(k)


def default_delta(s):
    k = s[0]
    if k == 'TSS':
        return (set(), set())
    if k == 'TSD':
        return (set(), {})
    if k in ('TSL', 'TSLD'):
        return {}
    if k == 'TSB':
        return {i: default_delta(c) for i, c in enumerate(s[1]) if is_collection(c)}
    return None


def canon(s, d):
    """the code's canonical form of a delta: every collection field of a TSB is present (empty = no tick)"""
    k = s[0]
    if k == 'TSD':
        return (set(d[0]), {key: canon(s[2], v) for key, v in d[1].items()})
    if k in ('TSL', 'TSLD'):
        return {i: canon(s[1], v) for i, v in d.items()}
    if k == 'TSB':
        out = {}
        for i, c in enumerate(s[1]):
            if i in d:
                out[i] = canon(c, d[i])
            elif is_collection(c):
                out[i] = default_delta(c)
        return out
    return d


def show_delta(s, d):
    k = s[0]
    if k in ('TS', 'TSW'):
        return sc(k == 'TS' and s[1], d)
    if k == 'SIGNAL':
        return "T"
    if k == 'TSS':
        return "{" + ",".join(["+" + sc(s[1], x) for x in sorted(d[0])] + ["-" + sc(s[1], x) for x in sorted(d[1])]) + "}"
    if k == 'TSD':
        return "{" + ",".join(["-" + sc(s[1], x) for x in sorted(d[0])] +
                              [sc(s[1], x) + "=" + show_delta(s[2], d[1][x]) for x in sorted(d[1])]) + "}"
    if k in ('TSL', 'TSLD'):
        return "[" + ",".join("%d=%s" % (i, show_delta(s[1], d[i])) for i in sorted(d)) + "]"
    if k == 'TSB':
        return "(" + ",".join("%s=%s" % (chr(97 + i), show_delta(s[1][i], d[i])) for i in sorted(d)) + ")"
    raise ValueError(k)


# ------------------------------------------------------------------ spec states (the obvious fold)
# TS/SIGNAL: None|v   TSW: None|list   TSS: None|set   TSD: None|dict   TSL/TSB: list of child states
# TSLD: list of the child states that exist (grows; a skipped index is a fresh child)

def fresh(s):
    k = s[0]
    if k == 'TSL':
        return [fresh(s[1]) for _ in range(s[2])]
    if k == 'TSLD':
        return []
    if k == 'TSB':
        return [fresh(c) for c in s[1]]
    return None


def grown(s, st, n):
    """a dynamic list after `at(n-1)`: every index below n exists"""
    return list(st) + [fresh(s[1]) for _ in range(n - len(st))]


def spec_apply(s, st, d):
    k = s[0]
    if k in ('TS', 'SIGNAL'):
        return d
    if k == 'TSW':
        return ((st or []) + [d])[-s[1]:]
    if k == 'TSS':
        return (set(st or ()) - d[1]) | d[0]
    if k == 'TSD':
        out = dict(st or {})
        for key in d[0]:
            out.pop(key, None)
        for key, cd in d[1].items():
            out[key] = spec_apply(s[2], out.get(key, fresh(s[2])), cd)
        return out
    if k == 'TSL':
        return [spec_apply(s[1], c, d[i]) if i in d else c for i, c in enumerate(st)]
    if k == 'TSLD':
        cur = grown(s, st, max(d) + 1) if d else list(st)
        return [spec_apply(s[1], c, d[i]) if i in d else c for i, c in enumerate(cur)]
    if k == 'TSB':
        return [spec_apply(c, st[i], d[i]) if i in d else st[i] for i, c in enumerate(s[1])]
    raise ValueError(k)


def show_state(s, st):
    k = s[0]
    if k == 'TS':
        return "_" if st is None else sc(s[1], st)
    if k == 'SIGNAL':
        return "_" if st is None else "T"
    if k == 'TSW':
        return "_" if not st else "<" + ";".join(str(x) for x in st) + ">"
    if k == 'TSS':
        return "_" if st is None else "{" + ",".join(sc(s[1], x) for x in sorted(st)) + "}"
    if k == 'TSD':
        return "_" if st is None else "{" + ",".join(sc(s[1], x) + "=" + show_state(s[2], st[x]) for x in sorted(st)) + "}"
    if k == 'TSL':
        return "[" + ",".join(show_state(s[1], c) for c in st) + "]"
    if k == 'TSLD':
        return "[" + ",".join(show_state(s[1], c) for c in st) + "]#%d" % len(st)
    if k == 'TSB':
        return "(" + ",".join("%s=%s" % (chr(97 + i), show_state(c, st[i])) for i, c in enumerate(s[1])) + ")"
    raise ValueError(k)


def is_valid(s, st):
    k = s[0]
    if k in ('TSL', 'TSLD'):
        return any(is_valid(s[1], c) for c in st)
    if k == 'TSB':
        return any(is_valid(c, st[i]) for i, c in enumerate(s[1]))
    if k == 'TSW':
        return bool(st)
    return st is not None


def inert(s, st):
    """applying the empty (default) delta of `s` to `st` changes nothing"""
    k = s[0]
    if k in ('TSS', 'TSD'):
        return st is not None
    if k == 'TSB':
        return all(inert(c, st[i]) for i, c in enumerate(s[1]) if is_collection(c))
    return True


def replayable(s, st, d):
    """`d` is an effective canonical tick from `st` that avoids asymmetries A and B (see module docstring)"""
    k = s[0]
    if k in ('TS', 'SIGNAL', 'TSW'):
        return True
    if k == 'TSS':
        cur = st or set()
        if d[0] & d[1] or d[0] & cur or not d[1] <= cur:
            return False
        return bool(d[0] or d[1]) or st is None
    if k == 'TSD':
        cur = st or {}
        if d[0] & set(d[1]) or not d[0] <= set(cur):
            return False
        for key, cd in d[1].items():
            if not replayable(s[2], cur.get(key, fresh(s[2])), cd):
                return False
            if not is_valid(s[2], spec_apply(s[2], cur.get(key, fresh(s[2])), cd)):
                return False
        return bool(d[0] or d[1]) or st is None
    if k == 'TSL':
        return bool(d) and all(0 <= i < s[2] and replayable(s[1], st[i], cd) for i, cd in d.items())
    if k == 'TSLD':
        # every named child ticks effectively (so the largest named index, the new last child, ticks too)
        return bool(d) and all(0 <= i < DYN_MAX and replayable(s[1], st[i] if i < len(st) else fresh(s[1]), cd)
                               for i, cd in d.items())
    if k == 'TSB':
        real = 0
        for i, c in enumerate(s[1]):
            if i in d and not (is_collection(c) and d[i] == default_delta(c) and inert(c, st[i])):
                if not replayable(c, st[i], d[i]):
                    return False
                real += 1
            elif is_collection(c) and not inert(c, st[i]):
                return False          # asymmetry B: its default would validate the field
        return real > 0
    raise ValueError(k)


# ------------------------------------------------------------------ generator
def gen_schema(rng, d, top=True, dyn=False):
    """dyn: dynamic lists allowed (only the dynamic-list streams ask for them)"""
    leafs = [('TS', False), ('TS', False), ('TS', True), ('SIGNAL',), ('TSS', False), ('TSS', True),
             ('TSW', rng.randint(1, 3), rng.randint(1, 2))]
    if d <= 1 or (not top and rng.random() < 0.25):
        return rng.choice(leafs)
    r = rng.random()
    if dyn and r < 0.35:
        return ('TSLD', gen_schema(rng, d - 1, False, dyn))
    if r < 0.4:
        return ('TSD', rng.random() < 0.3, gen_schema(rng, d - 1, False, dyn))
    if r < 0.6:
        return ('TSL', gen_schema(rng, d - 1, False, dyn), rng.randint(1, 3))
    return ('TSB', [gen_schema(rng, d - 1, False, dyn) for _ in range(rng.randint(1, 3))])


FIXED_SCHEMAS = [
    "TSD<Int,TSB<a:TS<Int>,b:TSS<Int>>>", "TSL<TSD<Str,TS<Int>>,2>", "TSD<Int,TSD<Int,TS<Int>>>",
    "TSB<a:TS<Int>,b:TSD<Int,TSL<TS<Int>,2>>,c:TSS<Str>>", "TSD<Str,TSL<TSS<Int>,2>>", "TSS<Int>", "TS<Int>",
    "SIGNAL", "TSW<Int,3,1>", "TSD<Int,TS<Int>>", "TSL<TSB<a:TSS<Int>,b:TS<Str>>,2>", "TSD<Int,TSD<Str,TSS<Int>>>",
    "TSB<a:TSB<a:TSS<Int>,b:TS<Int>>,b:TSL<TSW<Int,2,1>,2>>",
]


class Ctx:
    """remembers recently removed keys so that remove + re-add happens often"""
    def __init__(self, rng, key_univ=UNIV, dyn_mode=None):
        self.rng = rng
        self.graveyard = []
        self.key_univ = key_univ          # dictionary keys are drawn from 0..key_univ-1 (small = many re-adds)
        self.dyn_mode = dyn_mode          # None: mixed growth of dynamic lists; 'contiguous': never skip an index


def gen_dyn_indices(cx, n):
    """indices a tick of a dynamic list with `n` children names: old children, contiguous growth, growth that skips
    indices, several new indices at once; never beyond DYN_MAX-1"""
    rng = cx.rng
    room = DYN_MAX - n
    old = [i for i in range(n) if rng.random() < 0.35]
    new = []
    r = rng.random()
    if n >= 5 and rng.random() < 0.6:
        r = 1.0                                           # a long list mostly ticks its existing children
    if room > 0:
        if cx.dyn_mode == 'contiguous':
            if r < 0.6 or not n:
                new = list(range(n, n + min(room, rng.choice([1, 1, 2, 3]))))
        elif r < 0.25:                                    # contiguous growth (one or several)
            new = list(range(n, n + min(room, rng.choice([1, 1, 2, 3]))))
        elif r < 0.55:                                    # one new child, 1-3 indices skipped
            new = [min(DYN_MAX - 1, n + rng.choice([1, 1, 2, 3]))]
        elif r < 0.7:                                     # several new children with gaps between them
            cand = list(range(n, min(DYN_MAX, n + 6)))
            new = sorted(rng.sample(cand, min(len(cand), rng.choice([2, 2, 3]))))
        # else: no growth in this tick
    idx = sorted(set(old + new))
    if not idx:
        idx = [rng.randrange(n)] if n and (room == 0 or rng.random() < 0.5) else [n if cx.dyn_mode == 'contiguous' or rng.random() < 0.5 else min(DYN_MAX - 1, n + rng.choice([1, 2]))]
    return idx


def gen_tick(cx, s, st, fresh_child=False):
    """a replayable delta (tree, real parts only) from spec state `st`"""
    rng = cx.rng
    k = s[0]
    if k == 'TS':
        return rng.randint(0, 9) if s[1] else rng.randint(0, 99)
    if k == 'SIGNAL':
        return True
    if k == 'TSW':
        return rng.randint(0, 99)
    if k == 'TSS':
        cur = st or set()
        absent = [x for x in range(UNIV) if x not in cur]
        if st is None and rng.random() < 0.15:
            return (set(), set())
        add = set(rng.sample(absent, min(len(absent), rng.choice([0, 1, 1, 2, 3]))))
        rem = set(rng.sample(sorted(cur), min(len(cur), rng.choice([0, 0, 1, 2]))))
        if not add and not rem:
            if absent:
                add = {rng.choice(absent)}
            else:
                rem = {rng.choice(sorted(cur))}
        return (add, rem)
    if k == 'TSD':
        cur = st or {}
        if st is None and rng.random() < 0.1:
            return (set(), {})
        keys = sorted(cur)
        rem = set(rng.sample(keys, min(len(keys), rng.choice([0, 0, 1, 1, 2]))))
        stay = [x for x in keys if x not in rem]
        mod = {}
        for key in rng.sample(stay, min(len(stay), rng.choice([0, 1, 1, 2]))):      # child-only ticks
            mod[key] = gen_tick(cx, s[2], cur[key])
        absent = [x for x in range(cx.key_univ) if x not in cur]
        nnew = rng.choice([0, 1, 1, 2]) if keys else rng.choice([1, 2, 3])
        for _ in range(nnew):
            cand = [x for x in cx.graveyard if x in absent and x not in mod] if rng.random() < 0.6 else []
            pool = cand or [x for x in absent if x not in mod]
            if not pool:
                break
            key = rng.choice(pool)
            mod[key] = gen_tick(cx, s[2], fresh(s[2]), True)
        if not rem and not mod:
            if stay:
                key = rng.choice(stay)
                mod[key] = gen_tick(cx, s[2], cur[key])
            else:
                key = rng.choice(absent)
                mod[key] = gen_tick(cx, s[2], fresh(s[2]), True)
        cx.graveyard = (cx.graveyard + sorted(rem))[-4:]
        return (rem, mod)
    if k == 'TSL':
        idx = [i for i in range(s[2]) if rng.random() < 0.5] or [rng.randrange(s[2])]
        return {i: gen_tick(cx, s[1], st[i]) for i in idx}
    if k == 'TSLD':
        return {i: gen_tick(cx, s[1], st[i] if i < len(st) else fresh(s[1])) for i in gen_dyn_indices(cx, len(st))}
    if k == 'TSB':
        n = len(s[1])
        idx = set(i for i in range(n) if rng.random() < 0.5) or {rng.randrange(n)}
        for i, c in enumerate(s[1]):          # avoid asymmetry B: a not yet valid TSS/TSD field ticks with the bundle
            if is_collection(c) and not inert(c, st[i]):
                idx.add(i)
        return {i: gen_tick(cx, s[1][i], st[i]) for i in sorted(idx)}
    raise ValueError(k)


def gen_odd_tick(cx, s, st):
    """any syntactically valid delta: absent removals, present adds, same key removed and modified,
    empty child deltas, empty bundles, bundles without their defaults"""
    rng = cx.rng
    k = s[0]
    if k in ('TS', 'SIGNAL', 'TSW'):
        return gen_tick(cx, s, st)
    if k == 'TSS':
        return (set(rng.sample(range(UNIV), rng.choice([0, 0, 1, 2]))), set(rng.sample(range(UNIV), rng.choice([0, 0, 1, 2]))))
    if k == 'TSD':
        cur = st or {}
        pool = sorted(set(list(cur) + rng.sample(range(UNIV), 3)))
        rem = set(rng.sample(pool, min(len(pool), rng.choice([0, 0, 1, 2]))))
        mod = {}
        for key in rng.sample(pool, min(len(pool), rng.choice([0, 1, 1, 2]))):
            child = cur.get(key, fresh(s[2]))
            mod[key] = gen_odd_tick(cx, s[2], child) if rng.random() < 0.6 else gen_tick(cx, s[2], child)
        return (rem, mod)
    if k == 'TSL':
        return {i: (gen_odd_tick(cx, s[1], st[i]) if rng.random() < 0.5 else gen_tick(cx, s[1], st[i]))
                for i in range(s[2]) if rng.random() < 0.5}
    if k == 'TSLD':
        out = {}
        for i in ([] if rng.random() < 0.1 else gen_dyn_indices(cx, len(st))):
            child = st[i] if i < len(st) else fresh(s[1])
            out[i] = gen_odd_tick(cx, s[1], child) if rng.random() < 0.5 else gen_tick(cx, s[1], child)
        return out
    if k == 'TSB':
        return {i: (gen_odd_tick(cx, c, st[i]) if rng.random() < 0.5 else gen_tick(cx, c, st[i]))
                for i, c in enumerate(s[1]) if rng.random() < 0.5}
    raise ValueError(k)


def gen_case(rng, idx, kind, maxd, maxticks):
    if rng.random() < 0.25:
        s = parse_schema(Cur(rng.choice(FIXED_SCHEMAS)))
    else:
        s = gen_schema(rng, rng.randint(1, maxd))
    cx = Ctx(rng)
    lines = ["case %d" % idx, "schema " + schema_text(s)]
    st = fresh(s)
    cyc = rng.choice([0, 0, 0, 1, 2])
    for _ in range(rng.randint(2, maxticks)):
        odd = kind == 'odd' and rng.random() < 0.4
        d = gen_odd_tick(cx, s, st) if odd else gen_tick(cx, s, st)
        st = spec_apply(s, st, d)
        text = show_delta(s, d if (kind == 'odd' and rng.random() < 0.5) else canon(s, d))
        lines.append("tick %d %s" % (cyc, text))
        cyc += rng.choice([1, 1, 1, 2, 3])
    lines += ["run", "rerun", "final", "direct"]
    return Case(lines, {"kind": kind})


# ------------------------------------------------------------------ dynamic-list streams: generator
DYN_CHILDREN = ["TS<Int>", "TS<Int>", "TS<Int>", "TS<Str>", "TSS<Int>", "TSS<Int>", "TSS<Str>", "SIGNAL", "TSW<Int,2,1>",
                "TSD<Int,TS<Int>>", "TSD<Int,TSS<Int>>", "TSL<TS<Int>,2>", "TSB<a:TS<Int>,b:TS<Str>>",
                "TSB<a:TS<Int>,b:TSS<Int>>", "TSL<TS<Int>>", "TSL<TS<Int>>", "TSL<TSS<Int>>", "TSL<TSL<TS<Int>>>"]
DYN_FIXED = [   # the shapes of seeded/s90's demo and their neighbours
    "TSL<TS<Int>>", "TSL<TSS<Int>>", "TSD<Int,TSL<TS<Int>>>", "TSB<a:TS<Int>,b:TSL<TS<Int>>>", "TSL<TSL<TS<Int>>>",
    "TSD<Str,TSL<TSS<Int>>>", "TSL<TSL<TS<Int>>,2>", "TSB<a:TSL<TSS<Int>>,b:TSL<TS<Str>>>", "TSD<Int,TSB<a:TS<Int>,b:TSL<TS<Int>>>>",
    "TSL<TSD<Int,TSL<TS<Int>>>>",
]


def gen_dyn_schema(rng, maxd):
    r = rng.random()
    if r < 0.3:
        return parse_schema(Cur(rng.choice(DYN_FIXED)))
    if r < 0.8:
        inner = "TSL<%s>" % rng.choice(DYN_CHILDREN)
        w = rng.random()
        if w < 0.2:
            inner = "TSD<%s,%s>" % (rng.choice(["Int", "Int", "Str"]), inner)
        elif w < 0.35:
            inner = "TSB<a:TS<Int>,b:%s>" % inner
        elif w < 0.42:
            inner = "TSB<a:%s,b:TSS<Int>>" % inner
        elif w < 0.5:
            inner = "TSL<%s,2>" % inner
        elif w < 0.56:
            inner = "TSL<%s>" % inner
        elif w < 0.62:
            inner = "TSD<Int,TSD<Int,%s>>" % inner
        return parse_schema(Cur(inner))
    while True:
        s = gen_schema(rng, rng.randint(2, maxd), True, True)
        if _contains_kind(s, 'TSLD'):
            return s


def gen_dyn_case(rng, idx, kind, maxd, maxticks, tail, touch=False):
    """kind 'wf': replayable history written through the raw API (real parts only: a raw write of a default `{}` would
    tick the field); 'odd': arbitrary deltas; touch: at(i) without a write on a top-level dynamic list"""
    s = gen_dyn_schema(rng, maxd)
    if touch:
        s = ('TSLD', parse_schema(Cur(rng.choice(DYN_CHILDREN[:9]))))
    cx = Ctx(rng, key_univ=rng.choice([3, 4, UNIV]), dyn_mode='contiguous' if (kind == 'wf' and rng.random() < 0.12) else None)
    lines = ["case %d" % idx, "schema " + schema_text(s), "source raw"]
    st = fresh(s)
    cyc = rng.choice([0, 0, 0, 1, 2])
    for _ in range(rng.randint(2, maxticks)):
        if touch and rng.random() < 0.4:
            ti = min(DYN_MAX - 1, (len(st) + rng.choice([0, 0, 1, 2, -1])) if len(st) else rng.choice([0, 1, 2]))
            lines.append("touch %d %d" % (cyc, ti))
            st = grown(s, st, ti + 1)
            if rng.random() < 0.4:
                cyc += rng.choice([1, 1, 2])
                continue
        odd = kind == 'odd' and rng.random() < 0.4
        d = gen_odd_tick(cx, s, st) if odd else gen_tick(cx, s, st)
        st = spec_apply(s, st, d)
        lines.append("tick %d %s" % (cyc, show_delta(s, d)))
        cyc += rng.choice([1, 1, 1, 2, 3])
    return Case(lines + list(tail), {"kind": kind, "raw": True})


DYN_DIRECTED = [   # the histories of seeded/s90/drv_demo.cpp and the minimal growth patterns
    ["schema TSL<TS<Int>>", "source raw", "tick 0 [0=1]", "tick 1 [2=3]", "tick 2 [1=7]", "tick 3 [2=4]"],
    ["schema TSL<TS<Int>>", "source raw", "tick 0 [0=1]", "tick 1 [2=3]"],
    ["schema TSL<TS<Int>>", "source raw", "tick 0 [0=1]", "tick 1 [2=3]", "tick 3 [1=7]", "tick 4 [2=4]"],
    ["schema TSL<TSS<Int>>", "source raw", "tick 0 [0={+1}]", "tick 1 [2={+3}]", "tick 2 [0={+4},2={+5}]"],
    ["schema TSD<Int,TSL<TS<Int>>>", "source raw", "tick 0 {7=[0=1]}", "tick 1 {8=[1=5]}", "tick 2 {8=[0=6]}"],
    ["schema TSL<TS<Int>>", "source raw", "tick 0 [0=1]", "tick 1 [0=5,1=9]", "tick 2 [2=7]", "tick 3 [1=11]"],
    ["schema TSL<TS<Int>>", "source raw", "tick 0 [0=1,1=2,2=3]", "tick 2 [1=20]"],
    ["schema TSL<TS<Int>>", "source raw", "tick 2 [3=1]"],
    ["schema TSL<TS<Int>>", "source raw", "tick 0 [1=1,4=2,6=3]", "tick 1 [0=9,5=8]", "tick 3 [11=1]"],
    ["schema TSB<a:TS<Int>,b:TSL<TSL<TS<Int>>>>", "source raw", "tick 0 (a=1)", "tick 1 (b=[1=[2=5]])", "tick 2 (a=2)", "tick 3 (b=[0=[1=1],1=[0=2]])"],
    ["schema TSL<TSL<TS<Int>>,2>", "source raw", "tick 0 [1=[1=4]]", "tick 1 [0=[0=1],1=[3=2]]"],
    ["schema TSD<Str,TSL<TSS<Int>>>", "source raw", "tick 0 {s1=[2={}]}", "tick 1 {s1=[0={+1}],s2=[1={+2,+3}]}", "tick 2 {-s1}", "tick 3 {s1=[1={+7}]}"],
    ["schema TSL<TS<Int>>", "source raw"],
    # the same through apply_delta (source = replay of authored deltas)
    ["schema TSL<TS<Int>>", "tick 0 [0=1]", "tick 1 [2=3]", "tick 3 [1=7]"],
    ["schema TSD<Int,TSL<TS<Int>>>", "tick 0 {7=[0=1]}", "tick 1 {8=[1=5]}"],
]
DYN_TOUCH_DIRECTED = [   # growth without a tick (situation D)
    ["schema TSL<TS<Int>>", "source raw", "tick 0 [0=1]", "touch 1 4", "tick 2 [1=5]", "touch 3 6", "tick 3 [0=2]"],
    ["schema TSL<TS<Int>>", "source raw", "touch 0 2", "tick 0 [0=2]"],
    ["schema TSL<TSS<Int>>", "source raw", "tick 0 [1={+1}]", "touch 1 1", "tick 1 [0={+2}]", "touch 2 3"],
]


# ------------------------------------------------------------------ recover / as-of stream: generator
COLL_CHILDREN = [   # collection-valued dictionary children (the shapes whose slot state survives an erase in one cycle)
    "TSS<Int>", "TSS<Int>", "TSS<Str>", "TSD<Int,TS<Int>>", "TSD<Str,TS<Int>>", "TSD<Int,TSS<Int>>",
    "TSL<TS<Int>,2>", "TSL<TSS<Int>,2>", "TSL<TS<Str>,3>", "TSB<a:TS<Int>,b:TSS<Int>>", "TSB<a:TSS<Int>,b:TSD<Int,TS<Int>>>",
    "TSD<Int,TSL<TS<Int>,2>>", "TSB<a:TS<Int>,b:TS<Str>>", "TSL<TSW<Int,2,1>,2>",
]
RECOVER_FIXED = [   # the shapes of seeded/s35's demo and their neighbours
    "TSD<Int,TSS<Int>>", "TSD<Int,TSD<Int,TS<Int>>>", "TSD<Int,TSL<TS<Int>,2>>", "TSW<Int,3,1>", "TSW<Int,2,2>",
    "TSD<Int,TS<Int>>", "TSS<Int>", "TS<Int>", "TSL<TSS<Int>,2>", "TSB<a:TS<Int>,b:TSS<Int>>",
]


def gen_recover_schema(rng, maxd):
    r = rng.random()
    if r < 0.5:        # dictionary of collections, sometimes under one more level
        inner = "TSD<%s,%s>" % (rng.choice(["Int", "Int", "Str"]), rng.choice(COLL_CHILDREN))
        w = rng.random()
        if w < 0.12:
            inner = "TSL<%s,2>" % inner
        elif w < 0.24:
            inner = "TSB<a:TS<Int>,b:%s>" % inner
        elif w < 0.32:
            inner = "TSD<Int,%s>" % inner
        return parse_schema(Cur(inner))
    if r < 0.65:       # windows
        win = "TSW<Int,%d,%d>" % (rng.randint(1, 4), rng.randint(1, 2))
        w = rng.random()
        if w < 0.55:
            return parse_schema(Cur(win))
        if w < 0.7:
            return parse_schema(Cur("TSL<%s,2>" % win))
        if w < 0.85:
            return parse_schema(Cur("TSD<Int,%s>" % win))
        return parse_schema(Cur("TSB<a:%s,b:TS<Int>>" % win))
    if r < 0.8:
        return parse_schema(Cur(rng.choice(RECOVER_FIXED)))
    return gen_schema(rng, rng.randint(1, maxd))


def gen_recover_case(rng, idx, maxd, maxticks):
    s = gen_recover_schema(rng, maxd)
    cx = Ctx(rng, key_univ=rng.choice([2, 3, 3, 4, UNIV]))
    lines = ["case %d" % idx, "schema " + schema_text(s)]
    st = fresh(s)
    cyc = rng.choice([0, 0, 1, 2, 3])                  # start times before the first event exist when cyc > 0
    for _ in range(rng.randint(3, maxticks)):
        d = gen_tick(cx, s, st)
        st = spec_apply(s, st, d)
        lines.append("tick %d %s" % (cyc, show_delta(s, canon(s, d))))
        cyc += rng.choice([1, 1, 1, 2, 3])
    lines += ["record", "asof", "onetime", "replay", "values"]
    return Case(lines, {"kind": "wf"})


RECOVER_DIRECTED = [   # the histories of seeded/s35/drv_demo.cpp
    ["schema TS<Int>", "tick 0 1", "tick 3 3", "tick 4 3", "tick 6 7"],
    ["schema TSS<Int>", "tick 0 {+1,+2}", "tick 1 {+3,-1}", "tick 3 {+1,-2}", "tick 4 {-3}"],
    ["schema TSD<Int,TS<Int>>", "tick 0 {1=10,2=20}", "tick 1 {-2,1=11}", "tick 3 {2=7}", "tick 4 {-1}", "tick 5 {1=5}"],
    ["schema TSL<TSS<Int>,2>", "tick 0 [1={+1,+2}]", "tick 1 [0={+9}]", "tick 3 [0={-9},1={+3,-1}]"],
    ["schema TSB<a:TS<Int>,b:TSS<Int>>", "tick 0 (a=1,b={+1})", "tick 1 (a=2,b={})", "tick 3 (b={+2,-1})"],
    ["schema TSD<Int,TSS<Int>>", "tick 0 {1={+1,+2},2={+5}}", "tick 1 {1={+4,-1}}", "tick 3 {-2}", "tick 4 {3={+8}}"],
    ["schema TSD<Int,TSS<Int>>", "tick 0 {1={+1,+2},2={+5}}", "tick 1 {1={+4,-1}}", "tick 2 {-1}", "tick 4 {1={+3}}", "tick 5 {1={+6}}"],
    ["schema TSD<Int,TSD<Int,TS<Int>>>", "tick 0 {1={1=1,2=2}}", "tick 1 {-1}", "tick 4 {1={3=3}}"],
    ["schema TSD<Int,TSL<TS<Int>,2>>", "tick 0 {1=[0=1,1=2]}", "tick 1 {-1}", "tick 2 {1=[0=5]}"],
    ["schema TSW<Int,3,1>", "tick 0 1", "tick 1 2", "tick 3 3", "tick 4 4"],
    ["schema TSW<Int,2,2>", "tick 2 1", "tick 3 2", "tick 5 3"],
    ["schema TSD<Int,TSS<Int>>"],
]


DIRECTED = [   # minimal inputs for the two asymmetries and for the apply quirks (model must agree on all of them)
    ["schema TSS<Int>", "tick 0 {+1,+2}", "tick 1 {+1}"],
    ["schema TSD<Int,TSS<Int>>", "tick 0 {1={+2}}", "tick 1 {1={+2}}"],
    ["schema TSB<a:TS<Int>,b:TSS<Int>>", "tick 0 (a=1)"],
    ["schema TSD<Int,TSB<a:TS<Int>,b:TSD<Int,TS<Int>>>>", "tick 0 {1=(a=5)}", "tick 2 {1=(a=6)}"],
    ["schema TSD<Int,TSL<TS<Int>,2>>", "tick 0 {1=[]}", "tick 1 {-1,1=[0=3]}", "tick 2 {-1,1=[]}", "tick 3 {-1}"],
    ["schema TSD<Str,TSD<Int,TS<Int>>>", "tick 0 {s1={1=5}}", "tick 1 {s1={-1}}", "tick 2 {s1={-1}}", "tick 3 {s2={-1}}"],
    ["schema TSL<TSS<Int>,2>", "tick 0 [0={}]", "tick 1 [0={},1={+1}]", "tick 2 [1={+1}]"],
    ["schema TS<Int>", "tick 3 5"],
    ["schema TS<Int>"],
]


def streams(rng, tier, seed):
    quick = tier == "quick"
    n_wf, n_odd = (420, 160) if quick else (12000, 4000)
    maxd = 3 if quick else 4
    maxt = 12 if quick else 15
    exe = [os.path.join(BUILD, "hgv_replay")]
    cdir = os.path.join(os.path.dirname(BUILD), "corpus", "C20")
    corpus, rcorpus = [], []
    if os.path.isdir(cdir):
        for f in sorted(os.listdir(cdir)):
            cs = Case([l.rstrip("\n") for l in open(os.path.join(cdir, f)) if l.strip()])
            (rcorpus if "recover" in f else corpus).append(cs)        # *recover*: ops of hgv_recover
    wf = [gen_case(rng, i, 'wf', maxd, maxt) for i in range(n_wf)]
    out = [Stream("replayable", exe, model_cmd("C20"), corpus + wf)]
    if os.environ.get("C20_FINDINGS", "on") != "off":
        # histories with arbitrary (also ineffective / non-canonical) deltas: graph level first, then the same
        # histories on bare outputs
        bodies = [list(b) for b in DIRECTED]
        bodies += [gen_case(rng, 0, 'odd', maxd, maxt).lines[1:-4] for _ in range(n_odd)]
        tail_graph, tail_direct = ["run", "rerun", "final"], ["direct"]
        out.append(Stream("any-delta", exe, model_cmd("C20"),
                          [Case(["case %d" % i] + b + tail_graph) for i, b in enumerate(bodies)]))
        out.append(Stream("any-delta-bare-output", exe, model_cmd("C20"),
                          [Case(["case %d" % i] + b + tail_direct) for i, b in enumerate(bodies)]))
    # recover / as-of: generated last, so the cases of the streams above do not depend on it
    n_rec = 260 if quick else 8000
    rexe = [os.path.join(BUILD, "hgv_recover")]
    rtail = ["record", "asof", "onetime", "replay", "values"]
    rcases = rcorpus + [Case(["case %d" % (9100 + i)] + list(b) + rtail, {"kind": "wf"})
                        for i, b in enumerate(RECOVER_DIRECTED)]
    rcases += [gen_recover_case(rng, i, maxd, maxt) for i in range(n_rec)]
    out.append(Stream("recover-asof", rexe, model_cmd("C20"), rcases))
    # the same read over ARBITRARY deltas: correspondence only (model = implementation also where the history runs
    # into the asymmetries A/B/C; the recover monitor makes no claim about histories that are not replayable)
    n_any = 80 if quick else 2500
    acases = [Case(["case %d" % i] + gen_case(rng, 0, 'odd', maxd, maxt).lines[1:-4] + rtail) for i in range(n_any)]
    out.append(Stream("recover-any-delta", rexe, model_cmd("C20"), acases))
    # dynamic lists: generated after everything else (the streams above keep their cases); ticks written through the raw API
    n_dyn, n_dodd, n_dtouch, n_drec = (230, 70, 40, 90) if quick else (8000, 2500, 1200, 3000)
    dtail = ["run", "rerun", "final", "states", "direct"]
    dcases = [Case(["case %d" % (9300 + i)] + list(b) + dtail, {"kind": "wf", "raw": True}) for i, b in enumerate(DYN_DIRECTED)]
    dcases += [gen_dyn_case(rng, i, 'wf', maxd, maxt, dtail) for i in range(n_dyn)]
    out.append(Stream("dynlist-raw", exe, model_cmd("C20"), dcases))
    if os.environ.get("C20_FINDINGS", "on") != "off":
        ocases = [Case(["case %d" % (9400 + i)] + list(b) + dtail, {"kind": "odd", "raw": True})
                  for i, b in enumerate(DYN_TOUCH_DIRECTED)]
        ocases += [gen_dyn_case(rng, i, 'odd', maxd, maxt, dtail) for i in range(n_dodd)]
        ocases += [gen_dyn_case(rng, 5000 + i, rng.choice(['wf', 'wf', 'odd']), maxd, maxt, dtail, touch=True)
                   for i in range(n_dtouch)]
        for cs in ocases:
            cs.meta["kind"] = "odd"        # no stream-level promise that these histories are replayable
        out.append(Stream("dynlist-any", exe, model_cmd("C20"), ocases))
    drcases = [gen_dyn_case(rng, i, 'wf', maxd, maxt, rtail) for i in range(n_drec)]
    out.append(Stream("recover-dynlist", rexe, model_cmd("C20"), drcases))
    return out


# ------------------------------------------------------------------ monitor
def _parse_case(case, out):
    """-> dict(schema, ticks[(cycle, tree)], rec1, rec2 ({cycle: text}, n), val1, val2, direct) or None if unusable"""
    info = {"schema": None, "ticks": [], "rec1": None, "rec2": None, "vals": None, "direct": None, "bad": [],
            "raw": False, "touches": [], "states": None}
    for ln, o in zip(case.lines, list(out) + ["<none>"] * len(case.lines)):
        w = ln.split()
        if not w:
            continue
        if w[0] == "schema" and len(w) == 2:
            if o == "ok":
                try:
                    info["schema"] = parse_schema(Cur(w[1]))
                except Exception:
                    info["schema"] = None
            info["ticks"], info["touches"], info["raw"] = [], [], False
        elif w[0] == "source" and len(w) == 2 and o == "ok":
            info["raw"] = w[1] == "raw"
        elif w[0] == "touch" and len(w) == 3 and o == "ok":
            info["touches"].append((int(w[1]), int(w[2])))
        elif w[0] == "states":
            if o.startswith("states"):
                info["states"] = o.split()[1:]
            elif info["schema"] is not None and not o.startswith("err:norun"):
                info["bad"].append("states failed: %s" % o)
        elif w[0] == "tick" and len(w) == 3 and info["schema"] is not None:
            if o == "ok":
                try:
                    c = Cur(w[2])
                    d = parse_delta(info["schema"], c)
                    info["ticks"].append((int(w[1]), d))
                except Exception as e:
                    info["bad"].append("monitor cannot parse accepted tick %r: %s" % (ln, e))
        elif w[0] in ("run", "rerun"):
            tag = "rec1" if w[0] == "run" else "rec2"
            p = o.split()
            if p and p[0] == tag and len(p) >= 2 and p[1].startswith("n="):
                ticks = {}
                for t in p[2:]:
                    cyc, _, dt = t.partition(":")
                    ticks[int(cyc)] = dt
                info[tag] = (ticks, int(p[1][2:]))
            elif info["schema"] is not None and not o.startswith("err:norun"):
                info["bad"].append("%s failed: %s" % (w[0], o))
        elif w[0] == "final":
            m = re.fullmatch(r"val1=(\S+) val2=(\S+)", o)
            if m:
                info["vals"] = (m.group(1), m.group(2))
        elif w[0] == "direct":
            if o.startswith("direct"):
                info["direct"] = o.split()[1:]
            elif info["schema"] is not None:
                info["bad"].append("direct failed: %s" % o)
    return info


def parse_state(s, c):
    """state text (print_state of the drivers) -> spec state tree"""
    k = s[0]
    if k in ('TS', 'SIGNAL'):
        t = c.tok()
        if t == "_":
            return None
        return True if k == 'SIGNAL' else unsc(s[1], t)
    if k == 'TSW':
        if c.eat("_"):
            return None
        c.need("<")
        out = []
        while not c.eat(">"):
            out.append(int(c.tok()))
            c.eat(";")
        return out
    if k == 'TSS':
        if c.eat("_"):
            return None
        out = set()
        c.need("{")
        if not c.eat("}"):
            while True:
                out.add(unsc(s[1], c.tok()))
                if not c.eat(","):
                    break
            c.need("}")
        return out
    if k == 'TSD':
        if c.eat("_"):
            return None
        out = {}
        c.need("{")
        if not c.eat("}"):
            while True:
                key = unsc(s[1], c.tok()); c.need("=")
                out[key] = parse_state(s[2], c)
                if not c.eat(","):
                    break
            c.need("}")
        return out
    if k == 'TSL':
        c.need("[")
        out = []
        for i in range(s[2]):
            if i:
                c.need(",")
            out.append(parse_state(s[1], c))
        c.need("]")
        return out
    if k == 'TSLD':
        c.need("[")
        out = []
        if not c.eat("]"):
            while True:
                out.append(parse_state(s[1], c))
                if not c.eat(","):
                    break
            c.need("]")
        c.need("#")
        if int(c.tok()) != len(out):
            raise ValueError("dynamic list size")
        return out
    if k == 'TSB':
        c.need("(")
        out = []
        for i, ch in enumerate(s[1]):
            if i:
                c.need(",")
            c.tok(); c.need("=")
            out.append(parse_state(ch, c))
        c.need(")")
        return out
    raise ValueError(k)


def _norm(s, st, b, cc, dd=False):
    """b: read a never-valid TSS/TSD as the empty one; cc: drop dictionary keys whose child is not valid;
    dd: drop the trailing never-valid children of a dynamic list"""
    k = s[0]
    if k == 'TSS':
        return set() if (st is None and b) else st
    if k == 'TSD':
        if st is None:
            return {} if b else None
        return {key: _norm(s[2], v, b, cc, dd) for key, v in st.items() if not (cc and not is_valid(s[2], v))}
    if k == 'TSL':
        return [_norm(s[1], c, b, cc, dd) for c in st]
    if k == 'TSLD':
        out = list(st)
        while dd and out and not is_valid(s[1], out[-1]):
            out.pop()
        return [_norm(s[1], c, b, cc, dd) for c in out]
    if k == 'TSB':
        return [_norm(c, st[i], b, cc, dd) for i, c in enumerate(s[1])]
    return st


def _state_class(s, t1, t2):
    """why two state texts differ: 'B', 'C', 'D', 'B+C', ... (explained by the known asymmetries) or None"""
    try:
        a, b = parse_state(s, Cur(t1)), parse_state(s, Cur(t2))
    except Exception:
        return None
    for tag, fb, fc, fd in (("B", True, False, False), ("C", False, True, False), ("D", False, False, True),
                            ("B+C", True, True, False), ("B+D", True, False, True), ("C+D", False, True, True),
                            ("B+C+D", True, True, True)):
        if _norm(s, a, fb, fc, fd) == _norm(s, b, fb, fc, fd):
            return tag
    return None


MSG_A = "[C20-A] an empty tick of an already valid TSS/TSD is recorded but not re-created by replay: "
MSG_B = "[C20-B] a captured TSB delta carries the empty delta of a non-ticking TSS/TSD field; applying it validates the never-valid field: "
MSG_C = "[C20-C] a dictionary key whose child never became valid is not recorded: "
MSG_D = "[C20-D] a dynamic list that grew (at(i)) without its new last child ticking is not re-created at that length by replay: "
MSG_0 = "[C20] "
D_ON = os.environ.get("C20_D", "on") == "on"      # report situation D (see the module docstring)


def _msg_for_state(tag, s, t1, t2):
    if tag is not None:
        return tag
    cls = _state_class(s, t1, t2)
    return {None: MSG_0, "B": MSG_B, "C": MSG_C, "D": MSG_D, "B+C": MSG_B, "B+D": MSG_B, "C+D": MSG_C, "B+C+D": MSG_B}[cls]


def _analyse(case, out):
    info = _parse_case(case, out)
    bad = list(info["bad"])
    feats = set()
    s = info["schema"]
    if s is None:
        return bad, feats, info, True
    feats.add("kind-" + s[0]); feats.add("depth-%d" % depth(s))
    # is the input history replayable (effective, canonical, away from A and B)?
    st = fresh(s)
    ok_hist = True
    prev = None
    seen_removed = set()
    has_d = False
    exp_states = {}
    if info["raw"]:
        feats.add("source-raw")
    tick_at = dict(info["ticks"])
    for cyc in sorted(set(tick_at) | set(c for c, _ in info["touches"])):
        d = tick_at.get(cyc)
        tch = [i for c, i in info["touches"] if c == cyc]
        if tch and s[0] == 'TSLD':
            feats.add("dyn:touch-without-write")
            named = (max(d) + 1) if d else 0
            if max(max(tch) + 1, named, len(st)) != max(named, len(st)):
                has_d = True                   # growth that no entry of the delta witnesses
                ok_hist = False
                feats.add("dyn:unwitnessed-growth")
            st = grown(s, st, max(tch) + 1)
        if d is None:
            continue
        if prev is not None and cyc > prev + 1:
            feats.add("gap")
        if prev is None and cyc > 0:
            feats.add("leading-gap")
        prev = cyc
        if ok_hist and not replayable(s, st, d):
            ok_hist = False
        _features_of(s, st, d, feats, seen_removed)
        st = spec_apply(s, st, d)
        exp_states[cyc] = show_state(s, st)
    feats.add("history-replayable" if ok_hist else "history-any")
    if not ok_hist and not has_d:
        # growth that nothing witnesses also comes from a delta whose entry for a new last index has no effect
        # (`[10=()]`: at(10) grows the list, the gated child apply does nothing): read it off the source's own states
        texts = [t.partition(":")[2].split("|")[2] for t in (info["direct"] or []) if t.count("|") == 3]
        texts += [t.partition(":")[2].partition("|")[0] for t in (info["states"] or [])]
        texts += [info["vals"][0]] if info["vals"] else []
        for tx in texts:
            try:
                ps = parse_state(s, Cur(tx))
            except Exception:
                continue
            if _norm(s, ps, False, False, True) != _norm(s, ps, False, False, False):
                has_d = True
                feats.add("dyn:unwitnessed-growth")
                break
    if has_d and not D_ON:
        # situation D is not reported yet (module docstring): the monitor makes no claim, the correspondence does
        return bad, feats, info, ok_hist
    if not ok_hist and getattr(case, "meta", {}).get("kind") == "wf":
        # a shrink candidate of a generated replayable history that is no longer replayable: outside the
        # contract of that stream, not evidence (keeps minimised replays inside the property's scope)
        return bad, feats, info, ok_hist
    tag = MSG_0 if ok_hist else None
    r1, r2 = info["rec1"], info["rec2"]
    if r1 is not None and ok_hist:
        exp = {cyc: show_delta(s, canon(s, d)) for cyc, d in info["ticks"]}
        expn = (info["ticks"][-1][0] + 1) if info["ticks"] else 0
        if r1[0] != exp or r1[1] != expn:
            diff = sorted(set(r1[0].items()) ^ set(exp.items()))[:2]
            bad.append(MSG_0 + "recording 1 is not the input history (canonical form): n=%d expected %d, differing ticks %s"
                       % (r1[1], expn, diff))
    if r1 is not None and r2 is not None and r1 != r2:
        cycs = sorted(c for c in set(r1[0]) | set(r2[0]) if r1[0].get(c) != r2[0].get(c))
        c0 = cycs[0] if cycs else -1
        t = tag or (MSG_A if "{}" in r1[0].get(c0, "") else MSG_0)
        bad.append("%sreplaying recording 1 does not reproduce it: cycle %s recorded %s, replayed+recorded %s (n=%d vs %d)"
                   % (t, c0, r1[0].get(c0, "no tick"), r2[0].get(c0, "no tick"), r1[1], r2[1]))
    if info["vals"] is not None:
        v1, v2 = info["vals"]
        if v1 != v2:
            t = _msg_for_state(tag, s, v1, v2)
            bad.append("%sfinal values differ: original %s, replay of the recording %s" % (t, v1, v2))
        if r1 is not None:
            try:
                f = fresh(s)
                for cyc in sorted(r1[0]):
                    f = spec_apply(s, f, parse_delta(s, Cur(r1[0][cyc])))
                fv = show_state(s, f)
                if fv != v1:
                    t = _msg_for_state(tag, s, v1, fv)
                    bad.append("%sfolding recording 1 from empty gives %s, the recorded series ended at %s" % (t, fv, v1))
            except Exception as e:
                bad.append("[C20] recording 1 is not parseable: %s" % e)
    if info["states"] is not None:
        seen1 = {}
        for t in info["states"]:
            cyc, _, rest = t.partition(":")
            a, _, b = rest.partition("|")
            if a != "-":
                seen1[int(cyc)] = a
            if a != b:
                if "-" not in (a, b):
                    tt = _msg_for_state(tag, s, a, b)
                else:      # a cycle that ticked in one run only: the empty tick of asymmetry A, or unexplained
                    tt = tag or (MSG_A if (r1 is not None and "{}" in r1[0].get(int(cyc), "")) else MSG_0)
                bad.append("%sstate in cycle %s: original %s, replay of the recording %s" % (tt, cyc, a, b))
                break
        if ok_hist and seen1 != exp_states:
            diff = sorted(set(seen1.items()) ^ set(exp_states.items()))[:2]
            bad.append(MSG_0 + "the source's per-cycle states are not the fold of the input ticks: %s" % diff)
    if info["direct"] is not None:
        for t in info["direct"]:
            cyc, _, rest = t.partition(":")
            parts = rest.split("|")
            if len(parts) != 4:
                bad.append("[C20] malformed direct entry %s" % t)
                continue
            d, d2, a, b = parts
            if d == "-":
                if ok_hist and int(cyc) in tick_at:        # (a raw source's touch-only step does not tick)
                    bad.append("[C20] applying tick %s to a bare output did not tick" % cyc)
                continue
            if d.endswith("!unobservable"):
                bad.append("%stick %s captured as %s is classified unobservable" % (tag or MSG_0, cyc, d))
                continue
            if d2 != d:
                tt = tag or (MSG_A if "{}" in d else MSG_0)
                bad.append("%scapture from the copy differs at tick %s: %s vs %s" % (tt, cyc, d, d2))
            if a != b:
                tt = _msg_for_state(tag, s, a, b)
                bad.append("%sapply(capture) on a copy differs from the post-tick state at tick %s: %s vs %s" % (tt, cyc, a, b))
    # order: unexplained first
    bad.sort(key=lambda m: (m.startswith("[C20-"), m))
    return bad, feats, info, ok_hist


def _features_of(s, st, d, feats, seen_removed, top=True):
    k = s[0]
    if k == 'TSS':
        if d[1]:
            feats.add("set-removal")
        if not d[0] and not d[1]:
            feats.add("empty-set-delta")
    elif k == 'TSD':
        cur = st or {}
        if d[0]:
            feats.add("key-removal")
            seen_removed.update(d[0])
        if not d[0] and not d[1]:
            feats.add("empty-dict-delta")
        if d[0] & set(d[1]):
            feats.add("same-tick-remove-and-modify")
        for key, cd in d[1].items():
            if key in cur and key not in d[0]:
                feats.add("child-only-tick")
            elif key in seen_removed and key not in cur:
                feats.add("remove-then-re-add")
            _features_of(s[2], cur.get(key, fresh(s[2])), cd, feats, set(), False)
    elif k == 'TSL':
        if len(d) < s[2]:
            feats.add("partial-list-tick")
        for i, cd in d.items():
            if 0 <= i < s[2]:
                _features_of(s[1], st[i], cd, feats, set(), False)
    elif k == 'TSLD':
        n = len(st)
        feats.add("dyn:list-top" if top else "dyn:list-nested")
        new = sorted(i for i in d if i >= n)
        if new:
            if new == list(range(n, n + len(new))):
                feats.add("dyn:contiguous-growth")
            else:
                feats.add("dyn:growth-skips-index")
                if len(new) >= 2 or new[0] - n >= 2:
                    feats.add("dyn:growth-skips-several")
            if len(new) >= 2:
                feats.add("dyn:several-new-indices")
            if n == 0 and new[0] > 0:
                feats.add("dyn:first-tick-at-index>0")
        if any(i < n and is_valid(s[1], st[i]) for i in d):
            feats.add("dyn:child-only-tick")
        if any(i < n and not is_valid(s[1], st[i]) for i in d):
            feats.add("dyn:skipped-index-ticks-later")
        if not d:
            feats.add("dyn:empty-list-delta")
        for i, cd in d.items():
            _features_of(s[1], st[i] if i < n else fresh(s[1]), cd, feats, set(), False)
    elif k == 'TSB':
        if len([i for i in d if not (is_collection(s[1][i]) and d[i] == default_delta(s[1][i]))]) < len(s[1]):
            feats.add("partial-bundle-tick")
        for i, cd in d.items():
            _features_of(s[1][i], st[i], cd, feats, set(), False)


# ------------------------------------------------------------------ recover / as-of stream: monitor
def show_value(s, st, top=True):
    """text of Value{ts.value()} for the spec state `st` (print_value of harness/drv_recover.cpp): a copied value keeps
    validity only for bundle fields; other never-valid positions read as the default of their value type"""
    if top:
        return show_value(s, st, False) if is_valid(s, st) else "-"
    k = s[0]
    if k == 'TS':
        return ("" if s[1] else "0") if st is None else sc(s[1], st)
    if k == 'SIGNAL':
        return "F" if st is None else "T"
    if k == 'TSW':
        w = list(st or [])
        return "<" + ";".join(str(x) for x in w + [0] * (s[1] - len(w))) + ">"
    if k == 'TSS':
        return "{" + ",".join(sc(s[1], x) for x in sorted(st or ())) + "}"
    if k == 'TSD':
        return "{" + ",".join(sc(s[1], x) + "=" + show_value(s[2], (st or {})[x], False) for x in sorted(st or {})) + "}"
    if k == 'TSL':
        return "[" + ",".join(show_value(s[1], c, False) for c in st) + "]"
    if k == 'TSLD':
        return "[" + ",".join(show_value(s[1], c, False) for c in st) + "]#%d" % len(st)
    if k == 'TSB':
        return "(" + ",".join("%s=%s" % (chr(97 + i), show_value(c, st[i], False) if is_valid(c, st[i]) else "_")
                              for i, c in enumerate(s[1])) + ")"
    raise ValueError(k)


def _entries(o, tag):
    """'<tag> c:text c:text ...' -> [(c, text)] or None"""
    p = o.split(" ")
    if not p or p[0] != tag:
        return None
    res = []
    for t in p[1:]:
        cyc, sep, rest = t.partition(":")
        if not sep or not cyc.isdigit():
            return None
        res.append((int(cyc), rest))
    return res


def _has_coll_child(s):
    return s[0] == 'TSD' and is_collection(s[2])


def _readd_collection(s, st, d, removed_at, feats, path=()):
    """feature: a key of a dictionary with a collection-valued child is added again in a cycle after its removal"""
    k = s[0]
    if k == 'TSD':
        cur = st or {}
        for key in d[0]:
            removed_at.add(path + (key,))
        for key, cd in d[1].items():
            if key not in cur and (path + (key,)) in removed_at and is_collection(s[2]):
                feats.add("recover:re-add-of-collection-child")
            _readd_collection(s[2], cur.get(key, fresh(s[2])), cd, removed_at, feats, path + (key,))
    elif k == 'TSL':
        for i, cd in d.items():
            if 0 <= i < s[2]:
                _readd_collection(s[1], st[i], cd, removed_at, feats, path + ("#%d" % i,))
    elif k == 'TSLD':
        for i, cd in d.items():
            _readd_collection(s[1], st[i] if i < len(st) else fresh(s[1]), cd, removed_at, feats, path + ("#%d" % i,))
    elif k == 'TSB':
        for i, cd in d.items():
            _readd_collection(s[1][i], st[i], cd, removed_at, feats, path + (".%d" % i,))


def _contains_kind(s, kind):
    k = s[0]
    if k == kind:
        return True
    if k == 'TSD':
        return _contains_kind(s[2], kind)
    if k in ('TSL', 'TSLD'):
        return _contains_kind(s[1], kind)
    if k == 'TSB':
        return any(_contains_kind(c, kind) for c in s[1])
    return False


def _analyse_recover(case, out):
    bad, feats = [], set()
    s, ticks, parse_bad = None, [], []
    got = {}
    for ln, o in zip(case.lines, list(out) + ["<none>"] * len(case.lines)):
        w = ln.split()
        if not w:
            continue
        if w[0] == "schema" and len(w) == 2:
            ticks, got = [], {}
            try:
                s = parse_schema(Cur(w[1])) if o == "ok" else None
            except Exception:
                s = None
        elif w[0] == "tick" and len(w) == 3 and s is not None:
            if o == "ok":
                try:
                    ticks.append((int(w[1]), parse_delta(s, Cur(w[2]))))
                except Exception as e:
                    parse_bad.append("monitor cannot parse accepted tick %r: %s" % (ln, e))
        elif w[0] in ("record", "asof", "onetime", "replay", "values") and len(w) == 1:
            got[w[0]] = o
    if s is None:
        return bad, feats
    feats.add("recover:kind-" + s[0]); feats.add("recover:depth-%d" % depth(s))
    # the history: replayable?  (only those are in the scope of this stream; shrink candidates that leave it say nothing)
    st, ok_hist, states = fresh(s), True, []
    removed_at = set()
    for cyc, d in ticks:
        if ok_hist and not replayable(s, st, d):
            ok_hist = False
        if ok_hist:
            _readd_collection(s, st, d, removed_at, feats)
            if _contains_kind(s, 'TSLD'):
                f2 = set()
                _features_of(s, st, d, f2, set())
                feats.update("recover:" + x for x in f2 if x.startswith("dyn:"))
        st = spec_apply(s, st, d)
        states.append((cyc, st))
    if not ok_hist:
        feats.add("recover:history-not-replayable")
        return [], feats
    bad += parse_bad
    if _contains_kind(s, 'TSW') and len(ticks) >= 2:
        feats.add("recover:window-with-several-entries")
    if ticks and ticks[0][0] > 0:
        feats.add("recover:as-of-before-first-entry")
    if any(b[0] > a[0] + 1 for a, b in zip(ticks, ticks[1:])):
        feats.add("recover:as-of-between-entries")

    def value_at(c):
        cur = fresh(s)
        for cyc, stc in states:
            if cyc <= c:
                cur = stc
        return show_value(s, cur)

    exp_rec = [(cyc, show_delta(s, canon(s, d))) for cyc, d in ticks]
    # 1. the sparse recording is the input history
    rec = _entries(got.get("record", ""), "srec")
    if "record" in got:
        if rec is None:
            bad.append(MSG_0 + "recover: sparse record run failed: %s" % got["record"][:80])
        elif rec != exp_rec:
            diff = [x for x in rec if x not in exp_rec][:1] + [x for x in exp_rec if x not in rec][:1]
            bad.append(MSG_0 + "recover: the sparse recording is not the input history (canonical form): %d entries, expected %d, "
                       "first differing %s" % (len(rec), len(exp_rec), diff))
    # 2. the as-of read at EVERY cycle
    if "asof" in got and rec is not None:
        asof = _entries(got["asof"], "asof")
        hi = (rec[-1][0] if rec else 0) + 2
        if asof is None or [c for c, _ in asof] != list(range(hi + 1)):
            bad.append(MSG_0 + "recover: as-of output is not one entry per cycle 0..%d: %s" % (hi, got["asof"][:80]))
        else:
            feats.add("recover:as-of-after-last-entry")
            for c, t in asof:
                parts = t.split("|")
                if len(parts) != 3:
                    bad.append(MSG_0 + "recover: malformed as-of entry %d:%s" % (c, t))
                    break
                a, lv, eq = parts
                want = value_at(c)
                if a.startswith("err:"):
                    bad.append(MSG_0 + "recover: reading the recording as of cycle %d throws (%s); the recorded stream held %s there"
                               % (c, a, lv))
                    break
                if a != lv or eq != "=":
                    bad.append(MSG_0 + "recover: state of the recording as of cycle %d is %s but the recorded stream held %s there%s"
                               % (c, a, lv, "" if a != lv else " (Value::equals says different)"))
                    break
                if lv != want:
                    bad.append(MSG_0 + "recover: the live stream held %s at cycle %d, folding the input ticks up to there gives %s"
                               % (lv, c, want))
                    break
    # 3. what folding everything through ONE view would give (coverage only: the resolver must not do that)
    if "onetime" in got and "asof" in got:
        one, asof = _entries(got["onetime"], "onetime"), _entries(got["asof"], "asof")
        if one and asof and len(one) == len(asof):
            for (c, t), (_, a) in zip(one, asof):
                if t.startswith("err:"):
                    feats.add("recover:one-view-fold-would-throw")
                elif t != a.split("|")[0]:
                    feats.add("recover:one-view-fold-would-differ")
    # 4. the ordinary (sparse) replay of the recording
    if "replay" in got and rec is not None:
        rec2 = _entries(got["replay"], "srec2")
        if rec2 is None:
            bad.append(MSG_0 + "recover: replay of the sparse recording failed: %s" % got["replay"][:80])
        elif rec2 != rec:
            diff = [x for x in rec2 if x not in rec][:1] + [x for x in rec if x not in rec2][:1]
            bad.append(MSG_0 + "recover: replaying the sparse recording and recording again gives other ticks: %s" % diff)
    if "values" in got and rec is not None:
        vals = _entries(got["values"], "vals")
        if vals is None:
            bad.append(MSG_0 + "recover: no values: %s" % got["values"][:80])
        else:
            if [c for c, _ in vals] != [c for c, _ in exp_rec]:
                bad.append(MSG_0 + "recover: the streams ticked in cycles %s, the input history in %s"
                           % ([c for c, _ in vals], [c for c, _ in exp_rec]))
            for c, t in vals:
                a, _, b = t.partition("|")
                if a != b:
                    bad.append(MSG_0 + "recover: value at cycle %d: original %s, replay of the recording %s" % (c, a, b))
                    break
    return bad, feats


def monitor(stream, case, out):
    if stream.startswith("recover"):
        return _analyse_recover(case, out)[0][:3]
    return _analyse(case, out)[0][:3]


def features(stream, case, out):
    if stream.startswith("recover"):
        return sorted(_analyse_recover(case, out)[1])
    return sorted(_analyse(case, out)[1])


def nontrivial(stream, case, out):
    if stream.startswith("recover"):
        f = _analyse_recover(case, out)[1]
        if stream == "recover-dynlist":
            return bool(f & {"recover:dyn:growth-skips-index", "recover:dyn:first-tick-at-index>0"})
        return bool(f & {"recover:re-add-of-collection-child", "recover:window-with-several-entries",
                         "recover:one-view-fold-would-differ", "recover:one-view-fold-would-throw"})
    f = _analyse(case, out)[1]
    if stream.startswith("dynlist"):
        return bool(f & {"dyn:growth-skips-index", "dyn:first-tick-at-index>0", "dyn:unwitnessed-growth"})
    deep = bool(f & {"depth-2", "depth-3", "depth-4"})
    return deep and bool(f & {"key-removal", "set-removal", "remove-then-re-add", "child-only-tick"})


TECHNIQUE = ("Lean 4 proof (structural induction on the schema: apply(capture) round trip with marks; induction over "
             "the tick history for the replay->record graph with the dense buffer and for the as-of fold of the sparse "
             "recording) with differential correspondence against real replay->record graphs built from /repo through "
             "the erased operator path and against record_replay::recorded_seed_resolver asked at every cycle")
LEVEL_TEXT = ("Kernel-checked for every schema (TS, SIGNAL, TSW, TSS, TSD, fixed and dynamic TSL, TSB, any nesting) and every "
              "replayable tick: applying the captured delta to the pre-tick state gives the post-tick state including "
              "its per-position marks, capturing from the copy gives the same delta, and for every tick history "
              "(gaps, removals, child-only ticks, empty validating deltas) the graph replay->record over the recording "
              "reproduces the recording (same buffer length, cycles, deltas) and the same per-cycle states. The two "
              "situations excluded by 'replayable' are proved to break the round trip in the model and are reproduced "
              "on the implementation. Recover read: for every schema, every such history and every cycle c the recording "
              "folded as of c (each entry through a view at its own time, as recorded_seed_resolver does) is the value the "
              "series held at c and equals what a live probe last saw; folding through one view is proved wrong by witness. "
              "Dynamic lists (growth by at(i), any number of skipped indices, first tick at any index, any child schema, "
              "nested anywhere): the same theorems, incl. the length of the replayed list; the rule 'append at the next free "
              "position' is refuted on [{0:1},{2:3}].")
LEVEL_NOTE = ("Trusted: Lean kernel; axioms propext/Classical.choice/Quot.sound; the hand-written model of ts_delta.cpp, "
              "the slot stores' delta marks and the two operators; the correspondence harness (real graphs, quick tier "
              "about 600 histories + about 270 sparse recordings read as of every cycle + about 450 dynamic-list histories whose "
              "source is written through the raw output API). Not covered: REF, duration windows, invalidation ticks, "
              "recordings appended across runs, extension seed resolvers; growth of a dynamic list that no delta entry "
              "witnesses (situation D) is excluded by hypothesis and proved to break the round trip.")
