"""C07 - simulation runs are reproducible and isolated from each other."""
import engine_common as ec
import engine_plugin as ep
from vlib import Case, Stream
import c07gs as gs
import c07notify as nt
import c07cfg as cf
import c07svc as sv
import c11 as rd      # the reduce generators / model driver (stream reduce-history)
import os
from vlib import BUILD, model_cmd as _model_cmd

ID = "C07"
LEAN_MODULES = ['HgVerif.Props.C07', 'HgVerif.Model.Engine', 'HgVerif.Model.Extracted'] + gs.LEAN_MODULES + list(nt.LEAN_MODULES) + list(cf.LEAN_MODULES) + ['HgVerif.Model.ReduceKeyed', 'HgVerif.Model.Slots'] + list(sv.LEAN_MODULES)
THEOREMS = ['HgVerif.Runs.interleave_independent', 'HgVerif.Runs.intern_history_free', 'HgVerif.Runs.run_is_function'] + gs.THEOREMS + list(nt.THEOREMS) + list(cf.THEOREMS) + list(sv.THEOREMS)
CXX_TARGETS = ['hgv_engine'] + gs.CXX_TARGETS + list(nt.CXX_TARGETS) + list(cf.CXX_TARGETS) + ['hgv_reduce'] + list(sv.CXX_TARGETS)
REDUCE = os.path.join(BUILD, "hgv_reduce")
USES_EXTRACT = True
RULE = "programs from every engine family, each run (a) once, (b) 1-3 more times from the SAME executor builder, (c) on 2-8 threads concurrently (each thread wiring and running it), and (d) a quarter of them again at the end of the process after all other builds and runs; every trace must be byte-identical to the first and to the model's; non-trivial = >=2 cycles with user code; distinct by program text. Stream reduce-history: 2-3 reduce graphs of DIFFERING result kinds (scalar TS<int>: direct publication; set TSS<int>: keyed publication; the first and the last of a case always differ) built and run one after the other in ONE process of hgv_reduce; the LAST one's output lines must be byte-identical to the same graph run alone in a FRESH process, and to the C11 model driver. " + gs.RULE + " " + nt.RULE + " " + cf.RULE + " " + sv.RULE
TRUSTED = ['no ThreadSanitizer build: data races that do not change a trace are invisible to this check'] + list(gs.TRUSTED) + list(nt.TRUSTED) + list(cf.TRUSTED) + list(sv.TRUSTED)
ASSUMPTIONS = ["the harness nodes' own tables are read-only during runs; per-run logs and fault counters are thread-local"] + list(gs.ASSUMPTIONS) + list(nt.ASSUMPTIONS) + list(cf.ASSUMPTIONS) + list(sv.ASSUMPTIONS)
TECHNIQUE = 'Lean 4 proof (interleaving independence of state-owning executors, history-free intern tables) + differential runs: repeat, builder reuse, process history, concurrent threads, all compared with one model trace'
LEVEL_TEXT = ("Kernel-checked: executors that own their state produce, under every interleaving, the trace they produce alone; registry lookups depend on the key only, not on registration history; the engine model's run is a function of the program (no wall-clock term exists in it); for the GlobalState / record-replay harness layer, modelled as coded: the trace a run records does not depend on what the selected state held before (any prior buffers, any history of runs, copy-backs and seeds), keys a run does not own are untouched, re-running after copy-back is a fixpoint, further executors of one builder observe the same (run_trace_independent_of_prior_state, history_irrelevant, run_preserves_other_keys, rerun_idempotent, reuse_same_trace); the persistent :memory: sink appends by contract (persistent_sink_appends). PARTIAL: that the C++ runtime has no hidden shared mutable state is established only by the differential runs (same builder reused, after other runs, on concurrent threads), not by proof."
              ' One-shot evaluation notifications (Props/C07Notify.lean, stream notify): the trace of a run does not depend on the runs made earlier in the process or on the thread, also after a run whose notification callback threw (a failed batch is dropped, nothing is carried into the next run); drain order before = FIFO, after = LIFO, re-entrant registrations fire at the same boundary; a thread-local batch buffer is proved to leak across runs (thread_buffer_leaks: the seeded shape).'
              ' Record/replay configuration (Props/C07Config.lean, stream gsconfig): config() is a function of the entry under its key in the '
              'store it is given - never of the store\'s address (config_depends_on_contents_only, run_address_free: every re-addressing of a '
              'history, colliding or not, changes nothing); a build against a new / stack-local / context-owned / stateless store or an object '
              'it resets, overwrites or clears shows after ANY history what it shows first in a fresh process (step_trace_history_free, '
              'run_last_history_free), every other build what a fresh store filled from its printed contents shows (reference_step_reproduces: '
              'the monitor\'s reference); an address-keyed memo of the parsed configuration is proved to leak (addr_memo_leaks_config: the '
              'seeded shape) while the first step of a process stays right under it (addr_memo_first_step_unaffected).'
              ' Service transport contexts (Props/C07Svc.lean, stream svcctx): the process-lifetime subscription context tables of '
              'runtime/service_node.cpp as coded - append-only, find-or-create, the capture key includes the hand-off mode - and the capture / '
              'source / scan behaviour per cycle: a lookup returns a context with the requested path, offset and mode whatever the table held '
              '(capture_context_mode_is_requested), the tables only grow and entries never change (registry_append_only, '
              'registry_entries_never_change), a build-and-run step shows the same in ANY two process states and every step of EVERY history '
              '(builds, builder reuse, case boundaries) shows what its own recipe determines (build_trace_history_free, '
              'svc_step_trace_history_free, svc_history_prefix_irrelevant); what the mode means, for EVERY key script: a Direct client (capture '
              'ranked first) publishes each effective key change in the cycle of the change, a deferred client (source ranked first) exactly '
              'MIN_TD later (direct_publishes_same_cycle, deferred_publishes_next_cycle); a key without the mode is proved to leak the first builder\'s mode '
              '(modeless_key_leaks_mode: the seeded shape) while the first step of a process and other paths stay right under it.')
LEVEL_NOTE = 'Trusted: Lean kernel; model tied by correspondence. Data races and allocator effects that leave traces unchanged are outside the claim (named runtime behaviour the model cannot exhibit).'


def streams(rng, tier, seed):
    n = 60 if tier == "quick" else 1500
    gens = [lambda: ec.gen_flat(rng, sched=True), lambda: ec.gen_nested(rng, both=False), lambda: ec.gen_try(rng, "try"),
            lambda: ec.gen_feedback(rng), lambda: ec.gen_fault(rng),
            # capturing nodes with different ErrorCaptureOptions built in one process (node-type caches keyed too coarsely)
            lambda: ec.gen_try(rng, "errts"), lambda: ec.gen_sched_capture(rng)]
    progs = [gens[i % len(gens)]() for i in range(n)]
    cases = []
    for i, p in enumerate(progs):
        L = p.lines(i)
        L.append("rerun %d" % rng.randint(1, 3))            # builder reuse: 1-3 further executors from one recipe
        L.append("runpar %d" % rng.choice([2, 4, 8]))       # concurrently on 2-8 threads, each wiring + running
        cases.append(Case(L, {"prog": p}))
    # the same cases again at the end of the process history (after all the other builds and runs)
    again = [Case(["case %d" % (10000 + i)] + c.lines[1:], c.meta) for i, c in enumerate(cases[: max(5, n // 4)])]
    # history INSIDE one case: 2-3 programs one after the other (separated by `reset`); the last one must behave as
    # it does alone.  Half of the pairs are near-twins: the same program with one build-time option changed
    # (ErrorCaptureOptions of a capturing node), the situation in which a cache keyed too coarsely shows.
    nh = 50 if tier == "quick" else 1200
    hist = []
    for i in range(nh):
        progs_i = []
        if i % 2 == 0:
            b = ec.gen_try(rng, "errts") if rng.random() < 0.6 else ec.gen_sched_capture(rng)
            a = _option_twin(rng, b)
            progs_i = [a, b]
        else:
            progs_i = [gens[rng.randrange(len(gens))]() for _ in range(rng.choice([2, 3]))]
        L = ["case %d" % (20000 + i)]
        for j, q in enumerate(progs_i):
            L += (["reset"] if j else []) + q.lines(0)[1:]
        hist.append(Case(L))
    # history of REDUCE graphs of differing result kinds in one process (a reduce node picks its publication strategy
    # from its result schema at build time: nothing an earlier reduce node left behind in the process may change it).
    # The first and the last graph of a case differ in kind, so a case replayed alone still has the history in it.
    nr = 60 if tier == "quick" else 1500
    rhist = []
    for i in range(nr):
        order = rng.choice(["sk", "ks", "sk", "ks", "ssk", "kks", "skk", "kss"])
        L = ["case %d" % (30000 + i)]
        for ch in order:
            L += rd.gen_keyed_segment(rng, tier) if ch == "k" else rd.gen_scalar_segment(rng, tier)
        rhist.append(Case(L, {"order": order}))
    return [Stream("engine-repro", [ec.ENGINE], ec.model_cmd("Engine"), cases + again, timeout=900),
            Stream("engine-history", [ec.ENGINE], ec.model_cmd("Engine"), hist, timeout=900),
            Stream("reduce-history", [REDUCE], _model_cmd("C11"), rhist, timeout=900)] + gs.streams(rng, tier, seed) + nt.streams(rng, tier, seed) + cf.streams(rng, tier, seed) + sv.streams(rng, tier, seed)


def _option_twin(rng, p):
    """a copy of program p in which the capture options of every errts/errtsv statement are changed (same depth where
    possible, the capture_values flag flipped)"""
    import copy
    q = copy.deepcopy(p)
    for st in q.root:
        if st.kind == "errtsv":
            st.args = [st.args[0], st.args[1], 1 - int(st.args[2])]
        elif st.kind == "errts":
            st.kind, st.args = "errtsv", [st.args[0], 1, 1]
    return q


def _first_diff(a, b):
    xa, xb = a.split(" | "), b.split(" | ")
    for x, y in zip(xa, xb):
        if x != y:
            return x[:80]
    return (xa[len(xb)] if len(xa) > len(xb) else "<shorter>")[:80]


def _run_line(case, out):
    idx = max(i for i, l in enumerate(case.lines) if l == "run")
    return out[idx] if idx < len(out) else ""


def _fresh(lines):
    import subprocess
    r = subprocess.run([ec.ENGINE], input="\n".join(lines) + "\n", capture_output=True, text=True, timeout=120)
    return r.returncode, [x for x in r.stdout.split("\n") if x != ""]


def _monitor_history(case, out):
    """the last program of the case, run alone in a fresh process, must give what it gave after its predecessors"""
    segs = ec.split_segments(case.lines)
    if len(segs) < 2 or not segs[-1]:
        return []
    last = segs[-1]
    try:
        rc, fresh = _fresh([case.lines[0]] + [l for _, l in last])
    except Exception:
        return []
    if rc != 0 or len(fresh) != len(last) + 1:
        return []
    for (i, l), f in zip(last, fresh[1:]):
        here = out[i] if i < len(out) else ""
        if here != f:
            return ["[repro] %r of the last program gives a different trace after the programs built and run before it in this "
                    "process than alone in a fresh process: here %s ... fresh %s" % (l, _first_diff(here, f), _first_diff(f, here))]
    return []


def _reduce_segments(lines):
    """indices of the `cfg` lines of a reduce-history case"""
    return [i for i, l in enumerate(lines) if l.startswith("cfg ")]


def _monitor_reduce_history(case, out):
    """the last reduce graph of the case, run alone in a fresh process, must give what it gave after its predecessors"""
    import subprocess
    cfgs = _reduce_segments(case.lines)
    if len(cfgs) < 2:
        return []
    start = cfgs[-1]
    last = case.lines[start:]
    try:
        r = subprocess.run([REDUCE], input="\n".join([case.lines[0]] + last) + "\n", capture_output=True, text=True, timeout=120)
    except Exception:
        return []
    fresh = [x for x in r.stdout.split("\n") if x != ""]
    if r.returncode != 0 or len(fresh) != len(last) + 1:
        return []
    for j, (l, f) in enumerate(zip(last, fresh[1:])):
        here = out[start + j] if start + j < len(out) else ""
        if here != f:
            return ["[repro] %r (cycle line %d of the last reduce graph, %r) gives a different trace after the reduce graphs built "
                    "and run before it in this process than alone in a fresh process: here %s ... fresh %s"
                    % (l, j, last[0], here[:90], f[:90])]
    return []


def alarm_filter(stream, case, impl_out, model_out):
    if stream == "reduce-history":
        return rd.alarm_filter("reduce", case, impl_out, model_out)
    return True, ["outputs differ"]


def monitor(stream, case, out):
    if stream == "reduce-history":
        return _monitor_reduce_history(case, out)
    if stream.startswith("gstate-"):
        return gs.monitor(stream, case, out)
    if stream.startswith("notify-"):
        return nt.monitor(stream, case, out)
    if stream.startswith("gsconfig-"):
        return cf.monitor(stream, case, out)
    if stream.startswith("svcctx-"):
        return sv.monitor(stream, case, out)
    if stream == "engine-history":
        return _monitor_history(case, out)
    bad = []
    # process-history differential: the same program alone in a FRESH process must give the same trace as it did
    # here, after all the other builds and runs of this process (caches, registries, statics)
    try:
        import subprocess
        r = subprocess.run([ec.ENGINE], input="\n".join(case.lines) + "\n", capture_output=True, text=True, timeout=120)
        fresh = [x for x in r.stdout.split("\n") if x != ""]
        here = [x for x in out if x != ""]
        if r.returncode == 0 and len(fresh) == len(here):
            for l, a, b in zip(case.lines, here, fresh):
                if a != b and not l.startswith("runpar"):
                    bad.append("[repro] %r gives a different trace after the other builds and runs of this process than alone "
                               "in a fresh process: here %s ... fresh %s" % (l, _first_diff(a, b), _first_diff(b, a)))
                    break
    except Exception:
        pass
    for l, o in zip(case.lines, out):
        if l.startswith("rerun") and o.startswith("reuse-diff"):
            bad.append("[repro] a further executor made from the same builder produced a different trace: %s" % o[:200])
        if l.startswith("runpar") and o.startswith("par-diff"):
            bad.append("[repro] the same program run concurrently on another thread produced a different trace: %s" % o[:200])
    return bad[:3]


def features(stream, case, out):
    if stream == "reduce-history":
        kinds = ["set" if l.split()[1].endswith(":s") else "scalar" for l in case.lines if l.startswith("cfg ")]
        return ["reduce-history:" + ">".join(kinds)]
    if stream.startswith("gstate-"):
        return gs.features(stream, case, out)
    if stream.startswith("notify-"):
        return nt.features(stream, case, out)
    if stream.startswith("gsconfig-"):
        return cf.features(stream, case, out)
    if stream.startswith("svcctx-"):
        return sv.features(stream, case, out)
    if stream == "engine-history":
        segs = ec.split_segments(case.lines)
        f = ["history:%d-programs" % len(segs)]
        if any("errtsv" in l for l in case.lines):
            f.append("capture-option-twins")
        return f
    f = ep.features(stream, case, [_run_line(case, out)])
    for l in case.lines:
        if l.startswith("rerun") or l.startswith("runpar"):
            f.append(l.replace(" ", ":"))
    if case.lines[0].split()[1].startswith("100"):
        f.append("replayed-after-history")
    return f


def nontrivial(stream, case, out):
    if stream == "reduce-history":
        kinds = {l.split()[1].endswith(":s") for l in case.lines if l.startswith("cfg ")}
        return len(kinds) == 2 and sum(1 for l in case.lines if l == "run") >= 2
    if stream.startswith("gstate-"):
        return gs.nontrivial(stream, case, out)
    if stream.startswith("notify-"):
        return nt.nontrivial(stream, case, out)
    if stream.startswith("gsconfig-"):
        return cf.nontrivial(stream, case, out)
    if stream.startswith("svcctx-"):
        return sv.nontrivial(stream, case, out)
    if stream == "engine-history":
        return sum(1 for l in case.lines if l == "run") >= 2
    return ep.nontrivial(stream, case, [_run_line(case, out)])


def valid_case(stream, case, impl_out, model_out):
    if stream == "reduce-history":
        cfgs = [l for l in case.lines if l.startswith("cfg ")]
        return len(cfgs) >= 2 and sum(1 for l in case.lines if l == "run") >= 2 and case.lines[-1] == "run"
    if stream.startswith("gsconfig-"):
        return cf.valid_case(stream, case, impl_out, model_out)
    if stream.startswith("svcctx-"):
        return sv.valid_case(stream, case, impl_out, model_out)
    if stream.startswith("notify-"):
        f = getattr(nt, "valid_case", None)
        return f(stream, case, impl_out, model_out) if f else True
    if stream.startswith("gstate-"):
        f = getattr(gs, "valid_case", None)
        return f(stream, case, impl_out, model_out) if f else True
    if stream == "engine-history":
        return ep.valid_case(stream, case, impl_out, model_out) and sum(1 for l in case.lines if l == "run") >= 2
    return ep.valid_case(stream, case, impl_out, model_out)
