"""C07 - simulation runs are reproducible and isolated from each other."""
import engine_common as ec
import engine_plugin as ep
from vlib import Case, Stream
import c07gs as gs

ID = "C07"
LEAN_MODULES = ['HgVerif.Props.C07', 'HgVerif.Model.Engine', 'HgVerif.Model.Extracted'] + gs.LEAN_MODULES
THEOREMS = ['HgVerif.Runs.interleave_independent', 'HgVerif.Runs.intern_history_free', 'HgVerif.Runs.run_is_function'] + gs.THEOREMS
CXX_TARGETS = ['hgv_engine'] + gs.CXX_TARGETS
USES_EXTRACT = True
RULE = "programs from every engine family, each run (a) once, (b) 1-3 more times from the SAME executor builder, (c) on 2-8 threads concurrently (each thread wiring and running it), and (d) a quarter of them again at the end of the process after all other builds and runs; every trace must be byte-identical to the first and to the model's; non-trivial = >=2 cycles with user code; distinct by program text. " + gs.RULE
TRUSTED = ['no ThreadSanitizer build: data races that do not change a trace are invisible to this check'] + list(gs.TRUSTED)
ASSUMPTIONS = ["the harness nodes' own tables are read-only during runs; per-run logs and fault counters are thread-local"] + list(gs.ASSUMPTIONS)
TECHNIQUE = 'Lean 4 proof (interleaving independence of state-owning executors, history-free intern tables) + differential runs: repeat, builder reuse, process history, concurrent threads, all compared with one model trace'
LEVEL_TEXT = "Kernel-checked: executors that own their state produce, under every interleaving, the trace they produce alone; registry lookups depend on the key only, not on registration history; the engine model's run is a function of the program (no wall-clock term exists in it); for the GlobalState / record-replay harness layer, modelled as coded: the trace a run records does not depend on what the selected state held before (any prior buffers, any history of runs, copy-backs and seeds), keys a run does not own are untouched, re-running after copy-back is a fixpoint, further executors of one builder observe the same (run_trace_independent_of_prior_state, history_irrelevant, run_preserves_other_keys, rerun_idempotent, reuse_same_trace); the persistent :memory: sink appends by contract (persistent_sink_appends). PARTIAL: that the C++ runtime has no hidden shared mutable state is established only by the differential runs (same builder reused, after other runs, on concurrent threads), not by proof."
LEVEL_NOTE = 'Trusted: Lean kernel; model tied by correspondence. Data races and allocator effects that leave traces unchanged are outside the claim (named runtime behaviour the model cannot exhibit).'


def streams(rng, tier, seed):
    n = 60 if tier == "quick" else 1500
    gens = [lambda: ec.gen_flat(rng, sched=True), lambda: ec.gen_nested(rng, both=False), lambda: ec.gen_try(rng, "try"),
            lambda: ec.gen_feedback(rng), lambda: ec.gen_fault(rng)]
    progs = [gens[i % len(gens)]() for i in range(n)]
    cases = []
    for i, p in enumerate(progs):
        L = p.lines(i)
        L.append("rerun %d" % rng.randint(1, 3))            # builder reuse: 1-3 further executors from one recipe
        L.append("runpar %d" % rng.choice([2, 4, 8]))       # concurrently on 2-8 threads, each wiring + running
        cases.append(Case(L, {"prog": p}))
    # the same cases again at the end of the process history (after all the other builds and runs)
    again = [Case(["case %d" % (10000 + i)] + c.lines[1:], c.meta) for i, c in enumerate(cases[: max(5, n // 4)])]
    return [Stream("engine-repro", [ec.ENGINE], ec.model_cmd("Engine"), cases + again, timeout=900)] + gs.streams(rng, tier, seed)


def _run_line(case, out):
    idx = max(i for i, l in enumerate(case.lines) if l == "run")
    return out[idx] if idx < len(out) else ""


def monitor(stream, case, out):
    if stream.startswith("gstate-"):
        return gs.monitor(stream, case, out)
    bad = []
    for l, o in zip(case.lines, out):
        if l.startswith("rerun") and o.startswith("reuse-diff"):
            bad.append("[repro] a further executor made from the same builder produced a different trace: %s" % o[:200])
        if l.startswith("runpar") and o.startswith("par-diff"):
            bad.append("[repro] the same program run concurrently on another thread produced a different trace: %s" % o[:200])
    return bad[:3]


def features(stream, case, out):
    if stream.startswith("gstate-"):
        return gs.features(stream, case, out)
    f = ep.features(stream, case, [_run_line(case, out)])
    for l in case.lines:
        if l.startswith("rerun") or l.startswith("runpar"):
            f.append(l.replace(" ", ":"))
    if case.lines[0].split()[1].startswith("100"):
        f.append("replayed-after-history")
    return f


def nontrivial(stream, case, out):
    if stream.startswith("gstate-"):
        return gs.nontrivial(stream, case, out)
    return ep.nontrivial(stream, case, [_run_line(case, out)])


def valid_case(stream, case, impl_out, model_out):
    if stream.startswith("gstate-"):
        f = getattr(gs, "valid_case", None)
        return f(stream, case, impl_out, model_out) if f else True
    return ep.valid_case(stream, case, impl_out, model_out)
