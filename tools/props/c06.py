"""C06 - behaviour depends on the dataflow, not on wiring order or node sharing."""
import re
import engine_common as ec
import engine_plugin as ep
from vlib import Case, Stream
import c06intern as ci
import c06body as cbk
import c01rank as rk
import os
from vlib import BUILD, model_cmd

ID = "C06"
LEAN_MODULES = ["HgVerif.Props.NestFlowCor", "HgVerif.Props.C06", "HgVerif.Props.C06Den", "HgVerif.Props.C06Run", "HgVerif.Model.Engine", "HgVerif.Model.Extracted", "HgVerif.Props.C01Rank"] + ci.LEAN_MODULES + cbk.LEAN_MODULES
THEOREMS = ["HgVerif.NestFlow.nested_run_rank_independent", "HgVerif.Intern.intern_equal_keys_share", "HgVerif.Intern.intern_distinct_keys_differ",
            "HgVerif.Intern.sinks_never_merged", "HgVerif.Intern.identical_sinks_distinct", "HgVerif.Intern.inv_addNode",
            "HgVerif.Intern.addNode_id_lt", "HgVerif.Rank.kahn_free_irrelevant", "HgVerif.Sched.cycle_strictly_increasing",
            "HgVerif.Flow.disc_beh", "HgVerif.Flow.scanFrom_eq_denSeq", "HgVerif.Flow.sol_unique", "HgVerif.Flow.denSeq_sol",
            "HgVerif.Flow.cycle_eq_denSeq", "HgVerif.Flow.cycle_rank_independent", "HgVerif.Flow.fired_rank_independent",
            "HgVerif.Flow.cycle_rank_independent_fun", "HgVerif.Flow.scanFrom_slots",
            "HgVerif.Flow.cycle_view_independent", "HgVerif.Flow.next_of_views", "HgVerif.Flow.cycle_rel", "HgVerif.Flow.run_rank_independent",
            "HgVerif.Rank.kahn_perm", "HgVerif.Rank.kahn_edges_forward", "HgVerif.Rank.kahn_accepts_dags", "HgVerif.Rank.finish_ok_iff"] + ci.THEOREMS + cbk.THEOREMS
CXX_TARGETS = ["hgv_engine", "hgv_rank"] + ci.CXX_TARGETS + cbk.CXX_TARGETS
USES_EXTRACT = True
RULE = ("each case holds ONE dataflow wired in 3-4 different admissible statement orders (random linear extensions), run one after "
        "the other; dataflows contain duplicated sub-expressions (same definition with same scalar and inputs, other scalar, swapped "
        "inputs) and duplicated identical sinks; all orders must give identical cycle times, per-cycle user-code runs, sink streams "
        "and node counts, and the node count must equal 'distinct keys + sinks'; non-trivial = >=2 cycles and a shared or a "
        "deliberately distinct duplicate; distinct by program text; stream rank-orders: one acyclic wiring (1-14 dummy nodes, 0-3 inputs, "
        "duplicated producers on one consumer, explicit rank dependencies, rank-free edges) declared in 3 different statement orders - "
        "the real Wiring::finish must accept every order and rank every producer before its consumers (the hypothesis of "
        "run_rank_independent); " + ci.RULE + "; " + cbk.RULE)
TRUSTED = ["key equality on Value scalars uses the code's Value::equals/hash: exercised for Int scalars and for an Int / a Float scalar of equal value"] + ci.TRUSTED[1:] + cbk.TRUSTED
ASSUMPTIONS = ["engine streams: all ports TS[int] (the intern streams add TS[float] / TS[bool] ports through generic definitions); "
               "interning of nested-graph nodes is exercised only through distinct scalars"] + ci.ASSUMPTIONS + cbk.ASSUMPTIONS
TECHNIQUE = ("Lean 4 proof of the interning table (equal keys share, different keys differ, sinks never merge) + rank/scan "
             "order theorems + differential correspondence (the model ranks with the Kahn model and must match every statement "
             "order exactly) + cross-order monitor")
LEVEL_TEXT = ("INSIDE SUB-GRAPH BODIES (Props/C06BodyKey.lean, streams bodykey-*): the source key as coded - kind, peered path, boundary argument index or LOCAL capture index, boundary path, captured flag, capture table built statement by statement - never identifies a declared argument with a captured outer port (arg_capture_distinct; it would once the flag is forgotten: kindless_key_merges), two declarations of a body denote one node iff they have the same definition, scalars and input by input the same kind of source, index or outer port, path and producer (body_same_iff, body_decl_same_iff), and the node partition and every recorder stream are the same for every admissible statement order and import prologue (body_order_irrelevant, body_obs_order_irrelevant). "
              "Kernel-checked for every key type and declaration list: equal keys denote one node, different keys different nodes, "
              "sinks always get their own node (also identical ones); the partition of declarations into nodes is the same for "
              "every admissible statement order (wireL_order_irrelevant). Kernel-checked for every flat dataflow program with arbitrary "
              "node functions (reading only their producers and themselves, re-arming only in the future) run by the generic scan model "
              "of graph.cpp: under any two topological ranks the whole simulation run has the same cycle times and ends with the same "
              "state of every node (run_rank_independent; per cycle: same user-code runs, same states, same per-node schedule, same "
              "cached next time). That the runtime's rank pass yields a topological rank is C01; that the compiled runtime is the scan "
              "model is the correspondence: several statement orders of one generated dataflow are run against each other and the model."
              ' Through nested graphs (Props/NestFlowCor.lean): two nestings of one dataflow with the same partition into levels and ANY per-level topological ranks have the same cycle times, final states and ok flag, equal to the inlined run (nested_run_rank_independent).')
LEVEL_NOTE = ("Trusted: Lean kernel; engine and interning models tied by correspondence. PARTIAL: the run-level theorem covers flat "
              "dataflows (nested graphs, feedback and reference rebinding are covered by the cross-order runs only); 'equal "
              "declarations MAY share' is not required by the monitors (a split is a model difference, not a violation).")


def make_case(rng, idx, p, k):
    L = ["case %d" % idx]
    base = list(p.root)
    for j in range(k):
        p.root = base if j == 0 else ec.topo_shuffle(rng, base)
        seg = p.lines(idx)[1:]          # without the case line; ends with "run"
        L += (["reset"] if j else []) + seg
    p.root = base
    return Case(L)


def streams(rng, tier, seed):
    n = 90 if tier == "quick" else 2500
    cases = []
    for i in range(n):
        p = ec.gen_sharing(rng) if i % 3 else ec.gen_flat(rng, sched=(i % 2 == 0))
        cases.append(make_case(rng, i, p, rng.choice([3, 4])))
    return [Stream("engine-orders", [ec.ENGINE], ec.model_cmd("Engine"), cases, timeout=900),
            Stream("rank-orders", [os.path.join(BUILD, "hgv_rank")], model_cmd("C01Rank"), rank_order_cases(rng, tier))] + ci.streams(rng, tier, seed) + cbk.streams(rng, tier, seed)


def rank_order_cases(rng, tier):
    """the hypothesis of run_rank_independent, per statement order: ONE wiring (accepted: no cycle, no push source with a
    producer, no unbound reference) declared in three different statement orders; each must be accepted and ranked
    producers-first by the real rank pass"""
    n, cases, idx = (150 if tier == "quick" else 4000), [], 0
    while len(cases) < 3 * n:
        base = rk.gen_case(rng, 0)
        if rk.expected_class(rk.parse(base)) != "ok":
            continue
        nodes = [l for l in base.lines if l.startswith("node ")]
        rest = [l for l in base.lines if l.split()[0] in ("dep", "pair")]
        for j in range(3):
            order = list(nodes)
            if j == 1:
                order.reverse()
            elif j == 2:
                rng.shuffle(order)
            cases.append(Case(["case %d" % idx] + order + rest + ["finish"])); idx += 1
    return cases


def _segments(case, out):
    segs = []
    for seg in ec.split_segments(case.lines):
        lines = [l for _, l in seg]
        runs = [i for i, l in seg if l == "run"]
        if not runs:
            continue
        segs.append((ec.parse_prog(lines), out[runs[-1]] if runs[-1] < len(out) else ""))
    return segs


def monitor(stream, case, out):
    if stream.startswith("intern"):
        return ci.monitor(stream, case, out)
    if stream.startswith("bodykey"):
        return cbk.monitor(stream, case, out)
    if stream == "rank-orders":
        return ["[order-rank] this statement order of an acyclic wiring is not accepted with a producers-first rank: " + m
                for m in rk.monitor(stream, case, out)]
    bad = []
    segs = _segments(case, out)
    views = []
    for p, tr in segs:
        if "build-err" in tr or tr.startswith("<"):
            return []
        dev, _ = ec.den_check(p, tr)
        if dev:
            dev2, d2 = ec.den_check(p, tr, True)
            if not dev2 and d2.quirk_hits:
                dev = []
        for c, m in dev:
            if c in ("times", "userrun", "order"):
                bad.append("[order-indep] one wiring order deviates from the dataflow reading: (%s) %s" % (c, m))
        t = ec.Trace(ec.parse_trace(tr))
        built = next((e for e in t.events if e.startswith("built")), "")
        views.append((built, [(c["t"], sorted(e for e in c["ev"] if e[:2] in ec.USER_TAGS)) for c in t.cycles], t.result()))
        exp = ec.expected_node_count(p)
        # equal declarations MAY share (not must): fewer nodes than distinct keys + sinks means two different
        # nodes were merged; more is a difference from the model only (reported by the correspondence)
        m = re.match(r"built nodes=(\d+)", built)
        if m and int(m.group(1)) < exp:
            bad.append("[sharing] node count %s but the dataflow has %d distinct value-node keys + sinks" % (built, exp))
    for i, v in enumerate(views[1:], 1):
        if v[1:] != views[0][1:]:
            bad.append("[order-indep] statement order %d gives different output streams than order 0" % i)
    return bad[:3]


def features(stream, case, out):
    if stream.startswith("intern"):
        return ci.features(stream, case, out)
    if stream.startswith("bodykey"):
        return cbk.features(stream, case, out)
    if stream == "rank-orders":
        return ["rank-orders:" + f for f in rk.features(stream, case, out)]
    f = set()
    segs = _segments(case, out)
    f.add("orders:%d" % len(segs))
    kinds = {s.kind for p, _ in segs[:1] for s in p.root}
    f |= {"kind:" + k for k in kinds}
    if segs:
        p = segs[0][0]
        if ec.expected_node_count(p) < len([s for s in p.root]):
            f.add("shared-duplicate")
        ks = [tuple(s.args) for s in p.root if s.kind == "addk"]
        if any(a[1:] == b[1:] and a[0] != b[0] for a in ks for b in ks):
            f.add("same-inputs-different-scalar")
        if any(s.kind == "sinkk" for s in p.root):
            f.add("duplicate-sinks")
    return sorted(f)


def nontrivial(stream, case, out):
    if stream.startswith("intern"):
        return ci.nontrivial(stream, case, out)
    if stream.startswith("bodykey"):
        return cbk.nontrivial(stream, case, out)
    if stream == "rank-orders":
        return rk.nontrivial(stream, case, out)
    segs = _segments(case, out)
    if len(segs) < 2:
        return False
    t = ec.Trace(ec.parse_trace(segs[0][1]))
    return len(t.cycles) >= 2


def alarm_filter(stream, case, impl_out, model_out):
    if stream.startswith("intern"):
        return ci.alarm_filter(stream, case, impl_out, model_out)
    if stream.startswith("bodykey"):
        return cbk.alarm_filter(stream, case, impl_out, model_out)
    if stream == "rank-orders":
        return rk.alarm_filter(stream, case, impl_out, model_out)
    # compare run lines canonically; every other line must be equal
    for l, a, b in zip(case.lines, impl_out, model_out):
        if a != b:
            if l != "run" or ep.canon(a) != ep.canon(b):
                return True, []
    return False, ["evaluation order among independent nodes differs (rank tie-break)"]


def valid_case(stream, case, impl_out, model_out):
    if stream.startswith("intern"):
        return ci.valid_case(stream, case, impl_out, model_out)
    if stream.startswith("bodykey"):
        return cbk.valid_case(stream, case, impl_out, model_out)
    if stream == "rank-orders":
        return rk.expected_class(rk.parse(case)) == "ok"
    for o in (impl_out, model_out):
        if o is None:
            continue
        if any(("build-err" in l) or ("bad-op" in l) or l.startswith("<") for l in o):
            return False
    return sum(1 for l in case.lines if l == "run") >= 2
