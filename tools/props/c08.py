"""C08 - feedback delivers each value exactly one smallest time step later."""
import engine_common as ec
import engine_plugin as ep

ID = "C08"
LEAN_MODULES = ['HgVerif.Props.C08', 'HgVerif.Model.Engine', 'HgVerif.Model.Extracted']
THEOREMS = ['HgVerif.Feedback.feedback_delay', 'HgVerif.Feedback.never_same_cycle', 'HgVerif.Feedback.initial_value', 'HgVerif.Feedback.quiescent', 'HgVerif.Feedback.run_none_eq_shifted']
CXX_TARGETS = ['hgv_engine']
USES_EXTRACT = True
RULE = 'graphs with 1-2 feedback loops (with/without initial value, reader active or passive on the feedback, loops ticking together), random producer histories incl. writes on consecutive smallest steps; sinks on producer and reader; non-trivial = >=2 cycles with user code; distinct by program text'
TRUSTED = ['TS[int] feedback only; collection-shaped feedback relies on capture/apply of deltas (C20)']
ASSUMPTIONS = ["the source ranks before its readers and the sink after the producer (C01); the sink's request for t+1 is honoured (C02)"]
TECHNIQUE = 'Lean 4 proof (single-slot feedback state machine: delivered stream = writes shifted by MIN_TD, by induction over arbitrary cycle lists) + shared definitions with the engine model + differential correspondence + reference monitor'
LEVEL_TEXT = "Kernel-checked for every write history: the reader's ticks are exactly the producer's writes one smallest step later, in order, without loss or duplication; never in the producing cycle; an initial value arrives at the start time; no writes, no deliveries (quiescence). The engine model uses these same step functions and is compared with the runtime."
LEVEL_NOTE = 'Trusted: Lean kernel; model tied by correspondence. The tie on evaluation_time + MIN_TD is by correspondence (a changed delay changes every delivery time).'


def streams(rng, tier, seed):
    n = 120 if tier == "quick" else 3000
    progs = [ec.gen_feedback(rng) for _ in range(n)]
    return [ec.engine_stream("engine-feedback", progs)]


monitor = ep.monitor_for(ID)
features = ep.features
alarm_filter = ep.alarm_filter
nontrivial = ep.nontrivial

valid_case = ep.valid_case
