"""C08 - feedback delivers each value exactly one smallest time step later."""
import engine_common as ec
import engine_plugin as ep
import c08shape as fs

ID = "C08"
LEAN_MODULES = ['HgVerif.Props.C08', 'HgVerif.Model.Engine', 'HgVerif.Model.Extracted', 'HgVerif.Model.TieC08'] + list(fs.LEAN_MODULES)
THEOREMS = ['HgVerif.Tie.tie_fbDelayIsOneMinTd', 'HgVerif.Tie.tie_minTdTicks', 'HgVerif.Tie.tie_minStIsMinDtPlusMinTd', 'HgVerif.Feedback.feedback_delay', 'HgVerif.Feedback.never_same_cycle', 'HgVerif.Feedback.initial_value', 'HgVerif.Feedback.quiescent', 'HgVerif.Feedback.run_none_eq_shifted'] + list(fs.THEOREMS)
CXX_TARGETS = ['hgv_engine'] + list(fs.CXX_TARGETS)
USES_EXTRACT = True
RULE = 'graphs with 1-2 feedback loops (with/without initial value, reader active or passive on the feedback, loops ticking together), random producer histories incl. writes on consecutive smallest steps; sinks on producer and reader; non-trivial = >=2 cycles with user code; distinct by program text'
TRUSTED = ['engine programs use TS[int] feedback; structured feedback (TSB/TSL/TSS/TSD) is exercised by the fbshape stream'] + list(fs.TRUSTED)
ASSUMPTIONS = ["the source ranks before its readers and the sink after the producer (C01); the sink's request for t+1 is honoured (C02)"]
TECHNIQUE = 'Lean 4 proof (single-slot feedback state machine: delivered stream = writes shifted by MIN_TD, by induction over arbitrary cycle lists) + shared definitions with the engine model + differential correspondence + reference monitor'
LEVEL_TEXT = ("Kernel-checked for every write history: the reader's ticks are exactly the producer's writes one smallest step later, in order, without loss or duplication; never in the producing cycle; an initial value arrives at the start time; no writes, no deliveries (quiescence). The engine model uses these same step functions and is compared with the runtime."
              " Structured feedback shapes (Props/C08Shape.lean, stream fbshape; TSB / nested TSB / TSL / TSS / TSD as delta-valued ticks): the delivered delta stream is the written delta stream one smallest step later, a position ticks at the reader iff it was written one step earlier (no_spurious_field_tick), the reader's value is the fold of the written deltas, and not clearing the captured state is unobservable."
              " Start time (Props/C08Init.lean): for every shape (incl. a TSB with a TSS field) and every declared initial delta the reader's stream is [initial at start] ++ shifted writes, the head being a tick iff the delta has an effect on the fresh output (TS/TSB/TSL: carries a position; TSS: always; TSD: unless removals only; bundle: always for an authored delta); a declared collection initial - the EMPTY one included - leaves the port valid from the start time on; a self loop whose body is gated on the validity of the fed-back collection is the plain fold over the ticks of x and runs on the first tick; counter-witness for skipping an empty initial delta (reader not validated, loop silent for ever).")
LEVEL_NOTE = 'Trusted: Lean kernel; model tied by correspondence. The tie on evaluation_time + MIN_TD is by correspondence (a changed delay changes every delivery time).'


def streams(rng, tier, seed):
    n = 120 if tier == "quick" else 3000
    progs = [ec.gen_feedback(rng) for _ in range(n)]
    return [ec.engine_stream("engine-feedback", progs)] + fs.streams(rng, tier, seed)


_mon = ep.monitor_for(ID)


def monitor(stream, case, out):
    return fs.monitor(stream, case, out) if stream.startswith("fbshape-") else _mon(stream, case, out)


def features(stream, case, out):
    return fs.features(stream, case, out) if stream.startswith("fbshape-") else ep.features(stream, case, out)


def nontrivial(stream, case, out):
    return fs.nontrivial(stream, case, out) if stream.startswith("fbshape-") else ep.nontrivial(stream, case, out)


def alarm_filter(stream, case, impl_out, model_out):
    if stream.startswith("fbshape-"):
        return True, []          # the comparison is exact
    return ep.alarm_filter(stream, case, impl_out, model_out)


def valid_case(stream, case, impl_out, model_out):
    if stream.startswith("fbshape-"):
        f = getattr(fs, "valid_case", None)
        return f(stream, case, impl_out, model_out) if f else True
    return ep.valid_case(stream, case, impl_out, model_out)
