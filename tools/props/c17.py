"""C17 - real-time loop: never early, never drops a wake-up, always stops."""
import os, re
from vlib import Case, Stream, BUILD, model_cmd

ID = "C17"
LEAN_MODULES = ["HgVerif.Props.C17", "HgVerif.Model.Tie2", "HgVerif.Model.Extracted"]
USES_EXTRACT = True
THEOREMS = ["HgVerif.Tie.tie_rtDrainLimit", "HgVerif.Tie.tie_rtCutWall", "HgVerif.Tie.tie_rtCutNext", "HgVerif.Tie.tie_rtCutCount", "HgVerif.Tie.tie_rtNextShape",
    
    "HgVerif.Realtime.inv_reachable",
    "HgVerif.Realtime.rt_times_strict", "HgVerif.Realtime.rt_times_strict_from",
    "HgVerif.Realtime.rt_at_exact_T", "HgVerif.Realtime.rt_no_drop",
    "HgVerif.Realtime.rt_not_early", "HgVerif.Realtime.rt_early_without_clock_hypothesis",
    "HgVerif.Realtime.rt_stop", "HgVerif.Realtime.rt_stop_from",
    "HgVerif.Realtime.rt_terminates", "HgVerif.Realtime.rt_terminates_from",
    "HgVerif.Realtime.consec_is_trailing", "HgVerif.Realtime.rt_cutoff_only_busy_past_end",
    "HgVerif.Realtime.rt_alarm_never_dropped",
    "HgVerif.Realtime.rt_wait_returns_on_signal", "HgVerif.Realtime.signal_sets_predicate",
    "HgVerif.Realtime.Sig.good_reach", "HgVerif.Realtime.rt_no_missed_signal",
    "HgVerif.Realtime.rt_missed_signal_if_flag_set_outside_mutex",
]
CXX_TARGETS = ["hgv_realtime"]
RULE = ("real-time runs of a real GraphExecutor (virtual wall clock and wait through the verification hooks) on 0-3 "
        "scripted scheduler nodes + one queue push source; scripts mix relative/absolute timers, wall-clock alarms "
        "(future and already due), clock advances, pushes and stop requests inside evaluation; an event script "
        "(advance/time-out/push/stop/spurious) is played at the wait points and before/after chosen cycles; run "
        "windows start in the past or future, end while lagging, idle graphs, MIN_TD busy loops past end_time. "
        "A case is non-trivial when it has >= 2 cycles and at least one of: an event consumed inside a wait, a "
        "wall-clock alarm, a lagging cycle, a stop request; distinct by sha1 of the case text")
TRUSTED = [
    "C++ memory model, std::mutex / std::condition_variable semantics and OS scheduling are not modelled: the harness "
    "runs everything on one thread and replaces the wait by a scripted one (verif_hooks.h); atomic steps = mutex sections",
    "real OS timing: no bound on lateness is claimed or checkable; data races are outside the model (TSan not run)",
    "the guarded hook block in advance_realtime repeats the duration expression and the break/continue of the "
    "condition.wait_for statement it stands in for; those four production lines are bypassed under the harness",
    "the graph below the loop is the scripted one of the harness; arbitrary graphs rely on C02 (armed slots are honoured, "
    "next_scheduled_time is the earliest armed slot) and C18 (the node scheduler arms the earliest pending event)",
]
ASSUMPTIONS = [
    "rt_not_early: start_time <= wall clock at start, and the clock reads of successive cycles differ by >= MIN_TD "
    "(a cycle takes at least a microsecond); without it evaluation time can run 1us ahead per extra push "
    "(rt_early_without_clock_hypothesis)",
    "liveness half (wake-ups delivered, the run ends): a wait that times out moved the wall clock by at least the "
    "requested duration; an exhausted event script lets every wait time out",
    "max_consecutive_immediate_cycles = 0 (the opt-in recursion guard is off, the default)",
]
TECHNIQUE = ("Lean 4 proof (invariants of the run loop as a transition system with an arbitrary scripted environment; "
             "lock-level interleaving model of the signal protocol) with differential correspondence against the real "
             "executor driven through add-only verification hooks")
LEVEL_TEXT = ("Kernel-checked theorems over ALL environment scripts (clock advances, pushes, stop requests, time-outs and "
              "spurious wake-ups at every point outside a mutex section), all node scripts and run windows: strictly "
              "increasing evaluation times inside [start,end); an armed wake-up T<end is evaluated at exactly T before any "
              "later cycle unless a stop request or the drain cut-off ends the run; never early under the stated clock "
              "hypothesis (counterexample without it); a stop request ends the run after the current cycle; the run "
              "always terminates; already-due alarms are re-timed, never dropped; the cut-off needs wall >= end and "
              ">= 1024 consecutive MIN_TD cycles; no missed signal in the lock-level protocol model.")
LEVEL_NOTE = ("Proof of the loop/protocol logic; PARTIAL for the runtime remainder: C++ memory model, condition-variable "
              "and OS timing behaviour are trusted, not modelled. The model is tied to executor.cpp / node_scheduler.h / "
              "push_source_node.cpp by running the real code under a virtual clock on generated scripts.")

START = 1000


# ---------------------------------------------------------------- generator

def _ops(rng, now_lo, end, allow_env=True, big=False):
    n = rng.choice([0, 1, 1, 2, 2, 3])
    out = []
    for _ in range(n):
        r = rng.random()
        if r < 0.28:
            out.append("r%d" % rng.choice([0, 1, 1, 2, 3, 5, 8, 13, 40]))
        elif r < 0.40:
            out.append("R%d" % rng.randint(now_lo - 3, end + 5))
        elif r < 0.55:
            out.append("w%d" % rng.choice([0, 0, 1, 2, 4, 9, 20]))
        elif r < 0.72:
            out.append("W%d" % rng.randint(now_lo - 5, end + 5))
        elif allow_env and r < 0.82:
            out.append("a%d" % rng.choice([1, 2, 3, 7, 30]))
        elif allow_env and r < 0.94:
            out.append("p%d" % rng.randint(1, 99))
        elif allow_env and r < 0.96:
            out.append("x")
    return out or ["-"]


def _events(rng, span, n=None):
    n = rng.randint(0, 14) if n is None else n
    out = []
    for _ in range(n):
        r = rng.random()
        if r < 0.34:
            out.append("a%d" % rng.choice([0, 1, 1, 2, 3, 5, 9, max(1, span // 3), span]))
        elif r < 0.46:
            out.append("t")
        elif r < 0.72:
            out.append("p%d" % rng.randint(100, 999))
        elif r < 0.90:
            out.append("s")
        elif r < 0.94:
            out.append("x")
        else:
            out.append("a1")
    return out


def gen_general(rng, idx):
    span = rng.choice([12, 25, 40, 80, 150])
    end = START + span
    mode = rng.random()
    if mode < 0.60:
        wall0 = START + rng.choice([0, 0, 0, 1, 2, 5])           # start now
    elif mode < 0.80:
        wall0 = START + rng.randint(span // 2, 2 * span)          # start in the past (lagging from the first cycle)
    else:
        wall0 = START - rng.choice([1, 3, 10])                    # start in the future (outside the clock hypothesis)
    slice_ = rng.choice([1, 2, 3, 7, 20, 1000, 0])
    cost = rng.choice([0, 1, 1, 1, 2, 5, 17])
    lines = ["case %d" % idx, "cfg %d %d %d %d %d" % (START, end, slice_, wall0, cost)]
    nn = rng.choice([0, 1, 1, 2, 2, 3])
    for i in range(1, nn + 1):
        entries = [" ".join(_ops(rng, START, end, allow_env=rng.random() < 0.5))]
        for _ in range(rng.randint(0, 5)):
            entries.append(" ".join(_ops(rng, START + rng.randint(0, span), end)))
        lines.append("node %d %s" % (i, " ; ".join(entries)))
    for _ in range(rng.choice([0, 0, 1, 2])):
        k = rng.randint(0, 5)
        lines.append("%s %d %s" % (rng.choice(["before", "after"]), k, " ".join(_events_env(rng))))
    lines.append("events " + " ".join(_events(rng, span)))
    lines.append("run")
    return Case(lines, {"kind": "general"})


def _events_env(rng):
    out = []
    for _ in range(rng.randint(1, 3)):
        r = rng.random()
        out.append("a%d" % rng.choice([1, 2, 9]) if r < 0.4 else ("p%d" % rng.randint(1000, 1999) if r < 0.92 else "x"))
    return out


def gen_idle(rng, idx):
    span = rng.choice([5, 30, 200, 5000])
    lines = ["case %d" % idx, "cfg %d %d %d %d %d" % (START, START + span, rng.choice([1, 10, 100, 0]),
                                                     START + rng.choice([0, 0, 3, span + 4]), rng.choice([0, 1]))]
    if rng.random() < 0.5:
        lines.append("node 1 -")
    lines.append("events " + " ".join(_events(rng, span, rng.randint(0, 6))))
    lines.append("run")
    return Case(lines, {"kind": "idle"})


def gen_pushes(rng, idx):
    """bursts of pushes inside one microsecond: the run-ahead counterexample of rt_not_early"""
    span = rng.choice([10, 30])
    cost = rng.choice([0, 0, 1])
    lines = ["case %d" % idx, "cfg %d %d %d %d %d" % (START, START + span, 50, START + rng.choice([0, 1]), cost)]
    ev = []
    v = 1
    for _ in range(rng.randint(2, 9)):
        if rng.random() < 0.7:
            ev.append("p%d" % v); v += 1
        else:
            ev.append(rng.choice(["a1", "a0", "s", "a2"]))
    if rng.random() < 0.4:
        lines.append("node 1 r%d ; p50 p51 r1 ; -" % rng.choice([1, 2, 4]))
    lines.append("events " + " ".join(ev))
    lines.append("run")
    return Case(lines, {"kind": "pushes"})


BUSY_SHAPES = [  # (span, wall0 offset, cost): the cut-off must need BOTH wall >= end and >= 1024 MIN_TD cycles
    (1100, 0, 1),        # busy from the start, wall clock keeps pace: runs to end_time, never cut
    (1100, 0, 0),        # busy, clock frozen before end_time: never cut
    (1100, 1100, 1),     # wall clock already at end_time: cut after 1024 cycles
    (1040, 2080, 1),     # far past end_time: cut
    (1020, 2040, 1),     # past end_time but end reached before 1024 cycles: not cut
    (1300, 600, 2),      # wall clock passes end_time mid-way
]


def gen_busy(rng, idx, k=None):
    """a node re-scheduling itself every MIN_TD: the drain cut-off past end_time"""
    if k is not None and k < len(BUSY_SHAPES):
        span, off, cost = BUSY_SHAPES[k]
        wall0 = START + off
    else:
        span = rng.choice([30, 900, 1020, 1026, 1040, 1100, 1300])
        wall0 = START + rng.choice([0, 0, span - 5, span, span + 1, 2 * span])
        cost = rng.choice([0, 1, 1, 3])
    lines = ["case %d" % idx, "cfg %d %d %d %d %d" % (START, START + span, 100, wall0, cost)]
    lines.append("node 1 r0 ; r1 L")
    if rng.random() < 0.4:
        lines.append("node 2 r%d ; r%d ; r%d ; -" % (rng.randint(0, 40), rng.randint(1, 500), rng.randint(1, 900)))
    if rng.random() < 0.3:
        lines.append("after %d %s" % (rng.randint(0, 1050), rng.choice(["x", "a5000", "p7"])))
    lines.append("events " + " ".join(_events(rng, span, rng.randint(0, 4))))
    lines.append("run")
    return Case(lines, {"kind": "busy"})


def gen_burst_then_timers(rng, idx):
    """>= 1024 consecutive MIN_TD cycles while lagging past end_time, THEN ordinary timers that are due before
    end_time: the drain cut-off is about the cycle being computed, not about the cycles already run, so the
    timers must still be delivered (late)"""
    n = rng.choice([1023, 1024, 1025, 1030, 1100])
    gaps = [rng.choice([2, 3, 7, 40, 150, 300]) for _ in range(rng.randint(1, 3))]
    span = n + sum(gaps) + rng.choice([1, 5, 60])
    wall0 = START + rng.choice([span, span + 50, span // 2, n + 1])
    cost = rng.choice([1, 1, 2])
    lines = ["case %d" % idx, "cfg %d %d %d %d %d" % (START, START + span, 100, wall0, cost)]
    lines.append("node 1 " + " ; ".join(["r0"] + ["r1"] * n + ["r%d" % g for g in gaps] + ["-"]))
    lines.append("events " + " ".join(_events(rng, span, rng.randint(0, 2))))
    lines.append("run")
    return Case(lines, {"kind": "burst-timers"})


def streams(rng, tier, seed):
    q = tier == "quick"
    cases = []
    idx = 0
    for gen, n in ((gen_general, 420 if q else 12000), (gen_idle, 40 if q else 600), (gen_pushes, 60 if q else 1500)):
        for _ in range(n):
            cases.append(gen(rng, idx)); idx += 1
    for k in range(14 if q else 200):
        cases.append(gen_busy(rng, idx, k)); idx += 1
    for k in range(10 if q else 120):
        cases.append(gen_burst_then_timers(rng, idx)); idx += 1
    cdir = os.path.join(os.path.dirname(os.path.dirname(os.path.dirname(os.path.abspath(__file__)))), "corpus", "C17")
    corpus = []
    if os.path.isdir(cdir):
        for f in sorted(os.listdir(cdir)):
            corpus.append(Case([l.rstrip("\n") for l in open(os.path.join(cdir, f)) if l.strip()], {"kind": "corpus"}))
    return [Stream("realtime", [os.path.join(BUILD, "hgv_realtime")], model_cmd("C17"), corpus + cases, timeout=1200)]


# ---------------------------------------------------------------- trace parsing

class Trace:
    pass


_TOK = re.compile(r"^(a|t|s|p|x|r|R|w|W)(\d*)(?:=(\d))?(?:@(\d+))?$")


def _toks(body):
    out = []
    if body == "":
        return out
    for t in body.split(","):
        m = _TOK.match(t)
        if not m:
            raise ValueError("token %r" % t)
        out.append((m.group(1), int(m.group(2)) if m.group(2) else 0,
                    None if m.group(3) is None else int(m.group(3)),
                    None if m.group(4) is None else int(m.group(4))))
    return out


def parse(case, out):
    """-> (cfg dict, list of items) or raises.  items: ('start',w) ('S',id,toks) ('Z',toks)
       ('c',t,w) ('B',toks) ('n',id,k,toks) ('v',val) ('e',next) ('A',toks) ('end',reason,w)"""
    cfg = None
    line = None
    for ln, o in zip(case.lines, out):
        w = ln.split()
        if w and w[0] == "cfg":
            cfg = dict(zip(("start", "end", "slice", "wall0", "cost"), map(int, w[1:6])))
        if w and w[0] == "run":
            line = o
    if cfg is None or line is None:
        raise ValueError("no cfg/run")
    items = []
    for e in line.split(" | "):
        if e.startswith("start@"):
            items.append(("start", int(e[6:])))
        elif e.startswith("S") or (e.startswith("n") and ":" in e):
            m = re.match(r"^[Sn](\d+):(\d+)\[(.*)\]$", e)
            items.append(("S" if e[0] == "S" else "n", int(m.group(1)), int(m.group(2)), _toks(m.group(3))))
        elif e[0] in "ZBA" and e[1] == "[":
            items.append((e[0], _toks(e[2:-1])))
        elif e.startswith("c"):
            m = re.match(r"^c(\d+)@(\d+)$", e)
            items.append(("c", int(m.group(1)), int(m.group(2))))
        elif e.startswith("v"):
            items.append(("v", int(e[1:])))
        elif e.startswith("end:"):
            m = re.match(r"^end:(\w+)@(\d+)$", e)
            items.append(("end", m.group(1), int(m.group(2))))
        elif e.startswith("e"):
            items.append(("e", None if e[1:] == "max" else int(e[1:])))
        else:
            raise ValueError("entry %r" % e)
    return cfg, items


def _wake_time(tok, now, started):
    """the wake-up a scheduling token asks for (None = legitimately ignored)"""
    op, n, _, wl = tok
    if op == "r" or op == "R":
        t = now + n if op == "r" else n
        return t if (t > now if started else t >= now) else None
    ref = max(now, wl)
    t = ref + n if op == "w" else n
    if started:
        return max(now + 1, ref) if t <= ref else t        # already due: the next evaluatable time, never dropped
    return ref if t < ref else t


def _analyse(case, out):
    bad, feats = [], set()
    try:
        cfg, items = parse(case, out)
    except Exception as e:   # noqa
        txt = next((o for l, o in zip(case.lines, out) if l.strip() == "run"), "")
        if "bad-op" in out:
            return ["[input] rejected input"], {"rejected"}
        return ["[trace] unreadable trace (%s): %s" % (e, txt[:120])], set()
    start, end = cfg["start"], cfg["end"]
    pending = {}                   # node -> set of wake-up times
    cyc = []                       # (t, wall)
    accepted, delivered = [], []
    stop_seen = False
    reason = None
    final_wall = None
    cur = None                     # index of current cycle
    cur_nodes = set()
    cur_delivered = False
    qlen_at_reset = 0
    first_wall = None

    def env_tok(tok, where):
        nonlocal stop_seen
        op, n, acc, wl = tok
        if op == "p":
            if acc == 1:
                if stop_seen:
                    bad.append("[push] value %d accepted after the stop request" % n)
                accepted.append(n)
                feats.add("push-" + where)
            else:
                feats.add("push-refused")
                if not stop_seen:
                    bad.append("[push] try_send(%d) refused on an unbounded running source" % n)
        elif op == "x":
            stop_seen = True
            feats.add("stop-" + where)

    def close_cycle():
        if cur is None:
            return
        t = cyc[cur][0]
        due = {n for n, s in pending.items() if t in s}
        if due != cur_nodes:
            bad.append("[exact] cycle %d evaluated nodes %s, wake-ups due at exactly %d: %s"
                       % (t, sorted(cur_nodes), t, sorted(due)))
        for n in due:
            pending[n].discard(t)
        if qlen_at_reset > 0 and not cur_delivered:
            bad.append("[push] cycle %d began with %d queued value(s) and delivered none" % (t, qlen_at_reset))

    for it in items:
        kind = it[0]
        if kind == "start":
            first_wall = it[1]
        elif kind in ("S", "n"):
            _, nid, k, toks = it
            now = start if kind == "S" else cyc[cur][0]
            if kind == "n":
                cur_nodes.add(nid)
            for tok in toks:
                if tok[0] in "rRwW":
                    t = _wake_time(tok, now, kind == "n")
                    if tok[0] in "wW":
                        ref = max(now, tok[3])
                        asked = ref + tok[1] if tok[0] == "w" else tok[1]
                        feats.add("alarm-already-due" if asked <= ref else "alarm-future")
                    else:
                        feats.add("timer" if t is not None else "timer-ignored")
                    if t is not None:
                        pending.setdefault(nid, set()).add(t)
                elif tok[0] == "a":
                    feats.add("work-in-eval")
                else:
                    env_tok(tok, "in-eval")
        elif kind == "Z":
            toks = it[1]
            if len(accepted) - len(delivered) > 0:
                bad.append("[missed] the loop waited with %d accepted value(s) undelivered" % (len(accepted) - len(delivered)))
            if stop_seen:
                bad.append("[stop] the loop waited after a stop request")
            for i, tok in enumerate(toks):
                if tok[0] in "px":
                    env_tok(tok, "in-wait")
                    if (tok[0] == "x" or tok[2] == 1) and i != len(toks) - 1:
                        bad.append("[missed] the wait went on after a push/stop had been signalled")
                elif tok[0] == "s":
                    feats.add("spurious")
                elif tok[0] == "t":
                    feats.add("timeout")
                else:
                    feats.add("clock-in-wait")
        elif kind == "c":
            close_cycle()
            _, t, w = it
            if stop_seen:
                bad.append("[stop] cycle %d began after a stop request" % t)
            prev = cyc[-1][0] if cyc else None
            if prev is not None and t <= prev:
                bad.append("[strict] evaluation time %d after %d" % (t, prev))
            if t < start or t >= end:
                bad.append("[strict] evaluation time %d outside [%d,%d)" % (t, start, end))
            skipped = sorted(x for s in pending.values() for x in s if x < t)
            if skipped:
                bad.append("[exact] cycle at %d while wake-up(s) at %s were still pending (skipped)" % (t, skipped[:3]))
            floor = (prev if prev is not None else start) + 1
            if t > max(w, floor):
                bad.append("[early] cycle %d at wall %d beyond max(wall, previous+1)" % (t, w))
            cyc.append((t, w))
            cur = len(cyc) - 1
            cur_nodes = set()
            cur_delivered = False
            qlen_at_reset = len(accepted) - len(delivered)
            if w > t:
                feats.add("lagging-cycle")
            if t > w:
                feats.add("run-ahead-cycle")
        elif kind == "B":
            for tok in it[1]:
                env_tok(tok, "before-cycle")
            qlen_at_reset = len(accepted) - len(delivered)
        elif kind == "A":
            for tok in it[1]:
                env_tok(tok, "after-cycle")
        elif kind == "v":
            if cur_delivered:
                bad.append("[push] two values delivered in cycle %d" % cyc[cur][0])
            cur_delivered = True
            delivered.append(it[1])
        elif kind == "end":
            close_cycle()
            cur = None
            reason, final_wall = it[1], it[2]
    if reason is None:
        bad.append("[trace] the run did not end normally: %s" % str(items[-1])[:100])
        return bad, feats
    feats.add("reason-" + reason)
    if delivered != accepted[:len(delivered)]:
        bad.append("[push] delivered %s is not a prefix of accepted %s" % (delivered[:6], accepted[:6]))
    left = sorted(x for s in pending.values() for x in s if x < end)
    if reason == "end":
        if left:
            bad.append("[drop] run ended at end_time with wake-up(s) %s < end never delivered" % left[:3])
        if stop_seen:
            bad.append("[stop] stop was requested but the run reports end")
    elif reason == "cutoff":
        tail = [c[0] for c in cyc[-1025:]]
        consecutive = len(tail) >= 1025 and all(b == a + 1 for a, b in zip(tail, tail[1:]))
        if not consecutive or final_wall < end:
            bad.append("[drop] run cut short without 1024 consecutive MIN_TD cycles past end_time (wall %d)" % final_wall)
        elif left and cyc and min(left) != cyc[-1][0] + 1:
            # only a run that KEEPS re-scheduling every smallest step may be cut: the wake-up that was dropped
            # here is an ordinary later timer, due before end_time
            bad.append("[drop] run cut short although the next pending wake-up %d (< end %d) is not a smallest-step "
                       "re-schedule after cycle %d" % (min(left), end, cyc[-1][0]))
        feats.add("cutoff")
    elif reason == "stop":
        if not stop_seen:
            bad.append("[stop] run reports stop without a stop request")
    else:
        bad.append("[trace] unknown termination reason " + reason)
    # the clock hypothesis of rt_not_early, decided on the trace
    hyp = first_wall is not None and start <= first_wall
    if cyc:
        hyp = hyp and (cyc[0][0] == start or cyc[0][1] >= first_wall + 1)
    hyp = hyp and all(b[1] >= a[1] + 1 for a, b in zip(cyc, cyc[1:]))
    if hyp:
        feats.add("clock-hypothesis-holds")
        for t, w in cyc:
            if t > w:
                bad.append("[early] cycle at logical time %d evaluated at wall %d" % (t, w))
        if reason == "end" and final_wall < end and cfg["cost"] >= 1:
            bad.append("[early] run ended at wall %d before end_time %d" % (final_wall, end))
    else:
        feats.add("clock-hypothesis-fails")
    if not cyc:
        feats.add("no-cycle")
    if len(cyc) >= 2:
        feats.add("multi-cycle")
    if first_wall is not None:
        feats.add("start-in-past" if first_wall > start else ("start-in-future" if first_wall < start else "start-now"))
    feats.add("kind-" + case.meta.get("kind", "?"))
    return bad, feats


def monitor(stream, case, out):
    return _analyse(case, out)[0][:3]


def features(stream, case, out):
    return sorted(_analyse(case, out)[1])


def nontrivial(stream, case, out):
    f = _analyse(case, out)[1]
    return "multi-cycle" in f and bool(f & {"push-in-wait", "stop-in-wait", "clock-in-wait", "timeout", "alarm-already-due",
                                            "alarm-future", "lagging-cycle", "stop-in-eval", "cutoff"})
