"""C07 (record/replay configuration stream) - a process runs a HISTORY of builds; every build wires
ticker/replay -> record(key) (and a compare variant) THROUGH THE OPERATOR DISPATCH against some GlobalState (a fresh
object, a long-lived object reset / overwritten by copy_from / cleared key by key, a new local object in the same stack
slot, a context-owned state, a stateless Wiring) whose record/replay configuration is chosen per step.  The backend a
build gets (dense "testing" recorder under the plain key, sparse ":memory:" recorder, no overload) and everything it
records must follow from the contents of ITS store alone: every step must print what the same step prints when it is
the FIRST thing a fresh process does.

Meant to be merged into tools/props/c07.py the way c07.py merges c07gs.py / c07notify.py:
    streams += cf.streams(...); monitor/features/nontrivial/valid_case dispatch on stream.startswith("gsconfig-");
    the module lists, the rule text, the trusted base and the assumptions are appended."""
import os
import re
import subprocess
from concurrent.futures import ThreadPoolExecutor
from vlib import Case, Stream, BUILD, VERIF, model_cmd

ID = "C07CFG"
LEAN_MODULES = ["HgVerif.Props.C07Config"]
THEOREMS = [
    "HgVerif.GSConfig.config_depends_on_contents_only",
    "HgVerif.GSConfig.config_reads_config_key",
    "HgVerif.GSConfig.set_config_then_config",
    "HgVerif.GSConfig.backend_depends_on_contents_only",
    "HgVerif.GSConfig.step_obs_address_free",
    "HgVerif.GSConfig.run_address_free",
    "HgVerif.GSConfig.step_obs_depends_on_read_objects_only",
    "HgVerif.GSConfig.step_preserves_other_objects",
    "HgVerif.GSConfig.clear_leaves_nothing",
    "HgVerif.GSConfig.step_trace_history_free",
    "HgVerif.GSConfig.run_last_history_free",
    "HgVerif.GSConfig.stepObs_storeEq",
    "HgVerif.GSConfig.reference_step_reproduces",
    "HgVerif.GSConfig.addr_memo_leaks_config",
    "HgVerif.GSConfig.addr_memo_first_step_unaffected",
    "HgVerif.GSConfig.addr_memo_right_after_set_config",
]
CXX_TARGETS = ["hgv_gsconfig"]
RULE = ("gsconfig streams: histories of 2-6 builds in ONE driver process (each case on its own thread), each wiring "
        "ticker/replay -> record(key) (or replay -> record + compare, or a bare config() query) through the operator dispatch "
        "against a store that is a fresh heap GlobalState, a long-lived object (as left / reset by assignment / copy_from an empty "
        "state / copy_from another object / cleared key by key), a new local GlobalState in the same stack slot, the state a "
        "GlobalContext owns, or a stateless Wiring's internal store; configuration per step: none, set_config (testing / memory / "
        "legacy names / an unserved id), the configuration value written directly under the key, removed again, a foreign value "
        "under the key, changed AFTER the nodes were wired; optional call-site backend scalar and RECOVER seed-resolver probe; "
        "every step's output (store contents at dispatch, status, the executor's final GlobalState with dense/sparse buffers, "
        "summary, seed) must equal the output of the same step - same store kind, contents re-created from the printed dump - "
        "run FIRST in a fresh process; non-trivial = >=2 steps, a graph wired after a step that read a DIFFERENT configuration; "
        "distinct by case text")
TRUSTED = ["the reference of a step is the driver's own output for that step as the first action of a fresh process: a defect "
           "that shows in a process without history is outside this stream (the model correspondence covers it)",
           "most reference processes are children forked from one driver process right after its operator registrations and "
           "before any build (hgv_gsconfig --fresh); a sample of them is re-run in processes started from scratch every run and "
           "must agree, and every reference needed later (shrinking, replay) comes from a process started from scratch"]
ASSUMPTIONS = ["TS<Int> values; record keys are plain words other than the replay key `in`; user stores hold only "
               "RecordReplayConfig / Int entries (no earlier recordings: prior-buffer isolation is the gstate stream)"]

GSC = [os.path.join(BUILD, "hgv_gsconfig")]
CONFIG_KEY = "__hgraph.record_replay.config__"


# ----------------------------------------------------------------------------- the reference of one step

_ITEM = re.compile(r"(\S+?)=(cfg\([^)]*\)|i-?\d+)")


def parse_pre(out):
    """'pre{k=v ...} rest' -> ({k: v}, rest) or None"""
    m = re.match(r"pre\{([^}]*)\}(?: (.*))?$", out or "")
    if not m:
        return None
    body = m.group(1)
    items = dict(_ITEM.findall(body))
    if len(items) != (len(body.split()) if body else 0):
        return None
    return items, (m.group(2) or "")


def reconstruct(items):
    """actions that re-create the printed store contents in an empty store"""
    acts = []
    for k in sorted(items):
        v = items[k]
        if k == CONFIG_KEY:
            if v.startswith("cfg("):
                acts.append("raw:" + v[4:-1])
            elif v == "i0":
                acts.append("bad")
            else:
                return None
        elif v.startswith("i"):
            acts.append("put:%s=%s" % (k, v[1:]))
        else:
            return None
    return "+".join(acts) if acts else "-"


REF_KIND = {"new": "new", "frame": "frame", "own": "own", "none": "none"}


def reference_line(line, out):
    """the step as a self-contained first step of a process: same kind of store (a long-lived object becomes a fresh
    one), no preparation, contents re-created from what the implementation printed as the store's contents"""
    ws = line.split()
    if len(ws) < 7 or ws[0] != "step":
        return None
    pp = parse_pre(out)
    if pp is None:
        return None
    pre = reconstruct(pp[0])
    if pre is None:
        return None
    kind = REF_KIND.get(ws[1], "new")
    return " ".join(["step", kind, "asis", pre] + ws[4:])


_REF = {}          # reference line -> output line of a fresh process (None = could not be obtained)


def _fresh(ref):
    """the reference step as the only input of a process started from scratch"""
    try:
        r = subprocess.run(GSC, input="case 0\n" + ref + "\n", capture_output=True, text=True, timeout=60)
    except Exception:
        return None
    lines = r.stdout.split("\n")
    if r.returncode != 0 or len(lines) < 2 or lines[0] != "case 0":
        return None
    return lines[1]


def _fresh_batch(refs):
    """every reference as the only case of a child forked from the driver right after its registrations (--fresh)"""
    text = "".join("case 0\n%s\n" % r for r in refs)
    try:
        r = subprocess.run(GSC + ["--fresh"], input=text, capture_output=True, text=True, timeout=600)
    except Exception:
        return None
    lines = r.stdout.split("\n")
    if r.returncode != 0 or len(lines) < 2 * len(refs):
        return None
    return [lines[2 * i + 1] for i in range(len(refs))]


def reference_output(ref):
    if ref not in _REF:
        _REF[ref] = _fresh(ref)
    return _REF[ref]


def prefetch(cases):
    """one pass of the implementation over all cases, then every reference not yet known: all of them in forked children of
    eight driver processes (each child has seen nothing but the registrations), and a sample of them again in processes
    started from scratch - if any of those differs from its forked twin, every reference is taken from a process started
    from scratch"""
    text = "".join("\n".join(c.lines) + "\n" for c in cases)
    try:
        r = subprocess.run(GSC, input=text, capture_output=True, text=True, timeout=600)
    except Exception:
        return
    outs = r.stdout.split("\n")
    want, seen, i = [], set(), 0
    for c in cases:
        for l in c.lines:
            o = outs[i] if i < len(outs) else ""
            i += 1
            ref = reference_line(l, o)
            if ref is not None and ref not in _REF and ref not in seen:
                seen.add(ref)
                want.append(ref)
    if not want:
        return
    with ThreadPoolExecutor(max_workers=8) as ex:
        chunks = [want[k::8] for k in range(8)]
        parts = list(ex.map(lambda ch: _fresh_batch(ch) if ch else [], chunks))
        if all(p is not None for p in parts):
            forked = {}
            for ch, p in zip(chunks, parts):
                forked.update(zip(ch, p))
            sample = want[:: max(1, len(want) // 24)][:24]
            scratch = dict(zip(sample, ex.map(_fresh, sample)))
            if all(scratch[x] is None or scratch[x] == forked[x] for x in sample):
                _REF.update(forked)
                return
        for ref, o in zip(want, ex.map(_fresh, want)):
            _REF[ref] = o


# ----------------------------------------------------------------------------- monitor

def monitor(stream, case, out):
    if any(o.startswith("<") for o in out):
        return ["[crash] the implementation driver died: %s" % [o for o in out if o.startswith("<")][0][:120]]
    bad = []
    k = 0
    for l, o in zip(case.lines[1:], out[1:]):
        if not l.startswith("step "):
            continue
        k += 1
        if o == "bad-op":
            continue
        ref = reference_line(l, o)
        if ref is None:
            bad.append("[proto] step %d '%s' printed %s" % (k, l, o[:100]))
            continue
        want = reference_output(ref)
        if want is None or want == "bad-op":
            continue
        if o != want:
            bad.append("[repro-config] step %d '%s' after the %d build(s) made before it in this process gives %s ; the same "
                       "step run FIRST in a fresh process ('%s') gives %s" % (k, l, k - 1, o[:160], ref, want[:160]))
    return bad[:3]


def _cfg_of(items):
    v = items.get(CONFIG_KEY)
    if v is None:
        return "absent"
    return v[4:-1] if v.startswith("cfg(") else "foreign"


def walk(case, out):
    """-> (features, nontrivial)"""
    feats = set()
    seen_cfg = set()
    nontriv = False
    prev = None         # (store token, cfg) of the previous step
    steps = 0
    for l, o in zip(case.lines[1:], out[1:]):
        ws = l.split()
        if len(ws) < 7 or ws[0] != "step" or o == "bad-op":
            continue
        steps += 1
        pp = parse_pre(o)
        if pp is None:
            continue
        items, rest = pp
        kind = ws[1].split(":")[0]
        cfg = _cfg_of(items)
        feats.add("store-" + kind)
        feats.add("prep-" + ("copy-from-object" if ws[2].startswith("copy:") else ws[2]))
        feats.add("cfg-" + (cfg if cfg in ("absent", "testing", "memory", "foreign") else "other"))
        for a in ws[3].split("+"):
            feats.add("pre-" + a.split(":")[0])
        if ws[4] != "-":
            feats.add("late-" + "+".join(sorted({a.split(":")[0] for a in ws[4].split("+")})))
        g = ws[5]
        feats.add("graph-" + g.rstrip("!").split("@")[0])
        if "@" in g:
            feats.add("call-site-model")
        if g.endswith("!"):
            feats.add("seed-probe")
        st = rest.split(" ")[0] if rest else ""
        feats.add("status-" + (st.split("=")[0] if st.startswith("cfg=") else st))
        if ":memory:" in rest:
            feats.add("recorded-sparse")
        if re.search(r" \w+=D\d", rest):
            feats.add("recorded-dense")
        if prev is not None:
            same_slot = prev[0] == ws[1] and kind != "new"
            if prev[1] != cfg:
                feats.add("config-change" + ("-same-slot" if same_slot else ""))
                if same_slot and not any(a.startswith("set:") for a in ws[3].split("+")):
                    feats.add("config-change-same-slot-no-set_config")
        if (seen_cfg - {cfg}) and st in ("ok", "err:run", "err:wire") and "@" not in g:
            nontriv = True
        if "@" not in g:
            seen_cfg.add(cfg)
        prev = (ws[1], cfg)
    feats.add("steps=%d" % min(steps, 6))
    return feats, (nontriv and steps >= 2)


def features(stream, case, out):
    return sorted(walk(case, out)[0])


def nontrivial(stream, case, out):
    return walk(case, out)[1]


def valid_case(stream, case, impl_out, model_out):
    return sum(1 for l in case.lines if l.startswith("step ")) >= 1


# ----------------------------------------------------------------------------- generators

PRE_CFG = [("-", 30), ("set:testing", 22), ("raw:testing", 10), ("set:memory", 5), ("set:testing+rm", 6), ("rm", 3),
           ("set:InMemoryDense", 3), ("raw:InMemoryDense", 1), ("set:acme", 3), ("raw:memory", 2), ("bad", 1),
           ("set:InMemory", 1), ("raw:testing+set:memory", 1)]
LATE = [("-", 80), ("set:testing", 6), ("rm", 4), ("raw:memory", 3), ("set:memory", 3), ("put:zz=1", 2), ("raw:testing", 2)]
JUNK = ["put:zz=5", "put:out=4", "put:zz=5+del:zz", "put:yy=-2"]
REP_INPUTS = [["5", "_", "7"], ["_", "4"], ["1", "2", "3"], [], ["_", "_"], ["9"]]
CMP_INPUTS = [["1", "_", "2"], ["1", "13", "2"], ["13"], ["_", "4"]]


def _pick(rng, table):
    return rng.choices([t[0] for t in table], weights=[t[1] for t in table])[0]


def gen_graph(rng):
    """-> (graph token, key, inputs)"""
    r = rng.random()
    key = "out" if rng.random() < 0.9 else "o2"
    if r < 0.12:
        return "q", "-", []
    if r < 0.55:
        g, inp = "tick", [rng.choice(["2", "3", "3", "1"])]
    elif r < 0.85:
        g, inp = "rep", rng.choice(REP_INPUTS)
    else:
        g, inp = "cmp", rng.choice(CMP_INPUTS)
    if rng.random() < 0.08:
        g += "@" + rng.choice(["testing", "memory", "InMemoryDense", "acme"])
    if rng.random() < 0.12:
        g += "!"
    return g, key, inp


def gen_step(rng, store):
    if store == "none":
        prep = "asis"
    elif store.startswith("obj:"):
        prep = rng.choices(["asis", "reset", "copy", "clear", "copy:" + rng.choice(["a", "b"])], weights=[30, 25, 15, 15, 15])[0]
    else:
        prep = rng.choices(["asis", "reset", "copy", "clear", "copy:" + rng.choice(["a", "b"])], weights=[70, 5, 5, 5, 15])[0]
    pre = _pick(rng, PRE_CFG)
    if rng.random() < 0.15:
        j = rng.choice(JUNK)
        pre = j if pre == "-" else (pre + "+" + j if rng.random() < 0.5 else j + "+" + pre)
    late = _pick(rng, LATE)
    g, key, inp = gen_graph(rng)
    return " ".join(["step", store, prep, pre, late, g, key] + inp)


def gen_history(rng, i):
    L = ["case %d" % i]
    n = rng.randint(2, 6)
    # a history either sticks to one kind of store (the next store lands where the last one was) or mixes them
    kinds = ["new", "obj:a", "obj:b", "frame", "own", "none"]
    sticky = rng.random() < 0.55
    main = rng.choice(kinds[1:])
    for _ in range(n):
        store = main if (sticky and rng.random() < 0.8) else rng.choice(kinds)
        L.append(gen_step(rng, store))
    return Case(L, {})


def directed(start):
    """the seeded shapes: configuration A, then another effective configuration against a store at the same place with no
    set_config in between - for every kind of store, every way of emptying it, every graph"""
    cases, n = [], start
    first = ["set:testing", "raw:testing", "set:acme"]
    second = ["-", "rm", "raw:memory", "raw:testing"]
    graphs = [("tick", "out", ["3"]), ("rep", "out", ["5", "_", "7"]), ("cmp", "out", ["1", "_", "2"]), ("q", "-", [])]
    for store, preps in (("obj:a", ["reset", "copy", "clear", "copy:b", "asis"]), ("frame", ["asis"]), ("own", ["asis"]),
                         ("none", ["asis"]), ("new", ["asis"])):
        for prep in preps:
            for a in first:
                for b in second:
                    if b != "-" and a.split(":")[-1] == b.split(":")[-1]:
                        continue                     # the same effective configuration twice
                    for g, key, inp in graphs[: (4 if a == "set:testing" and b == "-" else 1)]:
                        L = ["case %d" % n]; n += 1
                        L.append(" ".join(["step", store, "asis", a, "-", g, key] + inp))
                        pre2 = b if not (prep == "asis" and store == "obj:a") else ("rm" if b == "-" else b)
                        L.append(" ".join(["step", store, prep, pre2, "-", g, key] + inp))
                        L.append(" ".join(["step", store, "asis" if store != "obj:a" else "reset", a, "-", g, key] + inp))
                        cases.append(Case(L, {}))
    # configuration set AFTER the nodes were wired, then a default build in the same place
    for store in ("obj:a", "frame", "own", "none"):
        L = ["case %d" % n]; n += 1
        L.append("step %s asis - set:testing tick out 3" % store)
        L.append("step %s %s - - tick out 3" % (store, "reset" if store == "obj:a" else "asis"))
        L.append("step %s asis set:testing rm tick out 3" % store)
        L.append("step %s %s - - rep out 5 _ 7" % (store, "clear" if store == "obj:a" else "asis"))
        cases.append(Case(L, {}))
    # two objects alive at the same time, copies between them
    L = ["case %d" % n, "step obj:a asis set:testing - tick out 3", "step obj:b asis - - tick out 3", "step obj:a asis - - tick out 3",
         "step obj:b copy:a - - tick out 3", "step obj:a copy:b rm - tick out 3", "step obj:b asis - - q -", "step obj:a asis - - q -"]
    cases.append(Case(L, {})); n += 1
    return cases


def exhaustive(start):
    """thorough tier: every ordered pair over a small step vocabulary for every store kind"""
    cases, n = [], start
    cfgs = ["-", "set:testing", "raw:testing", "set:testing+rm", "set:acme"]
    graphs = [["tick", "out", "2"], ["rep", "out", "5", "_", "7"], ["q", "-"]]
    for store, prep2 in (("obj:a", "reset"), ("obj:a", "clear"), ("obj:a", "copy"), ("frame", "asis"), ("own", "asis"),
                         ("none", "asis"), ("new", "asis")):
        for c1 in cfgs:
            for c2 in cfgs:
                for g1 in graphs:
                    for g2 in graphs:
                        L = ["case %d" % n, " ".join(["step", store, "asis", c1, "-"] + g1),
                             " ".join(["step", store, prep2, c2, "-"] + g2)]
                        cases.append(Case(L, {})); n += 1
    return cases


def corpus():
    """corpus/C07CFG/*.txt: shrunk failing inputs of the seeded defect s84 and of the mutation tests"""
    cdir = os.path.join(VERIF, "corpus", "C07CFG")
    out = []
    if os.path.isdir(cdir):
        for f in sorted(os.listdir(cdir)):
            if f.endswith(".txt"):
                out.append(Case([l.rstrip("\n") for l in open(os.path.join(cdir, f)) if l.strip()], {}))
    return out


def streams(rng, tier, seed):
    n = 220 if tier == "quick" else 6000
    hist = [gen_history(rng, i) for i in range(n)]
    dire = corpus() + directed(300000)
    if tier != "quick":
        dire += exhaustive(400000)
    prefetch(hist + dire)
    mc = model_cmd("C07Config")
    return [Stream("gsconfig-history", GSC, mc, hist, timeout=1200),
            Stream("gsconfig-directed", GSC, mc, dire, timeout=1200)]
