"""C03 - user code runs exactly when an active input ticked and required inputs are valid."""
import engine_common as ec
import engine_plugin as ep
import c03activity as act

ID = "C03"
LEAN_MODULES = ['HgVerif.Props.NestFlowCor', 'HgVerif.Props.C03', 'HgVerif.Props.C03Activation', 'HgVerif.Props.C03Flow', 'HgVerif.Model.Engine', 'HgVerif.Model.Extracted'] + list(act.LEAN_MODULES)
THEOREMS = ['HgVerif.NestFlow.nested_activation_exact', 'HgVerif.NestFlow.nested_writers_exact', 'HgVerif.NestFlow.nested_idle_cycle_keeps', 'HgVerif.Engine.user_code_gated', 'HgVerif.Engine.gate_closed_iff', 'HgVerif.Engine.unstarted_never_runs', 'HgVerif.Engine.notify_only_subscribers', 'HgVerif.Sched.evaluated_iff_due_or_notified', 'HgVerif.Sched.scanR_evaluated', 'HgVerif.Flow.scanFrom_eq_denSeq', 'HgVerif.Flow.denSeq_ev_iff', 'HgVerif.Flow.activation_exact', 'HgVerif.Flow.writers_exact', 'HgVerif.Flow.runs_with_latest_values'] + list(act.THEOREMS)
CXX_TARGETS = ['hgv_engine'] + list(act.CXX_TARGETS)
USES_EXTRACT = True
RULE = 'random graphs over add/acc/pass/gate (explicit Valid/Unchecked selectors, passive marks), sources with independent tick patterns (becoming valid at different times, ticking together, going quiet), script nodes with inputs; every user-code run logs time and valid/modified/value of each input; non-trivial = >=2 cycles with user code; distinct by program text' + ' ' + act.RULE
TRUSTED = ['subscription plumbing of target_link_ops.cpp is not modelled: covered by correspondence only'] + list(act.TRUSTED)
ASSUMPTIONS = ['all ports are TS[int]'] + list(act.ASSUMPTIONS)
TECHNIQUE = "Lean 4 proof about the engine model's activation/readiness gates + differential correspondence + dataflow reference monitor"
LEVEL_TEXT = ('Kernel-checked: in every completed cycle a node is evaluated IFF its slot was due when the cycle began (own wake-up) or an earlier-evaluated node scheduled it for this cycle (notification), for arbitrary node behaviours under the caller discipline; for every flat dataflow with arbitrary node functions and any topological rank (activation_exact): a node is evaluated in a cycle IFF it was due or one of its ACTIVE producers was evaluated in this cycle and wrote - passive producers and silent evaluations never activate it - and the writers are exactly the fired nodes whose code ticked; WITH THE LATEST VALUES (runs_with_latest_values): a node that runs computes its user function on the states its producers, active and passive, end this cycle with (the latest write of every producer, the one of this cycle included) and on its own previous state, a node that does not run keeps its state; on the engine model: user code of a node runs only if the node is started and every input not marked Unchecked is valid; an output write schedules exactly the started nodes subscribed to it (passive inputs never subscribe). The model is compared trace-for-trace with the runtime and every implementation trace is checked against a dataflow reading that recomputes, per cycle, which nodes must run and with which input values and flags.'
              ' Activity of structured inputs (Props/C03Activity.lean, stream activity): for every input tree (peered or assembled TSL/TSB, nested lists), every sequence of make_active()/make_passive() commands on inputs and their children executed inside user code, and every tick history, the user code runs in a cycle iff a currently active leaf subscription ticked and the validity gate holds (runs_iff_active_tick_and_ready); a command touches exactly its own subtree, parent and child commands do not disturb each other, active/passive are mutually inverse and idempotent.'
              ' Through nested graphs (Props/NestFlowCor.lean): in a cycle of a chain of nested flat dataflows a node of any level runs iff it was due or one of its ACTIVE producers - across any number of graph boundaries - ran and wrote in this cycle (nested_activation_exact); writers are exactly the fired nodes whose code ticked; a node that does not run keeps its state and its slot.')
LEVEL_NOTE = "Trusted: Lean kernel; engine model tied by correspondence; Python monitor. The full 'runs_iff' over arbitrary programs is carried by the monitor; the theorems cover the gates."


def streams(rng, tier, seed):
    n = 200 if tier == "quick" else 5000
    progs = [ec.gen_flat(rng, sched=(i % 4 == 0)) for i in range(n)]
    progs += [ec.gen_nscript(rng) for _ in range(n // 4)]       # native scheduler node held back by the readiness gate
    progs += [ec.gen_sigpassive(rng) for _ in range(n // 4)]    # signature-level passive input + wiring-time passive markers on one node
    return [ec.engine_stream("engine-activation", progs)] + act.streams(rng, tier, seed)


_mon = ep.monitor_for(ID)


def monitor(stream, case, out):
    return act.monitor(stream, case, out) if stream.startswith("activity-") else _mon(stream, case, out)


def features(stream, case, out):
    return act.features(stream, case, out) if stream.startswith("activity-") else ep.features(stream, case, out)


def alarm_filter(stream, case, impl_out, model_out):
    if stream.startswith("activity-"):
        return True, []
    return ep.alarm_filter(stream, case, impl_out, model_out)


def nontrivial(stream, case, out):
    return act.nontrivial(stream, case, out) if stream.startswith("activity-") else ep.nontrivial(stream, case, out)


def valid_case(stream, case, impl_out, model_out):
    if stream.startswith("activity-"):
        f = getattr(act, "valid_case", None)
        return f(stream, case, impl_out, model_out) if f else True
    return ep.valid_case(stream, case, impl_out, model_out)
