"""C11 - reduce equals the fold of the combiner over exactly the currently valid elements."""
import os
from vlib import Case, Stream, BUILD, model_cmd

ID = "C11"
LEAN_MODULES = ["HgVerif.Props.C11", "HgVerif.Props.C11Inc", "HgVerif.Props.C11Keyed", "HgVerif.Model.Slots"]
THEOREMS = [
    # keyed publication of a set-valued result (Props/C11Keyed.lean)
    "HgVerif.ReduceKeyed.pub_step",
    "HgVerif.ReduceKeyed.pinv_reachable",
    "HgVerif.ReduceKeyed.published_eq_root",
    "HgVerif.ReduceKeyed.delta_exact",
    "HgVerif.ReduceKeyed.no_rereport",
    "HgVerif.ReduceKeyed.nothing_lost",
    "HgVerif.ReduceKeyed.delta_coherent",
    "HgVerif.ReduceKeyed.no_tick_without_change",
    "HgVerif.ReduceKeyed.active_stays",
    "HgVerif.ReduceKeyed.e1_creates_snapshot",
    "HgVerif.ReduceKeyed.e1_delta",
    "HgVerif.ReduceKeyed.root_set_eq_union",
    "HgVerif.ReduceKeyed.root_set_history_free",
    "HgVerif.ReduceKeyed.unionL_assoc",
    "HgVerif.ReduceKeyed.root_view_eq_rootVal",
    "HgVerif.ReduceKeyed.combView_coh",
    "HgVerif.ReduceKeyed.inputView_coh",
    "HgVerif.ReduceKeyed.cycleK_is_pubStep",
    "HgVerif.ReduceKeyed.keyed_end_to_end_partial",
    "HgVerif.ReduceKeyed.Witness.witness_first_reshape",
    "HgVerif.ReduceKeyed.Witness.witness_direct_ticks_on_reshape",
    # incremental part (Props/C11Inc.lean): cached combiner outputs, evaluation candidates
    "HgVerif.ReduceInc.cacheInv_init",
    "HgVerif.ReduceInc.cacheInv_step",
    "HgVerif.ReduceInc.cacheInv_reachable",
    "HgVerif.ReduceInc.cached_combiner_eq_fold",
    "HgVerif.ReduceInc.cached_root_eq_fold",
    "HgVerif.ReduceInc.cached_root_eq_rootOut",
    "HgVerif.ReduceInc.reachable_out_eq_fold",
    "HgVerif.ReduceInc.mem_evaluated_iff",
    "HgVerif.ReduceInc.mem_evaluated_full",
    "HgVerif.ReduceInc.structural_iff_interval",
    "HgVerif.ReduceInc.ticked_iff_interval",
    "HgVerif.ReduceInc.recorded_covers_changed",
    "HgVerif.ReduceInc.unevaluated_unchanged",
    "HgVerif.ReduceInc.retired_or_live",
    # generic child-graph path: links, schedules, cached outputs
    "HgVerif.ReduceInc.genInv_init",
    "HgVerif.ReduceInc.genInv_step",
    "HgVerif.ReduceInc.genInv_reachable",
    "HgVerif.ReduceInc.generic_links_current",
    "HgVerif.ReduceInc.generic_no_pending",
    "HgVerif.ReduceInc.generic_cached_combiner_eq_fold",
    "HgVerif.ReduceInc.generic_root_eq_fold",
    "HgVerif.ReduceInc.generic_tree_eq_lifted",
    "HgVerif.ReduceInc.generic_out_eq_lifted_out",
    "HgVerif.ReduceInc.generic_evaluated_candidates",
    "HgVerif.ReduceInc.Witness.witness_s75_breaks_cacheInv",
    "HgVerif.ReduceInc.Witness.witness_s75_wrong_root",
    "HgVerif.ReduceInc.Witness.witness_s75_stale_link",
    "HgVerif.ReduceInc.Witness.witness_s75_breaks_genInv",
    "HgVerif.ReduceInc.Witness.witness_s21_breaks_cacheInv",
    "HgVerif.ReduceInc.Witness.witness_s21_wrong_root",
    # tree algebra (Props/C11.lean)
    "HgVerif.Reduce.resolve_closed_eq_rec",
    "HgVerif.Reduce.tree_value_eq_fold",
    "HgVerif.Reduce.zero_contract",
    "HgVerif.Reduce.foldOpt_perm",
    "HgVerif.Reduce.reduce_history_free",
    "HgVerif.Reduce.shape_reachable",
    "HgVerif.Reduce.reachable_value",
    "HgVerif.Reduce.reachable_history_free",
    "HgVerif.Reduce.combiner_count",
    "HgVerif.Reduce.reachable_combiner_count",
    "HgVerif.Reduce.rebuild_keeps_leaves",
    "HgVerif.Reduce.removeLeafAt_perm",
    "HgVerif.Reduce.keys_track_source",
    "HgVerif.Reduce.lifted_tsl_eq_fold",
]
CXX_TARGETS = ["hgv_reduce"]
RULE = ("key/element histories replayed into a REAL graph replay -> reduce(comb[, zero]) -> record over TSD<int,TS<int>>, "
        "dynamic TSL and fixed TSL<N>; combiners add_ (operator, lifted kernel), max_ (operator), a sub-graph lhs+rhs, a "
        "node lhs+rhs+100 that LOGS every evaluation (operand pair): besides the result, the per-cycle multiset of "
        "combiner evaluations of the real node is compared with the model's evaluation pass; no zero / live time-series "
        "zero / scalar zero. A case is non-trivial when it reaches >= 3 live elements and contains a removal or an "
        "update of a live element (TSL: >= 3 valid elements and a re-tick); distinct by sha1 of the case body. "
        "KEYED RESULTS: the same three collection shapes over TSS<int> elements (kinds tsd:s / dtsl:s / tsl<N>:s) reduced "
        "with set union (operator bit_or and a sub-graph lhs | rhs), no zero / live set-valued zero / set constant; the "
        "line shows the recorded DELTA and the full value; histories with element-level set changes, several per cycle, "
        "shrink to one / none and regrow, growth over 1->2->4->8(->16), re-shapes that leave the value alone; 150 cases "
        "run 2-3 reductions of differing result kinds (scalar / set) one after the other in ONE process in both orders; "
        "a keyed case is non-trivial with >= 3 live elements and an element-level change or a root-identity change")
TRUSTED = ["keyed publication: the TSS output's per-cycle delta bookkeeping (insert_key / remove_key / touch) and what a set "
           "input reports at a sampled re-point (the difference to the value it held) are modelled from the code and "
           "tied by the correspondence runs, not proved about the C++; the union operator's output is taken to carry "
           "the exact difference to its own previous value (union_tss_binary)",
           "TSD/TSL slot stores, replay/record nodes and forwarding outputs are taken as given (C04/C05/C13/C20); the model "
           "driver replays the TSD delta into the C05 slot-store model (Model/Slots.lean) because the reduce node visits "
           "removed / added / modified keys in slot order",
           "dense leaf order inside one cycle is the TSD delta-chain (slot) order; the result theorems hold for every order"]
ASSUMPTIONS = ["keyed results: StepOK (Lemmas/ReduceKeyed) - while an output stays the root of the tree its set evolves by exactly "
               "the delta it reports, a node that is not evaluated has an unmodified root, rebuild implies evaluation; "
               "the snapshot-creating cycle in which the OLD root itself changed (E1, tag [C11-keyed-first-reshape]) is "
               "excluded from the exact-delta theorems and described by e1_delta instead (the unchanged code re-reports "
               "the whole value and loses removals there); for a set-valued result 'no value' and 'the empty set' are "
               "not distinguished by the monitor (the code publishes either for an empty union, tags "
               "keyed:empty-collection-no-zero->..., [C11-keyed-empty-invalid])",
               "the combiner is associative (and commutative for order independence); a non-associative combiner is "
               "outside the property (is_associative=false selects a different node)",
               "the collection and zero sources do not re-point (no switch_/REF upstream of reduce in the harness graph)",
               "a live time-series zero has ticked before it is needed (the generator ticks it in cycle 0); the cache "
               "invariant claims nothing about the singleton root while the zero is not valid (excluded point: a root "
               "combiner that existed with two operands keeps its old output when the collection shrinks to one element "
               "and the zero has never ticked - replay in the evidence notes)",
               "InputsOK (Props/C11Inc): an element whose slot is not in the modified set kept its value, the zero kept "
               "its value unless it ticked, leaves are valid elements, a modified slot implies a collection tick",
               "no combiner schedules itself for a future time (has_future_combiner_schedule = false) and no combiner "
               "pauses (mesh inside the reduce function): outside the model",
               "memory safety of the two combiner banks under churn (ASan) is not expressible in the model: partial"]
TECHNIQUE = ("Lean 4 proof (tree algebra of the heap-indexed dense-prefix reduction tree: closed-form position resolution "
             "= recursive definition, root value = fold by induction on height, invariants over all add/remove "
             "histories; incremental part: an inductive cache invariant over all histories of cycles, proved through a "
             "descending-pass lemma and a 'nothing changed below a non-candidate' lemma) with differential correspondence "
             "against a real reduce graph, including the set of combiner evaluations per cycle")
LEVEL_TEXT = ("Kernel-checked for an arbitrary carrier and an arbitrary associative (commutative) combiner: the closed "
              "form of resolve_aggregate equals the recursive definition for every capacity 2^k, live count and "
              "position; the published root value equals the left fold over the dense leaves for every power-of-two "
              "capacity >= live count; the zero contract for 0/1/>=2 live values; order/capacity independence; the "
              "representation invariant (combiners = needed positions, capacity a power of two >= live count, keys "
              "distinct) holds after every history of reduce-node evaluations, including the incremental "
              "structural-position update; live combiners = max(n-1,[n=1 and zero]). INCREMENTAL PART, as coded "
              "(record_removed_leaf_paths incl. the moved tail leaf, remove_leaf_at compaction, structural_positions, "
              "phase 1 create/retire, bank swap = all fresh, prepare_reduce_evaluation_positions incl. full_scan / "
              "structural positions / modified-leaf paths / zero rule, the descending evaluation loop reading cached "
              "children): the inductive invariant CacheInv - after every cycle the CACHED output of every live combiner "
              "is the fold over the leaves of its interval - holds for init, is preserved by every cycle (any batch of "
              "removals incl. non-tail keys, additions, value ticks, zero ticks; sparse / full reconcile; incremental / "
              "full rebuild / capacity growth) and hence in every reachable state; the root published from the cache "
              "is the fold over exactly the live elements and equals the ideal root of the tree algebra; the set of "
              "combiners re-evaluated in a cycle is exactly the live ancestors (positions whose leaf interval holds the "
              "leaf) of the recorded structural leaves and of the leaves of the modified slots (+ zero rule / full "
              "pass), the recorded leaves cover every dense leaf whose key changed, a combiner that is not re-evaluated "
              "saw no key change and no tick below it, and a combiner that existed before is retired or still there. "
              "GENERIC PATH: GenInv (cache invariant + links of every live combiner = current resolution by key / position + no "
              "pending schedule) holds for init, every cycle and every reachable state; only candidates run; both paths "
              "publish the same fold. Kernel-evaluated WITNESSES (tests on one concrete history, not theorems): the seeded rules s75 (tail path "
              "not recorded) and s10/s21 (tick paths skipped after a rebuild) break CacheInv and publish 382 for 254 / "
              "261 for 1229. The model is tied to the code by running the real node on generated histories and "
              "comparing results AND the multiset of combiner evaluations (operand pairs) of every cycle.")
LEVEL_TEXT += (" KEYED PUBLICATION (Props/C11Keyed.lean; reduce_publication_ops_for / begin_keyed_reduce_publication / "
               "finish_reduce_publication / reconcile_set_impl and the TSS delta bookkeeping, as coded): over ALL histories of "
               "cycles with arbitrary sequences of root identities, bank changes and re-shapes (induction over ReachP, invariant "
               "PInv) the set a consumer of the result holds is exactly the set at the root of the combiner tree "
               "(published_eq_root) and the delta of every cycle is the exact difference between the set held before and "
               "the set held now (delta_exact, no_rereport, nothing_lost, delta_coherent) - except in the one cycle that "
               "creates the snapshot while the old root itself changed (E1; at most once per node: active_stays, "
               "e1_creates_snapshot), where the code reports the whole new set as added and nothing as removed (e1_delta, "
               "for all inputs; witness_first_reshape is the concrete history the real node reproduces); with the snapshot in "
               "place a cycle that leaves the set unchanged does not tick unless the tree moved to the other bank "
               "(no_tick_without_change); the root set is the union over exactly the live valid elements in every "
               "reachable state of the tree, independent of history order and shape (root_set_eq_union, "
               "root_set_history_free: Props/C11Inc instantiated with set union, associative on the nose); a combiner's / a "
               "replayed element's view is coherent by construction (combView_coh, inputView_coh); cycleK, the function "
               "the driver runs, is cycleG + pubStep (cycleK_is_pubStep) and publishes that union (keyed_end_to_end_partial). "
               "COUNTER-LEMMA (kernel-evaluated witness): the direct strategy on a set-valued result ticks on a re-shape "
               "that changes nothing and loses the value on an emptied collection (witness_direct_ticks_on_reshape).")
LEVEL_NOTE = ("Both evaluation paths are proved: the lifted-kernel path (cycleL: an evaluated combiner reads the CURRENT "
              "resolution of its children) by CacheInv, and the generic child-graph path (cycleG: inputs linked at the last "
              "re-bind of the position, tick notifications through the standing links, sampled re-bind only where the "
              "source changed, start of created combiners, a candidate runs only when scheduled and schedules the "
              "combiners linked to it) by GenInv = CacheInv + 'every live combiner is linked to what its child aggregates "
              "resolve to now' + 'no schedule is pending'; hence the link re-binding of generic combiner graphs and which "
              "cached outputs are refreshed are no longer merely observed. The generic model is additionally tied to the "
              "real node by the per-cycle multiset of combiner evaluations (operand pairs) of the logging node combiner. "
              "Keyed publication: proved for set-valued (TSS) results; PARTIAL: keyed_end_to_end_partial assumes StepOK for the "
              "views cycleK builds and that the root identity does not move without rebuild_structure (full statement: "
              "KeyedEndToEnd); dictionary-valued (TSD) results are reachable in the harness (kinds tsd:d / dtsl:d) but not "
              "modelled or generated. Partial / outside the model: re-pointing "
              "collection / zero sources, pause/resume and self-scheduling combiners (has_future_combiner_schedule), the "
              "validity fine print of the sampled re-bind notification; the singleton root while a supplied zero has "
              "never ticked (excluded point, tagged [C11-zero-unset] by the monitor when presented); memory safety "
              "under bank swaps.")

FIXED_SIZES = [1, 2, 3, 4, 5, 8, 9, 16, 17]


def _zero_choice(rng, kind):
    r = rng.random()
    if r < 0.38:
        return "none"
    if r < 0.68 and not kind.startswith("tsl"):
        return "ts"
    if 0.68 <= r < 0.70 and kind.startswith("tsl"):
        return "ts"      # no such overload: both sides must report the resolution error
    return str(rng.choice([1000, 1000, 1000, 0, -7, 5000]))


def _val(rng):
    return rng.choice([rng.randint(-99, 99), rng.randint(0, 9), 0, rng.randint(-9999, 9999)])


def _stok(xs):
    """a set as ONE token: "1,2,3" / "-" """
    xs = sorted(set(xs))
    return ",".join(str(x) for x in xs) if xs else "-"


def _sparse(tok):
    return frozenset() if tok == "-" else frozenset(int(x) for x in tok.split(","))


class _Hist:
    """Builds a TSD / TSL history and keeps the plain dictionary next to it."""

    def __init__(self, rng, kind, zero, tier, keyed=False):
        self.rng, self.kind, self.zero = rng, kind, zero
        self.lines = []
        self.live = {}
        self.next_key = 0
        self.big = tier != "quick"
        self.keyed = keyed
        # set-valued elements draw from a SMALL universe, so that the sets of different elements overlap and an
        # element leaving one set usually stays in the union through another
        self.universe = rng.choice([4, 6, 6, 9, 12]) if keyed else 0

    def val(self):
        if not self.keyed:
            return _val(self.rng)
        r = self.rng.random()
        k = 0 if r < 0.08 else 1 if r < 0.35 else 2 if r < 0.7 else self.rng.randint(3, 5)
        return _stok(self.rng.sample(range(self.universe), min(k, self.universe)))

    def mutate(self, old):
        """an element-level change of a live element: add / remove single members of its set"""
        if not self.keyed:
            return old if self.rng.random() < 0.1 else _val(self.rng)
        cur = set(_sparse(old))
        r = self.rng.random()
        if r < 0.08:
            return old                                   # an empty element delta
        if r < 0.16:
            return self.val()                            # a wholly new set
        for _ in range(self.rng.choice([1, 1, 1, 2, 3])):
            x = self.rng.randrange(self.universe)
            if x in cur and self.rng.random() < 0.6:
                cur.discard(x)
            else:
                cur.add(x)
        return _stok(cur)

    def fresh_key(self):
        if self.kind == "tsd":
            # keys in mixed order, sometimes re-using a previously removed one
            self.next_key += 1
            return self.rng.choice([self.next_key, 100 - self.next_key, self.next_key * 7 % 101 + 200])
        return None

    def cycle(self, ops, ztick=None):
        w = ["c"]
        for op in ops:
            w.append(op)
        if ztick is not None:
            w.append("z %s" % ztick)
        self.lines.append(" ".join(w))

    def add_ops(self, k, busy=()):
        """k new elements, distinct from live ones, from each other and from the keys already touched in
        this cycle (a key set AND removed in one delta has no defined meaning)"""
        ops, used = [], set()
        for _ in range(k):
            for _ in range(20):
                key = self.fresh_key()
                if key not in self.live and key not in used and key not in busy:
                    break
            else:
                continue
            used.add(key)
            v = self.val()
            self.live[key] = v
            ops.append("set %d %s" % (key, v))
        return ops, used

    def remove_ops(self, k, busy):
        ops = []
        for _ in range(k):
            cands = [x for x in self.live if x not in busy]
            if not cands:
                break
            order = sorted(cands)
            how = self.rng.random()
            # insertion order of a python dict == the order keys became live
            chron = [x for x in self.live if x not in busy]
            key = chron[-1] if how < 0.25 else chron[0] if how < 0.45 else chron[len(chron) // 2] if how < 0.7 else self.rng.choice(order)
            del self.live[key]
            busy.add(key)
            ops.append("del %d" % key)
        return ops

    def update_ops(self, k, busy):
        ops = []
        for _ in range(k):
            cands = [x for x in self.live if x not in busy]
            if not cands:
                break
            key = self.rng.choice(cands)
            busy.add(key)
            v = self.mutate(self.live[key])
            self.live[key] = v
            ops.append("set %d %s" % (key, v))
        return ops


def gen_tsd(rng, idx, comb, zero, tier, keyed=False):
    h = _Hist(rng, "tsd", zero, tier, keyed)
    zt = (lambda first=False: (rng.choice([1000, 2000, 0, -5, 77]) if (first or rng.random() < 0.15) else None)) if zero == "ts" else (lambda first=False: None)
    scenario = rng.choice(["walk", "walk", "growshrink", "burst", "boundary", "fulltree", "fulltree"])
    maxn = rng.choice([3, 5, 9, 17] if tier == "quick" else [5, 9, 17, 33, 65])
    if keyed:
        # the live zero is a set too; it ticks in cycle 0 (possibly with the empty set) and changes now and then
        zt = (lambda first=False: (h.val() if (first or rng.random() < 0.2) else None)) if zero == "ts" else (lambda first=False: None)
        scenario = rng.choice(["walk", "walk", "growshrink", "growshrink", "burst", "boundary", "boundary", "fulltree", "reshape"])
        maxn = rng.choice([2, 3, 5, 9] if tier == "quick" else [3, 5, 9, 17, 33])
    # cycle 0
    first = rng.random()
    if first < 0.2:
        h.cycle(["tick"] if rng.random() < 0.5 else [], zt(True))
    else:
        ops, _ = h.add_ops(rng.choice([1, 1, 2, 3, maxn]))
        h.cycle(ops, zt(True))
    ncyc = rng.randint(6, 14) if tier == "quick" else rng.randint(8, 30)
    if scenario == "growshrink":
        for rnd in range(rng.choice([1, 2])):
            while len(h.live) < maxn:
                ops, used = h.add_ops(rng.choice([1, 1, 2, 4]))
                if rng.random() < 0.3:
                    ops += h.update_ops(1, used)
                h.cycle(ops, zt())
            while h.live:
                h.cycle(h.remove_ops(rng.choice([1, 1, 2, 3, len(h.live)]), set()), zt())
            if rng.random() < 0.5:
                h.cycle([], zt())
        ops, _ = h.add_ops(rng.choice([1, 2, 3]))
        h.cycle(ops, zt())
    elif scenario == "burst":
        for _ in range(rng.randint(2, 4)):
            ops, used = h.add_ops(rng.randint(2, maxn))
            h.cycle(ops, zt())
            h.cycle(h.update_ops(rng.randint(1, 3), set()), zt())
            h.cycle(h.remove_ops(rng.randint(1, max(1, len(h.live))), set()), zt())
    elif scenario == "fulltree":
        # the incremental-bookkeeping situation (seed s75): a completely filled tree (8 / 16 leaves; in a tree of
        # width 16 also 12, 14, 15), built in some arrival pattern (which fixes the dense leaf order), possibly
        # permuted by earlier swap-removals; then ONE key that is not the tail leaf is removed - preferably an
        # early arrival, which sits in the other half of the tree from the tail - and NOTHING ticks afterwards
        target = rng.choice([8, 8, 8, 16, 12] if tier == "quick" else [8, 8, 16, 16, 12, 14, 15, 32])
        arrival = rng.choice(["one", "chunks", "single", "chunks"])
        while len(h.live) < target:
            room = target - len(h.live)
            k = room if arrival == "one" else 1 if arrival == "single" else rng.randint(1, min(room, 5))
            ops, used = h.add_ops(k)
            h.cycle(ops, zt())
            if len(h.live) >= 3 and len(h.live) < target and rng.random() < 0.25:
                # a swap-removal on the way permutes the dense order
                h.cycle(h.remove_ops(1, set()), zt())
        for rnd in range(rng.choice([1, 1, 2])):
            if not h.live:
                break
            chron = list(h.live)
            r = rng.random()
            key = rng.choice(chron[:max(1, len(chron) // 2)]) if r < 0.7 else rng.choice(chron[:-1] or chron)
            del h.live[key]
            ops, busy = ["del %d" % key], {key}
            r = rng.random()
            if r < 0.12:
                ops += h.update_ops(1, busy)
            elif r < 0.22:
                more, _ = h.add_ops(1, busy)
                ops += more
            rng.shuffle(ops)
            h.cycle(ops, zt())
            # quiet cycles: the stale value, if any, must not be repaired by an unrelated re-evaluation
            for _ in range(rng.randint(1, 3)):
                r = rng.random()
                if r < 0.35:
                    h.cycle([], zt())
                elif r < 0.55:
                    h.cycle(["tick"], zt())
                elif r < 0.7:
                    h.cycle(["del %d" % rng.choice([9991, 9992])], zt())
                elif r < 0.85:
                    h.cycle(h.update_ops(1, set()), zt())
                else:
                    more, _ = h.add_ops(1)
                    h.cycle(more, zt())
    elif scenario == "reshape":
        # re-shapes that leave the VALUE alone: one element holds the whole union, the others hold subsets of it, so
        # adding / removing them (over the capacity boundaries 1 -> 2 -> 4 -> 8, down to one element, down to none and
        # up again) changes the combiner tree and its root but not the result: nothing may be re-reported
        def subset():
            full = sorted(_sparse(h.live[base])) if base in h.live else list(range(h.universe))
            k = rng.choice([0, 1, 1, 2, len(full)])
            return _stok(rng.sample(full, min(k, len(full))))
        base = None
        for _ in range(rng.randint(8, 16)):
            busy, ops = set(), []
            r = rng.random()
            if base is None or base not in h.live:
                ops, used = h.add_ops(1)
                base = next(iter(used), None)
                if base is not None and h.live[base] == "-":
                    h.live[base] = _stok(rng.sample(range(h.universe), min(3, h.universe)))
                    ops = ["set %d %s" % (base, h.live[base])]
            elif r < 0.45 and len(h.live) < maxn + 4:
                for _ in range(rng.choice([1, 1, 2, 3, 4])):
                    more, used = h.add_ops(1, busy)
                    for k in used:
                        h.live[k] = subset()
                        more = ["set %d %s" % (k, h.live[k])]
                    busy |= used
                    ops += more
            elif r < 0.75 and len(h.live) > 1:
                others = [k for k in h.live if k != base]
                for k in rng.sample(others, min(len(others), rng.choice([1, 1, 2, len(others)]))):
                    del h.live[k]
                    ops.append("del %d" % k)
            elif r < 0.83 and len(h.live) > 1:
                k = rng.choice([k for k in h.live if k != base])
                h.live[k] = subset()
                ops.append("set %d %s" % (k, h.live[k]))
            elif r < 0.90:
                h.live[base] = h.mutate(h.live[base])
                ops.append("set %d %s" % (base, h.live[base]))
                if rng.random() < 0.4 and len(h.live) < maxn + 4:
                    more, _ = h.add_ops(1, {base})
                    ops += more
            elif r < 0.95:
                del h.live[base]                       # the union shrinks to what the subsets cover
                ops.append("del %d" % base)
            else:
                for k in list(h.live):                 # down to none; the next round starts again
                    del h.live[k]
                    ops.append("del %d" % k)
            rng.shuffle(ops)
            h.cycle(ops, zt())
    elif scenario == "boundary":
        # sit on a capacity boundary 2^k and cross it back and forth
        b = rng.choice([1, 2, 4, 8, 16] if tier == "quick" else [2, 4, 8, 16, 32, 64])
        while len(h.live) < b:
            ops, _ = h.add_ops(min(b - len(h.live), rng.choice([1, 2, 8])))
            h.cycle(ops, zt())
        for _ in range(rng.randint(3, 7)):
            busy = set()
            r = rng.random()
            if r < 0.4:
                ops, busy = h.add_ops(1)
            elif r < 0.8:
                ops = h.remove_ops(1, busy)
            else:
                ops = h.remove_ops(1, busy)
                more, _ = h.add_ops(1, busy)     # remove one and add one in the same cycle: same size, new shape
                ops += more
            if rng.random() < 0.3:
                ops += h.update_ops(1, busy)
            h.cycle(ops, zt())
    else:
        for _ in range(ncyc):
            r = rng.random()
            busy = set()
            ops = []
            if r < 0.05:
                pass
            elif r < 0.08:
                ops = ["tick"]
            elif r < 0.10:
                ops = ["del %d" % rng.choice([9991, 9992])]      # a key that was never live
            else:
                room = maxn - len(h.live)
                na = rng.choice([0, 1, 1, 2, 5]) if room > 0 else 0
                nr = rng.choice([0, 0, 1, 1, 2, 4])
                nu = rng.choice([0, 0, 1, 1, 2])
                if len(h.live) <= 1 and rng.random() < 0.5:
                    nr = 0
                ops += h.remove_ops(nr, busy)
                ops += h.update_ops(nu, busy)
                more, used = h.add_ops(min(na, max(room, 0)), busy)
                ops += more
                rng.shuffle(ops)
            h.cycle(ops, zt())
    return h.lines


def gen_tsl(rng, idx, kind, size, comb, zero, tier, keyed=False):
    lines = []
    universe = rng.choice([4, 6, 9]) if keyed else 0
    cur = {}

    def val(i):
        if not keyed:
            return _val(rng)
        old = cur.get(i)
        if old is not None and rng.random() < 0.6:
            xs = set(old)
            for _ in range(rng.choice([1, 1, 2])):
                x = rng.randrange(universe)
                if x in xs and rng.random() < 0.6:
                    xs.discard(x)
                else:
                    xs.add(x)
        else:
            xs = set(rng.sample(range(universe), rng.choice([0, 1, 1, 2, 2, 3])))
        cur[i] = frozenset(xs)
        return _stok(xs)

    dynamic = kind == "dtsl"
    length = 0
    ncyc = rng.randint(4, 10)
    valid = set()
    never = set(rng.sample(range(size), rng.randint(0, max(0, size // 3)))) if not dynamic and size > 1 else set()
    zts = zero == "ts"
    for c in range(ncyc):
        ops = []
        r = rng.random()
        if c == 0 and r < 0.25:
            pass
        elif dynamic:
            cap = 17 if tier == "quick" else 40
            k = rng.choice([0, 1, 1, 2, 4])
            idxs = set()
            for _ in range(k):
                if valid and rng.random() < 0.4:
                    idxs.add(rng.choice(sorted(valid)))
                else:
                    idxs.add(min(cap, length + rng.choice([0, 0, 0, 1, 2])))   # a gap leaves an invalid element
            for i in sorted(idxs):
                ops.append("set %d %s" % (i, val(i)))
                valid.add(i)
                length = max(length, i + 1)
        else:
            pool = [i for i in range(size) if i not in never]
            k = rng.choice([0, 1, 1, 2, 3, len(pool)])
            for i in sorted(rng.sample(pool, min(k, len(pool)))):
                ops.append("set %d %s" % (i, val(i)))
                valid.add(i)
        w = ["c"] + ops
        if zts and keyed and (c == 0 or rng.random() < 0.2):
            w.append("z %s" % _stok(rng.sample(range(universe), rng.choice([0, 1, 2]))))
        elif zts and (c == 0 or rng.random() < 0.15):
            w.append("z %d" % rng.choice([1000, 2000, 0, -5]))
        lines.append(" ".join(w))
    return lines


def gen_case(rng, idx, tier):
    r = rng.random()
    if r < 0.55:
        kind, size = "tsd", 0
    elif r < 0.70:
        kind, size = "dtsl", 0
    else:
        size = rng.choice(FIXED_SIZES)
        kind = "tsl%d" % size
    comb = rng.choice(["add", "add", "add", "graph", "graph", "node", "node", "node", "max"])
    zero = _zero_choice(rng, kind)
    lines = ["case %d" % idx, "cfg %s %s %s" % (kind, comb, zero)]
    if kind == "tsd":
        lines += gen_tsd(rng, idx, comb, zero, tier)
    else:
        lines += gen_tsl(rng, idx, "dtsl" if kind == "dtsl" else "tsl", size, comb, zero, tier)
    lines.append("run")
    return Case(lines)


KEYED_FIXED_SIZES = [1, 2, 3, 4, 5, 8]


def gen_keyed_segment(rng, tier):
    """cfg + history + run of ONE reduce whose elements and result are TSS<Int> (keyed publication)"""
    r = rng.random()
    if r < 0.62:
        kind, size = "tsd", 0
    elif r < 0.80:
        kind, size = "dtsl", 0
    else:
        size = rng.choice(KEYED_FIXED_SIZES)
        kind = "tsl%d" % size
    comb = rng.choice(["union", "union", "ugraph"])
    r = rng.random()
    if r < 0.45:
        zero = "none"
    elif r < 0.70 and not kind.startswith("tsl"):
        zero = "ts"
    elif 0.70 <= r < 0.72 and kind.startswith("tsl"):
        zero = "ts"          # no such overload: both sides report the resolution error
    else:
        zero = "e" + ("" if rng.random() < 0.4 else ",".join(str(x) for x in sorted(rng.sample(range(9), rng.choice([1, 2])))))
    lines = ["cfg %s:s %s %s" % (kind, comb, zero)]
    if kind == "tsd":
        lines += gen_tsd(rng, 0, comb, zero, tier, keyed=True)
    else:
        lines += gen_tsl(rng, 0, "dtsl" if kind == "dtsl" else "tsl", size, comb, zero, tier, keyed=True)
    lines.append("run")
    return lines


def gen_scalar_segment(rng, tier):
    c = gen_case(rng, 0, tier)
    return c.lines[1:]


def gen_keyed_case(rng, idx, tier):
    return Case(["case %d" % idx] + gen_keyed_segment(rng, tier))


def gen_mixed_case(rng, idx, tier):
    """2-3 reduce graphs of DIFFERING result kinds (scalar: direct publication; set: keyed publication) built and
    run one after the other in ONE process, in both orders: whatever one reduce node leaves behind in the process
    must not change how the next one publishes"""
    order = rng.choice(["sk", "ks", "sks", "ksk", "skk", "kss"])
    lines = ["case %d" % idx]
    for ch in order:
        lines += gen_keyed_segment(rng, tier) if ch == "k" else gen_scalar_segment(rng, tier)
    return Case(lines)


def exhaustive_small(tier):
    """Every add/remove history of length <= L over 3 keys, one op per cycle, for both zero forms (thorough)."""
    cases = []
    if tier == "quick":
        return cases
    import itertools
    idx = 900000
    for zero in ("none", "1000"):
        for comb in ("add", "node"):
            for L in range(1, 6):
                for seq in itertools.product(range(6), repeat=L):
                    live, lines, ok = set(), [], True
                    for s in seq:
                        k, is_del = s % 3, s >= 3
                        if is_del and k not in live:
                            ok = False
                            break
                        if is_del:
                            live.discard(k)
                            lines.append("c del %d" % k)
                        else:
                            live.add(k)
                            lines.append("c set %d %d" % (k, 1 + k * 10))
                    if ok:
                        idx += 1
                        cases.append(Case(["case %d" % idx, "cfg tsd %s %s" % (comb, zero)] + lines + ["run"]))
    return cases


def streams(rng, tier, seed):
    n = 1000 if tier == "quick" else 20000
    cases = [gen_case(rng, i, tier) for i in range(n)] + exhaustive_small(tier)
    # set-valued elements / results (keyed publication), alone and interleaved with scalar-result reductions
    nk, nm = (350, 150) if tier == "quick" else (6000, 2500)
    keyed = [gen_keyed_case(rng, 100000 + i, tier) for i in range(nk)]
    mixed = [gen_mixed_case(rng, 200000 + i, tier) for i in range(nm)]
    # interleave, so that the process history seen by a case is not "all scalar first"
    tail = keyed + mixed
    rng.shuffle(tail)
    cases = cases[: n // 2] + tail + cases[n // 2:]
    cdir = os.path.join(os.path.dirname(BUILD), "corpus", "C11")
    corpus = []
    if os.path.isdir(cdir):
        for f in sorted(os.listdir(cdir)):
            corpus.append(Case([l.rstrip("\n") for l in open(os.path.join(cdir, f)) if l.strip()]))
    return [Stream("reduce", [os.path.join(BUILD, "hgv_reduce")], model_cmd("C11"), corpus + cases, timeout=3000)]


# ------------------------------------------------------------------ the monitor (implementation trace only)

def _comb(name):
    if name == "node":
        return lambda a, b: a + b + 100
    if name == "max":
        return max
    return lambda a, b: a + b


def _fields(line):
    d = {}
    for w in line.split():
        if "=" in w:
            k, v = w.split("=", 1)
            d[k] = v
    return d


# Behaviour of the UNCHANGED code that is outside the property as stated and is reported under a tag of its own
# instead of raising an alarm (see the final report of the keyed-publication work; flip an entry to True to make
# the monitor raise it as a violation, e.g. once it is listed in known_findings.json or fixed):
#   [C11-keyed-first-reshape]  the cycle in which the snapshot is created (first change of the root's identity) while
#                              the OLD root itself changed in that cycle: the whole new value is reported as added,
#                              removals of that cycle are not reported at all
KEYED_TAG_ALARMS = {"[C11-keyed-first-reshape]": True}


def _bitceil(n):
    c = 1
    while c < n:
        c *= 2
    return c


def _parse_set(tok):
    tok = tok.strip()
    if not (tok.startswith("[") and tok.endswith("]")):
        raise ValueError("not a set: %r" % tok)
    body = tok[1:-1]
    return frozenset(int(x) for x in body.split(",")) if body else frozenset()


def _parse_delta(tok):
    """{added=[..];removed=[..]} -> (added, removed)"""
    if not (tok.startswith("{") and tok.endswith("}")):
        raise ValueError("not a set delta: %r" % tok)
    d = {}
    for part in tok[1:-1].split(";"):
        k, v = part.split("=", 1)
        d[k] = _parse_set(v)
    return d["added"], d["removed"]


def _fmt(xs):
    return "[" + ",".join(str(x) for x in sorted(xs)) + "]"


class _Keyed:
    """The property for a reduce whose elements / result are sets, decided on the implementation trace alone:
    value = union over the currently valid elements (zero contract by live count), recorded delta = the exact
    difference of consecutive values, a tick without a change only where the code documents one."""

    def __init__(self, kind, zero):
        self.kind, self.zero = kind, zero
        self.list = kind != "tsd"
        self.live = {}
        self.zval = _sparse(zero[1:] or "-") if zero.startswith("e") else None
        self.pub = None            # the published value; None: never valid so far
        self.acc = None            # the value a consumer reconstructs from the recorded deltas
        self.cap = 0
        self.root = None
        self.active = False        # the snapshot exists (first change of the root's identity has happened)
        self.ncyc = 0
        self.seen_max = 0
        self.emptied = False
        self.eval_seen = False

    def root_id(self, n):
        if self.zero != "none":
            return "zero" if n == 0 else ("comb", self.cap)
        if n == 0:
            return None
        if n == 1:
            return ("elem", next(iter(self.live)))
        return ("comb", self.cap)

    def cycle(self, w, o, fo, bad, feats):
        i, sets, dels, zt = 1, {}, [], None
        while i < len(w):
            if w[i] == "set" and i + 2 < len(w):
                sets[int(w[i + 1])] = _sparse(w[i + 2]); i += 3
            elif w[i] == "del" and i + 1 < len(w):
                dels.append(int(w[i + 1])); i += 2
            elif w[i] == "z" and i + 1 < len(w):
                zt = _sparse(w[i + 1]); i += 2
            else:
                i += 1
        if not self.list and set(sets) & set(dels):
            feats.add("ambiguous-delta(not judged)")
            return False
        before = dict(self.live)
        nb = len(before)
        changed = set()
        ndel = 0
        if not self.list:
            for k in dels:
                if k in self.live:
                    del self.live[k]; ndel += 1
                else:
                    feats.add("remove-missing-key")
        for k, v in sets.items():
            if before.get(k) != v:
                changed.add(k)
            elif k in before:
                feats.add("keyed:empty-element-delta")
            self.live[k] = v
        nadd = sum(1 for k in sets if k not in before)
        nupd = sum(1 for k in sets if k in before and before[k] != sets[k])
        zchanged = False
        if self.zero == "ts" and zt is not None:
            zchanged = self.zval is None or zt != self.zval
            self.zval = zt
            feats.add("zero-tick@n=%s" % (len(self.live) if len(self.live) < 2 else ">=2"))
        coll_tick = bool(sets) or ndel > 0
        const_first = self.zero.startswith("e") and self.ncyc == 0
        evaluated = coll_tick or zchanged or const_first
        self.ncyc += 1
        n = len(self.live)
        # features
        if nadd > 1: feats.add("multi-add-cycle")
        if ndel > 1: feats.add("multi-remove-cycle")
        if nadd and ndel: feats.add("add+remove-same-cycle")
        if nupd: feats.add("update-live-element"); feats.add("keyed:element-level-set-change")
        if ndel and nupd: feats.add("remove+update-same-cycle")
        for b in (1, 2, 4, 8, 16, 32):
            if nb <= b < n:
                feats.add("keyed:grow-over-%d" % b)
        if n == 0 and nb > 0:
            feats.add("keyed:shrink-to-empty"); self.emptied = True
        if n == 1 and nb > 1:
            feats.add("keyed:shrink-to-one")
        if self.emptied and n > 0:
            feats.add("keyed:regrow-after-empty")
        self.seen_max = max(self.seen_max, n)
        feats.add("keyed:n:%s" % (n if n <= 2 else "3-4" if n <= 4 else "5-8" if n <= 8 else ">8"))
        # the structure the documented rules speak about: capacity (a power of two, monotonic), identity of the root
        old_root, old_cap = self.root, self.cap
        if evaluated:
            self.eval_seen = True
            self.cap = max(self.cap, 2 if self.zero != "none" else 0, _bitceil(n) if n else 0)
        grown = self.cap != old_cap
        if self.eval_seen:
            self.root = self.root_id(n)
        # expected value (zero contract by live count)
        vals = list(self.live.values())
        undefined = False
        if n == 0:
            exp = self.zval if self.zero != "none" else None
        elif n == 1 and self.zero != "none":
            if self.zval is None:
                exp, undefined = None, True
            else:
                exp = vals[0] | self.zval
        else:
            exp = frozenset().union(*vals)
        if self.zero == "ts" and self.zval is None:
            undefined = True            # a live zero that has never ticked: outside the generator (C11-zero-unset)
        if undefined:
            feats.add("keyed:zero-unset(not judged)")
            self.pub = self.acc = None
            self.active = True
            return True
        got = fo.get("out")
        rec = fo.get("rec", "-")
        prev = self.pub
        root_changed = self.root != old_root
        # the snapshot is created at the first change of the root's identity away from a root that holds a value
        first_reshape = (not self.active) and root_changed and old_root is not None and prev is not None
        old_root_changed = first_reshape and ((old_root[0] == "elem" and old_root[1] in changed) if isinstance(old_root, tuple)
                                              else (old_root == "zero" and zchanged))
        if first_reshape:
            self.active = True
            feats.add("keyed:snapshot-created")
        if root_changed and prev is not None and old_root is not None:
            feats.add("keyed:reshape(root-identity-changes)")
        # validity + value.  For a set-valued result "no value" and "the empty set" are the same union; the code itself
        # publishes the one or the other for an empty union depending on whether its snapshot has been touched
        # (tagged in the histogram), so the monitor compares SETS and requires validity only for a non-empty union
        want_set = exp if exp is not None else frozenset()
        got_valid = got not in (None, "none")
        got_set = _parse_set(got) if got_valid else frozenset()
        if exp is None:
            feats.add("keyed:empty-collection-no-zero->" + ("empty-set" if got_valid else "invalid"))
        elif not exp and not got_valid:
            feats.add("[C11-keyed-empty-invalid] the union is the (valid) empty set, the result is not valid")
        new = got_set if got_valid else None
        if got_set != want_set:
            bad.append("cycle %d: result %s, the union over the %d live elements%s is %s" %
                       (self.ncyc - 1, got, n, "" if self.zero == "none" else " (zero %s)" % (_fmt(self.zval) if self.zval is not None else "-"),
                        _fmt(want_set)))
            self.pub = self.acc = new
            return True
        pset, nset = (prev or frozenset()), want_set
        exact = (nset - pset, pset - nset)
        if rec == "-":
            if exact != (frozenset(), frozenset()):
                # the union became the (valid) EMPTY set while the published result silently lost its validity: the new
                # root is a combiner / element output that never became valid (an empty set written to a fresh set output
                # does not validate it) and no removal is published.  Known finding C11-keyed-empty-invalid - only this
                # exact shape (result not valid, union empty, previous published set non-empty, nothing recorded).
                tag = "[C11-keyed-empty-invalid] " if (not got_valid and not nset and pset) else ""
                bad.append(tag + "cycle %d: the result changed from %s to %s but nothing was recorded" % (self.ncyc - 1, _fmt(pset), _fmt(nset)))
        else:
            added, removed = _parse_delta(rec)
            if new is None:
                bad.append("cycle %d: a delta %s was recorded while the result is not valid" % (self.ncyc - 1, rec))
            elif (added, removed) == exact:
                if not added and not removed:
                    # a tick with an empty delta: the result became valid (empty); the tree moved to the other bank
                    # (capacity growth: sample_all); the collection ran empty while the snapshot was already empty
                    why = ("first-valid" if prev is None else "capacity-growth" if grown else
                           "emptied" if (n == 0 and nb > 0 and self.zero == "none") else None)
                    if why is None:
                        bad.append("cycle %d: the result ticked (empty delta) although nothing changed: value %s, %d -> %d elements, "
                                   "capacity %d" % (self.ncyc - 1, _fmt(nset), nb, n, self.cap))
                    else:
                        feats.add("keyed:empty-delta-tick:" + why)
                else:
                    feats.add("keyed:exact-delta")
                    if root_changed and prev is not None:
                        feats.add("keyed:exact-delta-across-reshape")
            else:
                re_reported = added & pset
                lost = (pset - nset) - removed
                msg = ("cycle %d: recorded delta +%s -%s, but the value went from %s to %s: exact difference +%s -%s%s%s" %
                       (self.ncyc - 1, _fmt(added), _fmt(removed), _fmt(pset), _fmt(nset), _fmt(exact[0]), _fmt(exact[1]),
                        "; unchanged elements re-reported as added: %s" % _fmt(re_reported) if re_reported else "",
                        "; removals never reported: %s" % _fmt(lost) if lost else ""))
                if old_root_changed:
                    tag = "[C11-keyed-first-reshape]"
                    feats.add(tag + " non-minimal / lossy delta in the snapshot-creating cycle (unchanged code)")
                    if KEYED_TAG_ALARMS.get(tag):
                        bad.append(tag + " " + msg)
                else:
                    bad.append(msg + (" (the root of the combiner tree changed identity in this cycle: %d -> %d elements)" % (nb, n)
                                      if root_changed else ""))
            # what a consumer holds after applying the recorded deltas
            if new is not None and not old_root_changed:
                acc = ((self.acc or frozenset()) - removed) | added
                if acc != nset and (added, removed) == exact:
                    bad.append("cycle %d: applying the recorded deltas gives %s, the value is %s" % (self.ncyc - 1, _fmt(acc), _fmt(nset)))
        self.pub = self.acc = new
        return True

    def end(self, fo, bad):
        if self.ncyc == 0 or (self.zero == "ts" and self.zval is None):
            return
        got = fo.get("out")
        want = "none" if self.pub is None else _fmt(self.pub)
        if got != want and not (got in ("none", "[]") and want in ("none", "[]")):
            bad.append("after the run the result is %s, the union over the %d live elements is %s" % (got, len(self.live), want))


def _spec(case, out):
    """Plain dictionary bookkeeping over the input history -> (violations, features)."""
    bad, feats = [], set()
    keyed = None
    kind, comb, zero = "tsd", "add", "none"
    live, zval, prev_exp, ncyc = {}, None, None, 0
    seen_max, was_nonempty, emptied = 0, False, False
    out = list(out) + ["<missing>"] * (len(case.lines) - len(out))
    for ln, o in zip(case.lines, out):
        w = ln.split()
        if not w:
            continue
        if w[0] == "cfg" and len(w) == 4:
            kind, comb, zero = w[1], w[2], w[3]
            live, zval, prev_exp, ncyc = {}, None, None, 0
            keyed = None
            if kind.endswith(":s"):
                kind = kind[:-2]
                feats.update(["kind:" + ("tsl-fixed" if kind.startswith("tsl") else kind) + ":set", "comb:" + comb,
                              "zero:" + (zero if zero in ("none", "ts") else "set-constant")])
                if kind.startswith("tsl") and zero == "ts":
                    feats.add("unresolvable-overload")
                keyed = _Keyed(kind, zero)
                continue
            if kind.endswith(":d"):
                feats.add("kind:dict-valued(not judged)")
                break
            feats.update(["kind:" + ("tsl-fixed" if kind.startswith("tsl") else kind), "comb:" + comb,
                          "zero:" + (zero if zero in ("none", "ts") else "scalar")])
            if kind.startswith("tsl") and zero == "ts":
                feats.add("unresolvable-overload")
            continue
        if w[0] == "case":
            kind, comb, zero = "tsd", "add", "none"
            live, zval, prev_exp, ncyc = {}, None, None, 0
            keyed = None
            continue
        if w[0] not in ("c", "run"):
            continue
        if o.startswith("err:") or o in ("bad-op", "<missing>") or o.startswith("<"):
            if kind.startswith("tsl") and zero == "ts" and o == "err:resolution":
                continue
            bad.append("driver reported %s for %r" % (o, ln))
            continue
        if keyed is not None:
            fo = _fields(o)
            if w[0] == "c":
                if not keyed.cycle(w, o, fo, bad, feats):
                    break
                if keyed.seen_max >= 3 and ("update-live-element" in feats or "keyed:reshape(root-identity-changes)" in feats):
                    feats.add("nontrivial")
            else:
                keyed.end(fo, bad)
            continue
        f = _comb(comb)
        fo = _fields(o)
        if w[0] == "c":
            i, nset, ndel, nupd = 1, 0, 0, 0
            before = len(live)
            feats_cycle = set()
            skeys = {w[x + 1] for x in range(1, len(w)) if w[x] == "set" and x + 2 < len(w)}
            dkeys = {w[x + 1] for x in range(1, len(w)) if w[x] == "del" and x + 1 < len(w)}
            if kind == "tsd" and skeys & dkeys:
                feats.add("ambiguous-delta(not judged)")
                break
            while i < len(w):
                if w[i] == "set":
                    k, v = int(w[i + 1]), int(w[i + 2])
                    if k in live:
                        nupd += 1
                    else:
                        nset += 1
                    live[k] = v
                    i += 3
                elif w[i] == "del":
                    k = int(w[i + 1])
                    if kind == "tsd":
                        if k in live:
                            order = list(live)
                            pos = order.index(k)
                            what = ("remove-only" if len(order) == 1 else "remove-last" if pos == len(order) - 1
                                    else "remove-first" if pos == 0 else "remove-middle")
                            feats.add(what)
                            feats_cycle.add(what)
                            ndel += 1
                            del live[k]
                        else:
                            feats.add("remove-missing-key")
                    i += 2
                elif w[i] == "z":
                    if zero == "ts":
                        zval = int(w[i + 1])
                        feats.add("zero-tick@n=%s" % (len(live) if len(live) < 2 else ">=2"))
                    i += 2
                elif w[i] == "tick":
                    feats.add("empty-delta")
                    i += 1
                else:
                    i += 1
            if zero not in ("none", "ts"):
                zval = int(zero)
            if kind == "tsd" and ndel == 1 and nset == 0 and nupd == 0 and before in (8, 16, 12, 14, 15, 32) and \
                    "remove-last" not in feats_cycle:
                feats.add("full-tree:remove-nontail-only@%d" % before)
            if nset and nupd and not (before < 2 or any(before <= b < len(live) for b in (2, 4, 8, 16, 32, 64))):
                feats.add("add+update-no-growth")
            if ndel and nupd:
                feats.add("remove+update-same-cycle")
            ev = fo.get("ev")
            if ev not in (None, "-"):
                nev = 0 if ev == "[]" else ev.count(",") + 1
                feats.add("node-evals/cycle:%s" % (nev if nev <= 3 else "4-7" if nev <= 7 else ">=8"))
            if nset > 1:
                feats.add("multi-add-cycle")
            if ndel > 1:
                feats.add("multi-remove-cycle")
            if nset and ndel:
                feats.add("add+remove-same-cycle")
            if nupd:
                feats.add("update-live-element")
            n = len(live)
            for b in (2, 4, 8, 16, 32, 64):
                if before <= b < n:
                    feats.add("grow-over-%d" % b)
            if n == 0 and before > 0:
                feats.add("shrink-to-empty")
                emptied = True
            if emptied and n > 0:
                feats.add("regrow-after-empty")
            seen_max = max(seen_max, n)
            feats.add("n:%s" % (n if n <= 2 else "3-4" if n <= 4 else "5-8" if n <= 8 else "9-16" if n <= 16 else ">16"))
            if kind.startswith("tsl") and n < int(kind[3:]):
                feats.add("tsl-invalid-elements")
            if kind == "dtsl" and live and max(live) + 1 > n:
                feats.add("tsl-invalid-elements")
            ncyc += 1
        # expected value from the dictionary alone
        vals = list(live.values())
        n = len(vals)
        undefined = False
        if n == 0:
            exp = zval if zero != "none" else None
        elif n == 1 and zero != "none":
            if zval is None:
                exp, undefined = None, True
            else:
                exp = f(vals[0], zval)
        else:
            exp = vals[0]
            for v in vals[1:]:
                exp = f(exp, v)
        if w[0] == "run":
            if ncyc == 0 or undefined:
                continue
            got = fo.get("out")
            if got != ("none" if exp is None else str(exp)):
                bad.append("after the run the result is %s, the fold over the %d live elements is %s" % (got, n, exp))
            continue
        if undefined:
            # one live element, a zero is supplied but has never ticked: combine(value, <no value>) is not defined.
            # The generator never produces this (the zero ticks in cycle 0); when such a history is presented
            # (replay / corpus) a VALID result is a stale aggregate of elements that are no longer live
            got = fo.get("out")
            if got not in (None, "none") and before >= 2:
                bad.append("[C11-zero-unset] cycle %d: one live element and a zero input that has never ticked, but the "
                           "result is still %s (the aggregate of the %d elements live before)" % (ncyc - 1, got, before))
            prev_exp = None
            continue
        got, rec = fo.get("out"), fo.get("rec")
        want = "none" if exp is None else str(exp)
        if got != want:
            bad.append("cycle %d: result %s, fold over the %d live elements%s is %s" %
                       (ncyc - 1, got, n, "" if zero == "none" else " (zero %s)" % zval, want))
        if rec not in (None, "-") and rec != want:
            bad.append("cycle %d: recorded tick %s, fold over the %d live elements is %s" % (ncyc - 1, rec, n, want))
        if exp is not None and exp != prev_exp and rec == "-":
            bad.append("cycle %d: the fold changed from %s to %s but the result did not tick" % (ncyc - 1, prev_exp, exp))
        elif exp is not None and rec == "-" and (nset or nupd or ndel):
            # a TS result aliases the root of the combiner tree: an element that ticks, an element that arrives or
            # leaves re-evaluates / re-points the root, and the result ticks even when the new fold equals the old one
            bad.append("cycle %d: elements ticked / arrived / left (%d set, %d updated, %d removed) and the fold is %s, but the "
                       "result did not tick (a tick with an equal value is still a tick)" % (ncyc - 1, nset, nupd, ndel, exp))
        prev_exp = exp
    if seen_max >= 3 and ({"update-live-element"} & feats or any(x.startswith("remove-") and x != "remove-missing-key" for x in feats)):
        feats.add("nontrivial")
    return bad, feats


def monitor(stream, case, out):
    return _spec(case, out)[0][:3]


def features(stream, case, out):
    return sorted(x for x in _spec(case, out)[1] if x != "nontrivial")


def nontrivial(stream, case, out):
    return "nontrivial" in _spec(case, out)[1]


def alarm_filter(stream, case, impl_out, model_out):
    """Observable: the result value (`out`, recorded ticks), the per-cycle multiset of combiner evaluations of the
    logging node combiner (`ev`) and error classes.  Tick/modified flags that the model predicts by rule, leaf and
    combiner counts are diagnostics (model-internal drift)."""
    notes, alarm = [], False
    if len(impl_out) != len(model_out):
        return True, ["line counts differ"]
    # lines at which a supplied live zero has not ticked yet (the excluded point C11-zero-unset): the model claims
    # nothing about ticks there
    unset, zero_ts, zseen = set(), False, False
    for i, ln in enumerate(case.lines):
        w = ln.split()
        if w[:1] == ["cfg"] and len(w) == 4:
            zero_ts, zseen = w[3] == "ts", False
        elif w[:1] == ["c"]:
            if "z" in w[1:]:
                zseen = True
            if zero_ts and not zseen:
                unset.add(i)
        elif w[:1] == ["case"]:
            zero_ts, zseen = False, False
    for i, (a, b) in enumerate(zip(impl_out, model_out)):
        if a == b:
            continue
        fa, fb = _fields(a), _fields(b)
        if not fa or not fb or a.split()[:1] != b.split()[:1] and not (a.startswith("rec=") and b.startswith("rec=")):
            alarm = True
            notes.append("line %d: %r vs %r" % (i, a, b))
            continue
        if fa.get("out") != fb.get("out"):
            alarm = True
            notes.append("line %d: out %s vs %s" % (i, fa.get("out"), fb.get("out")))
        elif (fa.get("rec", "-").startswith("{") or fb.get("rec", "-").startswith("{")) and fa.get("rec") != fb.get("rec"):
            # set-valued result: the recorded delta (and whether there is one) is what the keyed publication is about
            alarm = True
            notes.append("line %d: recorded delta %s vs %s" % (i, fa.get("rec"), fb.get("rec")))
        elif fa.get("rec", "-") != fb.get("rec", "-") and (i not in unset or "-" not in (fa.get("rec", "-"), fb.get("rec", "-"))):
            # which cycles tick is part of what a consumer of the result sees (a tick with an equal value included)
            alarm = True
            notes.append("line %d: rec %s vs %s" % (i, fa.get("rec"), fb.get("rec")))
        elif fa.get("ev") != fb.get("ev"):
            # the per-cycle multiset of combiner evaluations (operand pairs) of the logging node combiner
            alarm = True
            notes.append("line %d: combiner evaluations %s vs %s" % (i, fa.get("ev"), fb.get("ev")))
        else:
            notes.append("line %d: %s" % (i, ",".join(k for k in ("rec", "mod", "n", "comb", "ngc") if fa.get(k) != fb.get(k))))
    return alarm, notes
