"""C03 (structured-input activity streams) - user code runs exactly when a source leaf under an ACTIVE position
of the node's input tree ticked and the readiness gate holds, with make_active()/make_passive() called on
inputs and on their children at run time (peered and NON-peered lists / bundles / nested lists).

Meant to be merged into tools/props/c03.py the way c07.py merges c07gs.py:
    streams += act.streams(...); monitor/features/nontrivial/valid_case dispatch on stream.startswith("activity-");
    LEAN_MODULES += act.LEAN_MODULES; THEOREMS += act.THEOREMS; CXX_TARGETS += act.CXX_TARGETS;
    RULE / TRUSTED / ASSUMPTIONS appended."""
import os
from vlib import Case, Stream, BUILD, model_cmd

ID = "C03ACT"
LEAN_MODULES = ["HgVerif.Props.C03Activity", "HgVerif.Lemmas.Activity", "HgVerif.Model.Activity"]
THEOREMS = [
    "HgVerif.Activity.runs_iff_active_tick_and_ready",
    "HgVerif.Activity.model_refines_spec",
    "HgVerif.Activity.active_tracks_commands",
    "HgVerif.Activity.make_passive_local",
    "HgVerif.Activity.make_passive_self",
    "HgVerif.Activity.make_active_local",
    "HgVerif.Activity.make_active_self",
    "HgVerif.Activity.cmd_local",
    "HgVerif.Activity.cmd_self",
    "HgVerif.Activity.parent_unaffected_by_child",
    "HgVerif.Activity.child_unaffected_by_parent",
    "HgVerif.Activity.make_active_passive_inverse",
    "HgVerif.Activity.make_passive_active_inverse",
    "HgVerif.Activity.make_passive_idempotent",
    "HgVerif.Activity.make_active_idempotent",
    "HgVerif.Activity.wf_reachable",
    "HgVerif.Activity.not_run_carries",
    "HgVerif.Activity.run_executes_pending",
    "HgVerif.Activity.validAt_iff",
    "HgVerif.Activity.gate_iff",
    "HgVerif.Activity.spec_vals",
]
CXX_TARGETS = ["hgv_activity"]
RULE = ("activity streams: one native probe node with 1-3 inputs out of {ts, tsl2, tsl3, tsb2 (each peered = bound whole to "
        "one producer, or NON-peered = assembled from separate producers), nested list of lists (non-peered / inner peered / "
        "peered whole)}, the structured input in slot 0 and in slots >= 1, each input initially active or passive and gated "
        "valid / all_valid / unchecked; 8-24 cycles of source-leaf ticks plus make_passive()/make_active() commands on inputs "
        "and on their children executed INSIDE the probe's user code (a command of a cycle in which the user code does not "
        "run is carried to its next run), optionally commands in the start hook; families: toggle a non-first input while "
        "only the first ticks afterwards, toggle the first, both toggled, children toggled individually, inner lists of a nested list active next to toggled "
        "non-peered inputs, late validity, random; a systematic sweep over ordered shape pairs; every run logs valid/modified/value of every leaf, "
        "valid/all_valid/modified of every composite and active() of every position; non-trivial = >=2 runs, >=1 executed "
        "command and >=1 cycle with ticks but no run; distinct by case text")
TRUSTED = ["subscription = activity flag: the observer-set plumbing behind subscribe()/unsubscribe() (ts_data observers, "
           "target_link_ops.cpp) is not modelled; covered by the correspondence and the monitor only"]
ASSUMPTIONS = ["all leaves are TS[int] fed by replay sources; fixed-size TSL / un-named TSB only (no TSD/TSS inputs, no REF, "
               "no structural activity, no rebinding while running); the probe is a NodeBuilder::native node (generic "
               "activate_input_slots / ready_to_evaluate of node.cpp), the static-node front end's own gate is not exercised"]

ACT = [os.path.join(BUILD, "hgv_activity")]

# ----------------------------------------------------------------------------- shapes

LEAF = ("leaf", True, ())


def _comp(peered, ch):
    return ("comp", peered, tuple(ch))


SHAPES = {
    "ts": LEAF,
    "tsl2p": _comp(True, [LEAF, LEAF]), "tsl2n": _comp(False, [LEAF, LEAF]),
    "tsl3p": _comp(True, [LEAF, LEAF, LEAF]), "tsl3n": _comp(False, [LEAF, LEAF, LEAF]),
    "tsb2p": _comp(True, [LEAF, LEAF]), "tsb2n": _comp(False, [LEAF, LEAF]),
    "nestn": _comp(False, [_comp(False, [LEAF, LEAF]), _comp(False, [LEAF, LEAF])]),
    "nestm": _comp(False, [_comp(True, [LEAF, LEAF]), _comp(True, [LEAF, LEAF])]),
    "nestp": _comp(True, [_comp(True, [LEAF, LEAF]), _comp(True, [LEAF, LEAF])]),
}
NONPEERED = ["tsl2n", "tsl3n", "tsb2n", "nestn", "nestm"]
PEERED = ["tsl2p", "tsl3p", "tsb2p", "nestp"]
ALL_SHAPES = list(SHAPES)


def positions(shape, prefix):
    """[(path, arity)] parents first"""
    out = [(prefix, len(shape[2]))]
    for i, c in enumerate(shape[2]):
        out += positions(c, prefix + (i,))
    return out


def pkey(p):
    return "abc"[p[0]] + "".join(".%d" % i for i in p[1:])


def parse_path(t):
    if not t or t[0] not in "abc":
        return None
    p = ["abc".index(t[0])]
    rest = t[1:]
    while rest:
        if len(rest) < 2 or rest[0] != "." or not rest[1].isdigit():
            return None
        p.append(int(rest[1]))
        rest = rest[2:]
    return tuple(p)


# ----------------------------------------------------------------------------- case <-> structure

class Parsed:
    def __init__(self):
        self.ins = []        # (shape name, active, gate)
        self.init = []       # (act, path)
        self.cycles = []     # (line index, {leaf: value}, [(act, path)])
        self.ok = True
        self.end = None

    def pos(self):
        out = []
        for k, (s, _, _) in enumerate(self.ins):
            out += positions(SHAPES[s], (k,))
        return out


def parse_case(lines):
    P = Parsed()
    for i, l in enumerate(lines):
        ws = l.split()
        if i == 0:
            continue
        if not ws:
            P.ok = False
        elif ws[0] == "in" and len(ws) == 4 and ws[1] in SHAPES and ws[2] in "ap" and ws[3] in "vau" and not P.cycles:
            P.ins.append((ws[1], ws[2] == "a", ws[3]))
        elif ws[0] == "init":
            for t in ws[1:]:
                P.init.append((t.startswith("act:"), parse_path(t[4:])))
        elif ws[0] == "t":
            ticks, cmds = {}, []
            for t in ws[1:]:
                if "=" in t:
                    a, b = t.split("=")
                    try:
                        ticks[parse_path(a)] = int(b)
                    except ValueError:
                        P.ok = False
                elif t[:4] in ("pas:", "act:"):
                    cmds.append((t.startswith("act:"), parse_path(t[4:])))
                else:
                    P.ok = False
            P.cycles.append((i, ticks, cmds))
        elif ws[0] == "end" and len(ws) == 1:
            P.end = i
            break
        else:
            P.ok = False
    valid = {p for p, _ in P.pos()}
    leaves = {p for p, a in P.pos() if a == 0}
    for (_, p) in P.init:
        P.ok = P.ok and p in valid
    for (_, ticks, cmds) in P.cycles:
        P.ok = P.ok and all(p in leaves for p in ticks) and all(p in valid for _, p in cmds)
    if not P.ins or len(P.ins) > 3:
        P.ok = False
    return P


# ----------------------------------------------------------------------------- the monitor (property level)

def _valid(P, vals, p):
    return any(q[:len(p)] == p for q in vals)


def _all_valid(P, vals, p, arity):
    if arity == 0:
        return p in vals
    return all(_valid(P, vals, p + (i,)) for i in range(arity))


def _gate(P, vals):
    for k, (s, _, g) in enumerate(P.ins):
        if g == "v" and not _valid(P, vals, (k,)):
            return False
        if g == "a" and not _all_valid(P, vals, (k,), len(SHAPES[s][2])):
            return False
    return True


def _describe(P, vals, ticks, shape, p):
    b = lambda x: "1" if x else "0"
    under = any(q[:len(p)] == p for q in ticks)
    if shape[0] == "leaf":
        return b(p in vals) + b(under) + "," + (str(vals[p]) if p in vals else "-")
    return (b(_valid(P, vals, p)) + b(_all_valid(P, vals, p, len(shape[2]))) + b(under) + "[" +
            " ".join(_describe(P, vals, ticks, c, p + (i,)) for i, c in enumerate(shape[2])) + "]")


def walk(case, out):
    """-> (violations, stats).  The reference reading of the property, from the declared initial activity and
    the commands the probe executed (it executes the queue exactly when its user code runs).  After a wrong
    active() report the walk goes on (the tracked set stays the specified one), so that a run that goes missing
    later is reported too; run / no-run violations are listed first."""
    P = parse_case(case.lines)
    st = {"runs": 0, "executed": 0, "tick_no_run": 0, "gate_closed": 0, "carried": 0, "passive_tick": 0}
    if not P.ok or P.end is None or len(out) <= P.end:
        return [], st
    if out[P.end] != "end":
        return ["[crash] the run of the graph failed: %s" % out[P.end]], st
    act = {(k,) for k, (_, a, _) in enumerate(P.ins) if a}
    for a, p in P.init:
        (act.add if a else act.discard)(p)
    vals, pending = {}, []
    allpos = P.pos()
    bad = []

    def done():
        return sorted(bad, key=lambda m: 0 if m.startswith("[activity]") else 1)[:3], st
    for cyc, (li, ticks, cmds) in enumerate(P.cycles):
        o = out[li]
        vals.update(ticks)
        hit = sorted(p for p in act if any(q[:len(p)] == p for q in ticks))
        ready = _gate(P, vals)
        expect = bool(hit) and ready
        if " || " in o:
            bad.append("[activity] cycle %d: the user code ran more than once in one engine cycle: %s" % (cyc, o[:160]))
            return done()
        ran = o.startswith("run")
        if not ran and o != "-":
            bad.append("[crash] cycle %d: unexpected driver output %r" % (cyc, o[:80]))
            return done()
        if ran != expect:
            tk = " ".join("%s=%d" % (pkey(p), v) for p, v in sorted(ticks.items())) or "(no tick)"
            if expect:
                bad.append("[activity] cycle %d (%s): a source leaf under the ACTIVE position %s ticked and the readiness gate "
                           "holds, but the user code did not run (active positions by declaration and executed commands: %s)"
                           % (cyc, tk, "/".join(pkey(p) for p in hit), " ".join(pkey(p) for p in sorted(act)) or "none"))
            else:
                why = ("no active position has a ticking leaf under it (active: %s)"
                       % (" ".join(pkey(p) for p in sorted(act)) or "none")) if not hit else "the readiness gate is closed"
                bad.append("[activity] cycle %d (%s): the user code ran although %s" % (cyc, tk, why))
            return done()      # from here on the executed-command history is no longer the specified one
        pending += cmds
        if ticks and not ran:
            st["tick_no_run"] += 1
            if hit:
                st["gate_closed"] += 1
            else:
                st["passive_tick"] += 1
        if not ran:
            if cmds:
                st["carried"] += 1
            continue
        st["runs"] += 1
        seen, _, flags = o[4:].partition(" |")
        want = " ".join(_describe(P, vals, ticks, SHAPES[s], (k,)) for k, (s, _, _) in enumerate(P.ins))
        if seen != want and not any(m.startswith("[values]") for m in bad):
            bad.append("[values] cycle %d: the user code saw %s, the latest values / flags written by the producers are %s"
                       % (cyc, seen, want))
        for a, p in pending:
            (act.add if a else act.discard)(p)
        st["executed"] += len(pending)
        pending = []
        wantf = " ".join("%s:%d" % (pkey(p), 1 if p in act else 0) for p, _ in allpos)
        if flags.strip() != wantf and not any(m.startswith("[active-flags]") for m in bad):
            got = dict(x.split(":") for x in flags.split())
            diff = [k for k in (pkey(p) for p, _ in allpos) if got.get(k) != ("1" if parse_path(k) in act else "0")]
            bad.append("[active-flags] cycle %d: active() reports %s, but by the declared activity and the commands executed "
                       "so far the active positions are {%s}" % (cyc, " ".join("%s=%s" % (k, got.get(k)) for k in diff),
                                                                 " ".join(pkey(p) for p in sorted(act))))
    return done()


def monitor(stream, case, out):
    return walk(case, out)[0]


def valid_case(stream, case, impl_out, model_out):
    P = parse_case(case.lines)
    return P.ok and P.end is not None and not any("bad-op" in l or l == "skip" for l in impl_out)


def nontrivial(stream, case, out):
    v, st = walk(case, out)
    return st["runs"] >= 2 and st["executed"] >= 1 and st["tick_no_run"] >= 1


def features(stream, case, out):
    P = parse_case(case.lines)
    if not P.ok:
        return ["invalid-case"]
    v, st = walk(case, out)
    f = ["stream:" + stream, "inputs:%d" % len(P.ins)]
    for k, (s, a, g) in enumerate(P.ins):
        f.append("shape:%s@slot%d" % (s, k))
        f.append("gate:" + g)
        if not a:
            f.append("initially-passive")
        if s in NONPEERED:
            f.append("nonpeered-in-slot0" if k == 0 else "nonpeered-in-slot>=1")
    if P.init:
        f.append("start-hook-commands")
    depth = set()
    for (_, _, cmds) in P.cycles:
        for a, p in cmds:
            depth.add(("act" if a else "pas") + (":input" if len(p) == 1 else ":child" if len(p) == 2 else ":grandchild")
                      + ("@slot0" if p[0] == 0 else "@slot>=1"))
    f += ["cmd:" + d for d in sorted(depth)]
    f.append("runs:%s" % ("0" if st["runs"] == 0 else "1-3" if st["runs"] <= 3 else "4-9" if st["runs"] <= 9 else "10+"))
    if st["carried"]:
        f.append("command-carried-to-later-run")
    if st["passive_tick"]:
        f.append("tick-under-passive-only:no-run")
    if st["gate_closed"]:
        f.append("active-tick-but-gate-closed:no-run")
    if case.meta.get("family"):
        f.append("family:" + case.meta["family"])
    return f


# ----------------------------------------------------------------------------- generator

def leaves_of(name, k):
    return [p for p, a in positions(SHAPES[name], (k,)) if a == 0]


def fmt_cycle(ticks, cmds):
    return " ".join(["t"] + ["%s=%d" % (pkey(p), v) for p, v in sorted(ticks.items())] +
                    ["%s:%s" % ("act" if a else "pas", pkey(p)) for a, p in cmds])


def build(idx, ins, init, cycles, family):
    L = ["case %d" % idx] + ["in %s %s %s" % (s, "a" if a else "p", g) for s, a, g in ins]
    if init:
        L.append("init " + " ".join("%s:%s" % ("act" if a else "pas", pkey(p)) for a, p in init))
    L += [fmt_cycle(t, c) for t, c in cycles] + ["end"]
    return Case(L, {"family": family})


def rnd_ticks(rng, leaves, p):
    return {l: rng.randint(0, 20) for l in leaves if rng.random() < p}


def pick_shapes(rng, n, want_np_late):
    """n shapes; want_np_late: a NON-peered structured input sits in a slot >= 1 (and often one in slot 0 too)"""
    shapes = [rng.choice(ALL_SHAPES) for _ in range(n)]
    if want_np_late and n >= 2:
        shapes[rng.randrange(1, n)] = rng.choice(NONPEERED)
        if rng.random() < 0.6:
            shapes[0] = rng.choice(NONPEERED + ["ts", "tsl2p"])
    return shapes


def gen_toggle(rng, idx, which):
    """which: 'nonfirst' | 'first' | 'both' - toggle whole inputs, then only the OTHER input ticks for a while"""
    n = rng.choice([2, 2, 3, 3])
    shapes = pick_shapes(rng, n, True)
    if which == "first" and rng.random() < 0.7:
        shapes[0] = rng.choice(NONPEERED)
    ins = [(s, True, "u") for s in shapes]
    lv = [leaves_of(s, k) for k, s in enumerate(shapes)]
    allv = [l for x in lv for l in x]
    cycles = [(rnd_ticks(rng, allv, 0.5) or {allv[0]: 1}, []) for _ in range(rng.randint(1, 3))]
    victim = rng.randrange(1, n) if which == "nonfirst" else 0 if which == "first" else None
    order = [victim] if victim is not None else rng.sample(range(n), 2)
    for v in order:
        # the command rides on a tick of an input that is active now
        cycles.append((rnd_ticks(rng, allv, 0.4) or {rng.choice(allv): 2}, [(False, (v,))]))
        others = [l for k in range(n) if k != v for l in lv[k]]
        for _ in range(rng.randint(2, 4)):       # only the others tick: every such cycle must run
            cycles.append(({rng.choice(others): rng.randint(0, 20)}, []))
        for _ in range(rng.randint(1, 2)):       # only the victim ticks: must not run
            cycles.append(({rng.choice(lv[v]): rng.randint(0, 20)}, []))
        cycles.append((rnd_ticks(rng, others, 0.5) or {others[0]: 3}, []))
    for v in order:
        others = [l for k in range(n) if k != v for l in lv[k]]
        cycles.append(({rng.choice(others): 4}, [(True, (v,))]))
        cycles.append(({rng.choice(lv[v]): 5}, []))
    for _ in range(rng.randint(1, 4)):
        cycles.append((rnd_ticks(rng, allv, 0.3), []))
    return build(idx, ins, [], cycles[:60], "toggle-" + which)


def gen_children(rng, idx):
    """the parent passive, children (and grandchildren) made active / passive individually"""
    n = rng.choice([1, 2, 2, 3])
    shapes = [rng.choice([s for s in ALL_SHAPES if s != "ts"]) for _ in range(n)]
    if n >= 2 and rng.random() < 0.5:
        shapes[rng.randrange(n)] = "ts"
    if all(s == "ts" for s in shapes):
        shapes[-1] = rng.choice(NONPEERED)
    ins = [(s, rng.random() < 0.8, "u") for s in shapes]
    pos = [p for k, s in enumerate(shapes) for p, a in positions(SHAPES[s], (k,))]
    lv = [l for k, s in enumerate(shapes) for l in leaves_of(s, k)]
    init = []
    if rng.random() < 0.5:
        k = rng.choice([k for k, s in enumerate(shapes) if s != "ts"])
        init = [(False, (k,))] + [(True, (k, i)) for i in range(len(SHAPES[shapes[k]][2])) if rng.random() < 0.8]
    cycles = []
    for _ in range(rng.randint(10, 22)):
        cmds = []
        if rng.random() < 0.4:
            for _ in range(rng.choice([1, 1, 2, 3])):
                p = rng.choice(pos)
                cmds.append((rng.random() < 0.5, p))
                if rng.random() < 0.3:       # parent passive + this child active, the classic per-child selection
                    cmds.append((False, p[:-1] if len(p) > 1 else p))
        cycles.append((rnd_ticks(rng, lv, rng.choice([0.15, 0.3, 0.5])), cmds))
    return build(idx, ins, init, cycles, "children")


def gen_deep(rng, idx):
    """a nested non-peered list whose INNER lists are the only active positions (the outer list passive), next to
    other non-peered inputs that are toggled: the prune loop of make_passive then walks past trie nodes whose only
    active nodes are grandchildren of the root"""
    n = rng.choice([2, 2, 3])
    shapes = [rng.choice(NONPEERED) for _ in range(n)]
    x = rng.randrange(n)
    shapes[x] = "nestn"
    ins = [(s, True, "u") for s in shapes]
    lv = [leaves_of(s, k) for k, s in enumerate(shapes)]
    allv = [l for y in lv for l in y]
    kids = [i for i in (0, 1) if rng.random() < 0.7] or [rng.randrange(2)]
    setup = [(False, (x,))] + [(True, (x, i)) for i in kids]
    init, cycles = [], []
    if rng.random() < 0.5:
        init = setup
        cycles.append((rnd_ticks(rng, allv, 0.4) or {allv[0]: 1}, []))
    else:
        cycles.append((rnd_ticks(rng, allv, 0.4) or {allv[0]: 1}, setup))
    others = [k for k in range(n) if k != x]
    live = [l for l in lv[x] if l[1] in kids]
    for _ in range(rng.randint(2, 4)):
        o = rng.choice(others)
        tgt = (o,) if rng.random() < 0.7 or shapes[o] != "nestn" else (o, rng.randrange(2))
        # the toggle rides on a tick of a leaf under an active inner list of x
        cycles.append(({rng.choice(live): rng.randint(0, 20)}, [(False, tgt)]))
        for _ in range(rng.randint(1, 3)):
            cycles.append(({rng.choice(live): rng.randint(0, 20)}, []))           # must run
        cycles.append(({rng.choice(lv[o]): rng.randint(0, 20)}, []))
        if rng.random() < 0.6:
            cycles.append(({rng.choice(live): rng.randint(0, 20)}, [(True, tgt)]))
        cycles.append((rnd_ticks(rng, allv, 0.3), []))
    return build(idx, ins, init, cycles[:60], "deep-child")


def gen_late_valid(rng, idx):
    n = rng.choice([2, 3])
    shapes = pick_shapes(rng, n, rng.random() < 0.6)
    ins = [(s, rng.random() < 0.85, rng.choice("vvaau")) for s in shapes]
    lv = [leaves_of(s, k) for k, s in enumerate(shapes)]
    allv = [l for x in lv for l in x]
    pos = [p for k, s in enumerate(shapes) for p, a in positions(SHAPES[s], (k,))]
    cycles = []
    quiet = set(rng.sample(allv, rng.randint(1, max(1, len(allv) // 2))))      # leaves that become valid late
    late = rng.randint(3, 8)
    for c in range(rng.randint(10, 20)):
        pool = [l for l in allv if c >= late or l not in quiet]
        cmds = [(rng.random() < 0.5, rng.choice(pos))] if rng.random() < 0.3 else []
        cycles.append((rnd_ticks(rng, pool, 0.35), cmds))
    return build(idx, ins, [], cycles, "late-validity")


def gen_random(rng, idx):
    n = rng.choice([1, 2, 2, 3, 3])
    shapes = pick_shapes(rng, n, rng.random() < 0.5)
    ins = [(s, rng.random() < 0.8, rng.choice("uuuuvva")) for s in shapes]
    lv = [leaves_of(s, k) for k, s in enumerate(shapes)]
    allv = [l for x in lv for l in x]
    pos = [p for k, s in enumerate(shapes) for p, a in positions(SHAPES[s], (k,))]
    roots = [(k,) for k in range(n)]
    init = []
    if rng.random() < 0.2:
        init = [(rng.random() < 0.6, rng.choice(pos)) for _ in range(rng.randint(1, 3))]
    cycles = []
    focus = None
    for c in range(rng.randint(8, 24)):
        if rng.random() < 0.2:
            focus = rng.choice([None] + list(range(n)))      # a stretch in which only one input ticks
        pool = allv if focus is None else lv[focus]
        cmds = []
        if rng.random() < 0.3:
            for _ in range(rng.choice([1, 1, 2])):
                cmds.append((rng.random() < 0.45, rng.choice(roots if rng.random() < 0.6 else pos)))
        cycles.append((rnd_ticks(rng, pool, rng.choice([0.1, 0.25, 0.5])), cmds))
    return build(idx, ins, init, cycles, "random")


def systematic(start, pairs):
    """ordered shape pairs (+ a scalar clock in slot 2): every input and every child toggled once, with ticks on
    either side of the toggle"""
    cases = []
    for n, (sa, sb) in enumerate(pairs):
        ins = [(sa, True, "u"), (sb, True, "u"), ("ts", True, "u")]
        la, lb, clk = leaves_of(sa, 0), leaves_of(sb, 1), (2,)
        cyc = [({l: 1 for l in la + lb}, [])]
        v = [10]

        def tick(l):
            v[0] += 1
            return ({l: v[0]}, [])

        def cmd(*cs):
            v[0] += 1
            return ({clk: v[0]}, list(cs))
        for tgt, oth, lt, lo in (((1,), (0,), lb, la), ((0,), (1,), la, lb)):
            cyc += [cmd((False, tgt)), tick(lo[0]), tick(lt[0]), tick(lo[-1]), tick(lt[-1]), cmd((True, tgt)), tick(lt[0]), tick(lo[0])]
        # children individually: parent passive, one child active
        for k, s, lv in ((1, sb, lb), (0, sa, la)):
            ar = len(SHAPES[s][2])
            if ar == 0:
                continue
            cyc += [cmd((False, (k,)), (True, (k, ar - 1)))]
            cyc += [tick(l) for l in lv]
            cyc += [tick(l) for l in (la if k == 1 else lb)[:1]]
            cyc += [cmd((False, (k, ar - 1)), (True, (k, 0))), tick(lv[0]), tick(lv[-1]), cmd((False, (k, 0)), (True, (k,))), tick(lv[-1])]
        cases.append(build(start + n, ins, [], cyc[:62], "systematic"))
    return cases


def corpus():
    d = os.path.join(os.path.dirname(os.path.dirname(os.path.dirname(os.path.abspath(__file__)))), "corpus", "C03")
    out = []
    if os.path.isdir(d):
        for fn in sorted(os.listdir(d)):
            if fn.startswith("activity_") and fn.endswith(".txt"):
                lines = [l.rstrip("\n") for l in open(os.path.join(d, fn)) if l.strip() and not l.startswith("#")]
                out.append(Case(lines, {"family": "corpus"}))
    return out


def streams(rng, tier, seed):
    quick = tier == "quick"
    nd = 40 if quick else 1200          # per directed family
    nr = 160 if quick else 6000
    directed = []
    i = 0
    for fam in (lambda j: gen_toggle(rng, j, "nonfirst"), lambda j: gen_toggle(rng, j, "first"),
                lambda j: gen_toggle(rng, j, "both"), lambda j: gen_children(rng, j), lambda j: gen_late_valid(rng, j),
                lambda j: gen_deep(rng, j)):
        for _ in range(nd):
            directed.append(fam(i))
            i += 1
    rand = [gen_random(rng, 10000 + j) for j in range(nr)]
    if quick:
        firsts = ["ts", "tsl2n", "tsb2p", "nestn"]
        pairs = [(a, b) for b in ALL_SHAPES for a in firsts]
        rng.shuffle(pairs)
        pairs = pairs[:24]
    else:
        pairs = [(a, b) for a in ALL_SHAPES for b in ALL_SHAPES]
    syst = corpus() + systematic(20000, pairs)
    m = model_cmd("C03Activity")
    return [Stream("activity-directed", ACT, m, directed, timeout=900),
            Stream("activity-random", ACT, m, rand, timeout=900),
            Stream("activity-systematic", ACT, m, syst, timeout=900)]
